"""Shared machinery for the properties about marshal / unmarshal (C01 C03 C05 C06 C07 C08 C11 C13 C14):
run the same operations on the real library (in forked children) and on the Lean driver."""
from __future__ import annotations

import json
import os
import sys
import warnings

from . import enc, iso, lean

SRC = os.environ.get("TYPELIB_SRC", "/repo/src")


def import_typelib():
    """Import the library under test once, in the zygote, and nothing else of it."""
    if SRC not in sys.path:
        sys.path.insert(0, SRC)
    warnings.simplefilter("ignore")
    import typelib  # noqa: F401
    return typelib


def real_core(job):
    """Child: materialise the program and run the ops on the real library."""
    warnings.simplefilter("ignore")
    import typelib
    P = enc.Program(job["prog"])
    outs = []
    for op in job["ops"]:
        kind = op["op"]
        try:
            ann = P.annotation(op["ty"]) if "ty" in op else None
        except BaseException as e:  # noqa: BLE001
            outs.append({"crash": f"annotation: {type(e).__name__}: {e}"})
            continue
        try:
            v = enc.to_py(op["val"], P) if "val" in op else None
        except BaseException as e:  # noqa: BLE001
            outs.append({"crash": f"value: {type(e).__name__}: {e}"})
            continue
        if kind == "um":
            outs.append(real_um(typelib, P, ann, v, op))
        elif kind == "mar":
            outs.append(real_mar(typelib, P, ann, v, op))
        elif kind == "rt":
            box = {}
            def m():
                box["m"] = typelib.marshal(v, t=ann)
                return box["m"]
            r1 = enc.run_real(m, P)
            res = {"mar": r1}
            if "ok" in r1:
                res["um"] = enc.run_real(lambda: typelib.unmarshal(ann, box["m"]), P)
                if "ok" in res["um"]:
                    # fixpoint clause of C01
                    back = typelib.unmarshal(ann, box["m"])
                    res["mar2"] = enc.run_real(lambda: typelib.marshal(back, t=ann), P)
            outs.append(res)
        elif kind == "textequiv":
            # C14: JSON text / Python-literal text of a wire value vs the decoded value
            import json as _json
            wire = v
            res = {"decoded": enc.run_real(lambda: typelib.unmarshal(ann, wire), P)}
            try:
                jt = _json.dumps(wire)
                res["json_text"] = jt
                res["json"] = enc.run_real(lambda: typelib.unmarshal(ann, jt), P)
                res["json_bytes"] = enc.run_real(lambda: typelib.unmarshal(ann, jt.encode()), P)
            except (TypeError, ValueError):
                pass
            rt = repr(wire)
            res["repr_text"] = rt
            res["repr"] = enc.run_real(lambda: typelib.unmarshal(ann, rt), P)
            outs.append(res)
        elif kind == "strload":
            import json as _json
            from typelib import serdes
            s = op["s"]
            res = {"strload": enc.run_real(lambda: serdes.strload(s), P), "load": enc.run_real(lambda: serdes.load(s), P),
                   "load_bytes": enc.run_real(lambda: serdes.load(s.encode()), P)}
            def _strict(c):
                raise ValueError(f"non-standard JSON constant {c}")
            try:
                # strict RFC 8259: NaN / Infinity are not JSON
                res["json"] = {"ok": enc.from_py(_json.loads(s, parse_constant=_strict), P)}
            except ValueError:
                res["json"] = None
            try:
                import ast as _ast
                _ast.literal_eval(s)
                res["literal"] = True
            except Exception:  # noqa: BLE001
                res["literal"] = False
            for nt in (5, None, 2.5, (1, 2)):
                if serdes.load(nt) is not nt:
                    res["nontext_changed"] = repr(nt)
            outs.append(res)
        elif kind == "codec":
            # C02: the three entry points under three encoder/decoder configurations
            import json as _json
            from typelib.py import compat
            def std_enc(m):
                return _json.dumps(m).encode()
            def tag_enc(m):
                return b"TAG:" + _json.dumps(m, separators=(",", ":")).encode()
            def tag_dec(b):
                assert bytes(b[:4]) == b"TAG:"
                return _json.loads(bytes(b[4:]))
            confs = {"default": {}, "stdlib": {"encoder": std_enc, "decoder": _json.loads},
                     "tagging": {"encoder": tag_enc, "decoder": tag_dec}}
            res = {"mar": enc.run_real(lambda: typelib.marshal(v, t=ann), P), "confs": {}}
            for cname, kw in confs.items():
                ekw = {k: f for k, f in kw.items() if k == "encoder"}
                dkw = {k: f for k, f in kw.items() if k == "decoder"}
                encoder = kw.get("encoder", compat.json.dumps)
                decoder = kw.get("decoder", compat.json.loads)
                c = {}
                box = {}
                def cenc():
                    box["c"] = typelib.codec(ann, **kw)
                    box["b"] = box["c"].encode(v)
                    return box["b"]
                r1 = enc.run_real(cenc, P)
                c["codec_encode"] = {k: r1[k] for k in r1 if k in ("err", "msg")} or {"ok": True}
                if "b" in box:
                    b = box["b"]
                    c["is_bytes"] = isinstance(b, bytes)
                    c["api_encode_same"] = enc.run_real(lambda: typelib.encode(v, t=ann, **ekw) == b, P)
                    c["compose_encode_same"] = enc.run_real(lambda: encoder(typelib.marshal(v, t=ann)) == b, P)
                    if cname != "tagging":
                        try:
                            c["json_loads"] = {"ok": enc.from_py(_json.loads(b), P)}
                        except Exception as e:  # noqa: BLE001
                            c["json_loads"] = {"err": enc.err_class(e), "msg": str(e)[:100]}
                    c["codec_decode"] = enc.run_real(lambda: box["c"].decode(b), P)
                    c["api_decode"] = enc.run_real(lambda: typelib.decode(ann, b, **dkw), P)
                    c["compose_decode"] = enc.run_real(lambda: typelib.unmarshal(ann, decoder(b)), P)
                else:
                    c["api_encode"] = enc.run_real(lambda: typelib.encode(v, t=ann, **ekw), P)
                res["confs"][cname] = c
            outs.append(res)
        elif kind == "union":
            members = [P.annotation(m) for m in op["members"]]

            def fresh():
                # every call gets an input of its own: what a member does to its input may not reach the next call
                return enc.to_py(op["val"], P)
            res = {"union": enc.run_real(lambda: typelib.unmarshal(ann, fresh()), P),
                   "members": [enc.run_real(lambda m=m: typelib.unmarshal(m, fresh()), P) for m in members],
                   # (the marshal side keeps ONE object: str(memoryview) shows its address, two objects never marshal alike)
                   "munion": enc.run_real(lambda: typelib.marshal(v, t=ann), P),
                   "mmembers": [enc.run_real(lambda m=m: typelib.marshal(v, t=m), P) for m in members]}
            outs.append(res)
        elif kind == "umum":
            # idempotence: unmarshal twice
            box = {}
            def u1():
                box["r"] = typelib.unmarshal(ann, v)
                return box["r"]
            r1 = enc.run_real(u1, P)
            res = {"um": r1}
            if "ok" in r1:
                res["um2"] = enc.run_real(lambda: typelib.unmarshal(ann, box["r"]), P)
            outs.append(res)
        else:
            outs.append({"crash": f"unknown op {kind}"})
    return outs


def real_um(typelib, P, ann, v, op):
    """unmarshal with the extra observations requested in op['obs']."""
    obs = op.get("obs", ())
    box = {}

    def call():
        box["r"] = typelib.unmarshal(ann, v)
        return box["r"]
    out = enc.run_real(call, P)
    if "r" in box:
        r = box["r"]
        if "conforms" in obs:
            from .pyoracle import conforms as pc
            why = []
            try:
                out["conforms"] = bool(pc.conforms(ann, r, why))
            except Exception as e:  # noqa: BLE001
                out["conforms"] = None
                why.append(f"checker raised {type(e).__name__}: {e}")
            out["why"] = why[:4]
        if "idem" in obs:
            out["again"] = enc.run_real(lambda: typelib.unmarshal(ann, r), P)
    if "carriers" in obs and isinstance(op["val"], str):
        cs = {}
        for c, mk in enc.CARRIERS.items():
            cs[c] = enc.run_real(lambda: typelib.unmarshal(ann, mk(op["val"])), P)
        out["carriers"] = cs
    return out


def _walk_ids(x, acc, depth=0):
    """ids of every mutable container reachable from x (list / dict / set / deque / bytearray)."""
    import collections
    if depth > 200:
        return
    if isinstance(x, (list, dict, set, collections.deque, bytearray)):
        acc.add(id(x))
    if isinstance(x, dict):
        for k, v in x.items():
            _walk_ids(k, acc, depth + 1)
            _walk_ids(v, acc, depth + 1)
    elif isinstance(x, (list, tuple, set, frozenset, collections.deque)):
        for e in x:
            _walk_ids(e, acc, depth + 1)
    elif hasattr(x, "__dataclass_fields__") or hasattr(x, "__dict__") and not isinstance(x, type):
        try:
            for e in vars(x).values():
                _walk_ids(e, acc, depth + 1)
        except TypeError:
            pass
    elif hasattr(type(x), "__slots__") and not isinstance(x, (str, bytes, int, float)):
        for sname in getattr(type(x), "__slots__", ()):
            if hasattr(x, sname):
                _walk_ids(getattr(x, sname), acc, depth + 1)


def plain_reason(m, depth=0):
    """None if m consists solely of None/bool/int/float/str/list/dict of exact builtin classes with primitive keys."""
    t = type(m)
    if m is None or t in (bool, int, float, str):
        return None
    if depth > 300:
        return None
    if t is list:
        for e in m:
            r = plain_reason(e, depth + 1)
            if r:
                return r
        return None
    if t is dict:
        for k, e in m.items():
            if not (k is None or type(k) in (bool, int, float, str)):
                return f"dict key of class {type(k).__name__}"
            r = plain_reason(e, depth + 1)
            if r:
                return r
        return None
    return f"value of class {t.__module__}.{t.__qualname__}"


def real_mar(typelib, P, ann, v, op):
    obs = op.get("obs", ())
    box = {}
    before = enc.from_py(v, P) if "plain" in obs else None

    def call():
        box["m"] = typelib.marshal(v, t=ann)
        return box["m"]
    out = enc.run_real(call, P)
    if "m" in box and "plain" in obs:
        import json as _json
        m = box["m"]
        out["plain"] = plain_reason(m)
        try:
            _json.dumps(m)
            out["json"] = True
        except Exception as e:  # noqa: BLE001
            out["json"] = f"{type(e).__name__}: {e}"[:120]
        m2 = typelib.marshal(v, t=ann)
        out["deterministic"] = enc.canon_unordered(enc.from_py(m2, P)) == enc.canon_unordered(enc.from_py(m, P))
        ids_in, ids_out, ids_out2 = set(), set(), set()
        _walk_ids(v, ids_in)
        _walk_ids(m, ids_out)
        _walk_ids(m2, ids_out2)
        out["shares_with_input"] = bool(ids_in & ids_out)
        out["shares_between_calls"] = bool(ids_out & ids_out2)
        out["input_unmodified"] = enc.from_py(v, P) == before
    return out


def lean_core(jobs):
    """One driver run for all jobs; returns per job the list of driver answers."""
    lines, index = [], []
    for ji, job in enumerate(jobs):
        lines.append({"op": "env", "env": enc.lean_env(job["prog"])})
        index.append((ji, None))
        for oi, op in enumerate(job["ops"]):
            if op["op"] == "strload":
                l = {"op": "strload", "s": op["s"]}
            else:
                l = {"op": {"umum": "um", "textequiv": "um", "union": "um", "codec": "mar"}.get(op["op"], op["op"]), "val": op["val"]}
                if "ty" in op:
                    l["ty"] = enc.strip_hints(op["ty"])
            lines.append(l)
            index.append((ji, oi))
    outs = lean.drive(lines)
    res = [[None] * len(j["ops"]) for j in jobs]
    for (ji, oi), o in zip(index, outs):
        if oi is not None:
            res[ji][oi] = o
    return res


def run_jobs(jobs, nproc=None, timeout=120.0):
    import_typelib()
    real = iso.map_isolated(real_core, jobs, nproc=nproc, timeout=timeout)
    model = lean_core(jobs)
    return real, model


def model_skips(m):
    """Did the model declare the case outside its executable fragment?"""
    return isinstance(m, dict) and m.get("err") in ("unsupported", "fuel")


def same(real, model, unordered=False):
    """Compare a real outcome with a model outcome (both {'ok': val} | {'err': cls})."""
    if "ok" in real and "ok" in model:
        c = enc.canon_unordered if unordered else enc.canon
        return c(real["ok"]) == c(model["ok"])
    if "err" in real and "err" in model:
        return real["err"] == model["err"]
    return False


def gen_jobs(ctx, n_prog, tag, cfg_kw, make_ops):
    """n_prog programs; make_ops(gen, prog) -> list of ops (types must be generated BEFORE materialisation,
    which the children do)."""
    from . import universe
    jobs = []
    for i in range(n_prog):
        g = universe.Gen(ctx.rng, universe.Cfg(**cfg_kw))
        prog = g.program(tag=f"{tag}_{i}")
        jobs.append({"prog": prog, "ops": make_ops(g, prog)})
    return jobs


def iter_results(jobs, real, model):
    """Yield (job, op, real_out, model_out); harness failures raise."""
    for job, ro, mo in zip(jobs, real, model):
        if isinstance(ro, dict) and "crash" in ro:
            raise RuntimeError(f"harness: program failed to materialise: {ro}")
        for op, r_, m_ in zip(job["ops"], ro, mo):
            if isinstance(r_, dict) and "crash" in r_:
                raise RuntimeError(f"harness: {r_}")
            yield job, op, r_, m_


def compare(res, what, inp, r_, m_, unordered=False):
    """Correspondence bookkeeping for one (real, model) outcome pair. Returns True if compared and equal."""
    if model_skips(m_):
        res.skipped += 1
        res.count(f"{what}:model-unsupported")
        return None
    # an input that holds a set is iterated in hash order: sequence results built from it have no defined order
    unordered = unordered or _val_has_set(inp.get("val"))
    if same(r_, m_, unordered=unordered):
        res.count(f"{what}:agree:" + ("ok" if "ok" in r_ else r_["err"]))
        return True
    if _val_has_set(inp.get("val")) and _has_positional(inp):
        # a multi-element set fed to a positional routine (fixed tuple / named tuple): which elements land where depends on the
        # hash order of the real set, which the model (insertion order) cannot know -- not comparable
        res.skipped += 1
        res.count(f"{what}:set-order-indeterminate")
        return None
    res.count(f"{what}:DISAGREE")
    res.disagreements.append({"what": what, "input": inp, "real": {k: r_[k] for k in r_ if k in ("ok", "err", "msg")}, "model": m_})
    return False


def _has_positional(inp):
    txt = json.dumps([inp.get("ty"), inp.get("prog")])
    return '"tuple"' in txt or '"namedtuple"' in txt


def _val_has_set(vj):
    """Does the encoded value hold a set / frozenset of more than one element?  (iterative: values nest to depth 150 in C07)"""
    todo = [vj]
    while todo:
        x = todo.pop()
        if isinstance(x, list):
            if x and x[0] in ("s", "fs") and len(x) == 2 and isinstance(x[1], list) and len(x[1]) > 1:
                return True
            todo.extend(x)
    return False


def corpus_jobs(pid):
    """Minimised past misses / adversarial cases of a property (corpus/<pid>/*.json): they run first."""
    import glob
    root = os.path.join(os.path.dirname(os.path.dirname(os.path.abspath(__file__))), "corpus", pid)
    jobs = []
    for f in sorted(glob.glob(os.path.join(root, "*.json"))):
        d = json.load(open(f))
        jobs.append({"prog": d["prog"], "ops": d["ops"], "corpus": os.path.basename(f)})
    return jobs
