"""Shared machinery for the properties about marshal / unmarshal (C01 C03 C05 C06 C07 C08 C11 C13 C14):
run the same operations on the real library (in forked children) and on the Lean driver."""
from __future__ import annotations

import json
import os
import sys
import warnings

from . import enc, iso, lean

SRC = os.environ.get("TYPELIB_SRC", "/repo/src")


def import_typelib():
    """Import the library under test once, in the zygote, and nothing else of it."""
    if SRC not in sys.path:
        sys.path.insert(0, SRC)
    warnings.simplefilter("ignore")
    import typelib  # noqa: F401
    return typelib


def real_core(job):
    """Child: materialise the program and run the ops on the real library."""
    warnings.simplefilter("ignore")
    import typelib
    P = enc.Program(job["prog"])
    outs = []
    for op in job["ops"]:
        kind = op["op"]
        try:
            ann = P.annotation(op["ty"]) if "ty" in op else None
        except BaseException as e:  # noqa: BLE001
            outs.append({"crash": f"annotation: {type(e).__name__}: {e}"})
            continue
        try:
            v = enc.to_py(op["val"], P) if "val" in op else None
        except BaseException as e:  # noqa: BLE001
            outs.append({"crash": f"value: {type(e).__name__}: {e}"})
            continue
        if kind == "um":
            outs.append(enc.run_real(lambda: typelib.unmarshal(ann, v), P))
        elif kind == "mar":
            outs.append(enc.run_real(lambda: typelib.marshal(v, t=ann), P))
        elif kind == "rt":
            box = {}
            def m():
                box["m"] = typelib.marshal(v, t=ann)
                return box["m"]
            r1 = enc.run_real(m, P)
            res = {"mar": r1}
            if "ok" in r1:
                res["um"] = enc.run_real(lambda: typelib.unmarshal(ann, box["m"]), P)
                if "ok" in res["um"]:
                    # fixpoint clause of C01
                    back = typelib.unmarshal(ann, box["m"])
                    res["mar2"] = enc.run_real(lambda: typelib.marshal(back, t=ann), P)
            outs.append(res)
        elif kind == "umum":
            # idempotence: unmarshal twice
            box = {}
            def u1():
                box["r"] = typelib.unmarshal(ann, v)
                return box["r"]
            r1 = enc.run_real(u1, P)
            res = {"um": r1}
            if "ok" in r1:
                res["um2"] = enc.run_real(lambda: typelib.unmarshal(ann, box["r"]), P)
            outs.append(res)
        else:
            outs.append({"crash": f"unknown op {kind}"})
    return outs


def lean_core(jobs):
    """One driver run for all jobs; returns per job the list of driver answers."""
    lines, index = [], []
    for ji, job in enumerate(jobs):
        lines.append({"op": "env", "env": enc.lean_env(job["prog"])})
        index.append((ji, None))
        for oi, op in enumerate(job["ops"]):
            l = {"op": "um" if op["op"] == "umum" else op["op"], "val": op["val"]}
            if "ty" in op:
                l["ty"] = enc.strip_hints(op["ty"])
            lines.append(l)
            index.append((ji, oi))
    outs = lean.drive(lines)
    res = [[None] * len(j["ops"]) for j in jobs]
    for (ji, oi), o in zip(index, outs):
        if oi is not None:
            res[ji][oi] = o
    return res


def run_jobs(jobs, nproc=None, timeout=120.0):
    import_typelib()
    real = iso.map_isolated(real_core, jobs, nproc=nproc, timeout=timeout)
    model = lean_core(jobs)
    return real, model


def model_skips(m):
    """Did the model declare the case outside its executable fragment?"""
    return isinstance(m, dict) and m.get("err") in ("unsupported", "fuel")


def same(real, model, unordered=False):
    """Compare a real outcome with a model outcome (both {'ok': val} | {'err': cls})."""
    if "ok" in real and "ok" in model:
        c = enc.canon_unordered if unordered else enc.canon
        return c(real["ok"]) == c(model["ok"])
    if "err" in real and "err" in model:
        return real["err"] == model["err"]
    return False
