"""Generators for the type universe U of DESIGN.md §3: programs (class environments + annotation),
valid values, wire forms and junk.  Everything here is *data* (specs in the JSON form shared with
the Lean driver); nothing imports typelib.  Every random choice comes from the `random.Random`
handed in, so a case replays from (seed, index) and also from its serialised form.
"""
from __future__ import annotations

import zlib
import json
import random

MAX_ORD = 3652059
US_DAY = 86400000000

SCALARS = ["int", "bool", "float", "str", "decimal", "fraction", "uuid", "path", "pattern",
           "date", "datetime", "time", "timedelta"]
KEY_SCALARS = ["str", "int", "bool", "decimal", "fraction", "uuid", "date", "path"]
# aware times / datetimes of one instant with different offsets are equal set elements: excluded
HASHABLE_SCALARS = ["int", "str", "bool", "float", "decimal", "fraction", "uuid", "path", "date", "timedelta"]

STRS = ["", "a", "ab", "null", "1", "1.5", "true", "[1,2]", '{"a":1}', "2020-01-02", "None", "hello world",
        "é", "日本", '"x"', "12:30:00", "P1D", "-3", "x y", "True", "0", "nan", "1e3", " 7 ", "1_000", "abc",
        "00000000-0000-0000-0000-000000000001", "a/b", "(1, 2)", "1,2", "{'a': 1}", "\n", "\\", "a\"b", "éè"]
FLOATS = ["0.0", "1.5", "-2.25", "0.001", "123456.789", "1.0", "-0.5", "3.14159", "100.0", "1e-07", "1.5e+300", "2.5", "0.1"]
DECS = ["0", "1.0", "-2.50", "3.14159", "100", "0.001", "12345678901234567890.123456789", "1E-7", "0.000001", "7", "1E+3"]
PATHS = ["a", "a/b", "/", "/usr/lib", "1", "a.txt", "..", "x/y/z.tar.gz", "null", "3.5",
         '"a"', "'a'", '"/etc/passwd"', "[1]", '{"a": 1}', "true", "a b", "2020-01-01"]
PATTERNS = ["abc", "a b", "x1", "hello", "A_b"]
NAMES = ["a", "b", "c", "d", "e", "f", "val", "name", "items", "nxt", "kids", "x", "y"]


def ri(r, lo, hi):
    return r.randint(lo, hi)


class Cfg:
    def __init__(self, **kw):
        self.max_depth = 3
        self.unions = "any"        # "none" | "optional" | "any"
        self.wrappers = True
        self.recursion = True
        self.any_ok = False
        self.classes = (0, 3)
        self.enums = (0, 2)
        self.spellings = True
        self.flavours = ["dataclass", "dataclass", "namedtuple", "typeddict", "plain", "slots"]
        self.nested = True
        self.multi_module = True
        self.scalars = list(SCALARS)
        self.__dict__.update(kw)


class Gen:
    def __init__(self, rng: random.Random, cfg: Cfg | None = None):
        self.r = rng
        self.cfg = cfg or Cfg()

    # ------------------------------------------------------------------ programs
    def program(self, tag="p"):
        r, cfg = self.r, self.cfg
        prog = {"classes": [], "aliases": {}}
        self.prog = prog
        mods = [f"vm_{tag}_a", f"vm_{tag}_b"] if cfg.multi_module and r.random() < 0.4 else [f"vm_{tag}_a"]
        self.mods = mods
        n_enum = ri(r, *cfg.enums)
        n_cls = ri(r, *cfg.classes)
        # enums first
        for _ in range(n_enum):
            cid = len(prog["classes"])
            mixin = r.choice(["none", "none", "int", "str"])
            if mixin == "int":
                vals = r.sample([0, 1, 2, 3, 7, -1, 10], ri(r, 1, 3))
            elif mixin == "str":
                vals = r.sample(["1", "x", "null", "ab", "3.5", "red", "[1]", "true"], ri(r, 1, 3))
            else:
                pool = r.choice([[1, 2, 3], ["a", "b", "3"], ["3", 3, "x"], ["null", "1"], [0, "0"]])
                vals = r.sample(pool, ri(r, 1, len(pool)))
            name = r.choice(["Color", "Kind", "E"]) + str(cid)
            # every fifth program tag: the value of each member is the NAME of the next one (UP = "DOWN", DOWN = "UP"): a member is
            # found by its value, never by a name that happens to be spelled like it.  (Decided by a hash, not by `r`: the random
            # stream of every generated program stays what it was.)
            if mixin != "int" and len(vals) >= 2 and zlib.crc32(f"{tag}:{cid}".encode()) % 5 == 0:
                vals = [f"m{(i + 1) % len(vals)}" for i in range(len(vals))]
            prog["classes"].append({"id": cid, "name": name, "qualname": name, "module": r.choice(mods), "kind": "enum",
                                    "mixin": mixin, "members": [[f"m{i}", v] for i, v in enumerate(vals)],
                                    "fields": [], "required": [], "defaults": []})
        # structured class shells (fields are filled afterwards so that they can be recursive)
        first_cls = len(prog["classes"])
        for _ in range(n_cls):
            cid = len(prog["classes"])
            kind = r.choice(cfg.flavours)
            base = r.choice(["Node", "Item", "Rec", "Node"])  # shared names across modules on purpose
            name = f"{base}{cid}" if r.random() < 0.7 else base
            module = r.choice(mods)
            if any(c["module"] == module and c["name"] == name for c in prog["classes"]):
                name = f"{base}{cid}"
            qual = f"Outer{cid}.{name}" if cfg.nested and r.random() < 0.15 else name
            opts = []
            if kind == "dataclass":
                opts = r.choice([[], [], ["frozen"], ["slots"], ["kw_only"], ["frozen", "slots"]])
            extras = []
            if kind in ("dataclass", "plain"):
                extras = r.choice([[], [], [], [], [], [], [], ["call"], ["classvar_self"], ["call", "classvar_self"]])
            if kind == "plain" and r.random() < 0.35:
                extras = [x for x in extras if x != "classvar_self"] + ["init_hints"]     # field types on __init__ only
            prog["classes"].append({"id": cid, "name": name, "qualname": qual, "module": module, "kind": kind,
                                    "opts": opts, "fields": [], "required": [], "defaults": [], "members": [], "mixin": "none",
                                    "extras": extras})
        self.struct_ids = list(range(first_cls, len(prog["classes"])))
        self.enum_ids = list(range(0, first_cls))
        for cid in self.struct_ids:
            self._fill_fields(prog["classes"][cid])
        return prog

    def _fill_fields(self, c):
        r, cfg = self.r, self.cfg
        nf = ri(r, 1, 4)
        names = r.sample(NAMES, nf)
        fields, required, defaults = [], [], []
        for fn in names:
            rec = cfg.recursion and self.struct_ids and r.random() < 0.3
            dv = False
            if rec:
                target = ["cls", r.choice(self.struct_ids)]
                edge = r.choice(["optional", "list", "dict", "vartuple", "pipe", "nonefirst"])
                if edge == "nonefirst":
                    ft, dv = ["union", [["none"], target], {"sp": r.choice(["typing", "pipe"])}], None
                elif edge == "optional":
                    ft, dv = ["union", [target, ["none"]], {"sp": "optional"}], None
                elif edge == "pipe":
                    ft, dv = ["union", [target, ["none"]], {"sp": "pipe"}], None
                elif edge == "list":
                    ft, dv = ["coll", "list", target, {"sp": self._sp("list")}], ["l", []]
                elif edge == "dict":
                    ft, dv = ["dict", ["str"], target, {"sp": "builtin"}], ["d", []]
                else:
                    ft, dv = ["coll", "vartuple", target], ["t", []]
                if c["kind"] == "namedtuple" and isinstance(dv, list) and dv[0] in ("l", "d"):
                    dv = False      # keep NamedTuple defaults immutable; the field is simply required
            else:
                ft = self.ty(cfg.max_depth - 1, in_field=True)
                if cfg.wrappers and c["kind"] == "dataclass" and r.random() < 0.1:
                    ft = ["wrap", "final", ft]       # Final is legal at the top of a field annotation only
                if r.random() < 0.25:
                    dv = self.default_for(ft)
            fields.append([fn, ft])
            if c["kind"] == "typeddict":
                if rec or r.random() < 0.8:
                    required.append(fn)
                continue
            if dv is False:
                required.append(fn)
            else:
                defaults.append([fn, dv])
        if c["kind"] == "typeddict":
            # two ways to mix required and optional keys (NotRequired is invisible under `from __future__ import annotations`):
            # a total base + total=False subclass, or a total=False base + TOTAL subclass (then __total__ is True although keys are optional)
            c["td_style"] = r.choice(["req_base", "opt_base"])
            if c["td_style"] == "req_base":
                fields = [f for f in fields if f[0] in required] + [f for f in fields if f[0] not in required]
            else:
                fields = [f for f in fields if f[0] not in required] + [f for f in fields if f[0] in required]
        elif "kw_only" not in c.get("opts", []):
            dn = {k for k, _ in defaults}
            fields = [f for f in fields if f[0] not in dn] + [f for f in fields if f[0] in dn]
        c["fields"], c["required"], c["defaults"] = fields, required, defaults

    def default_for(self, ft):
        """A default value (JSON Val) for a field type, or False if none is simple enough."""
        body = [x for x in ft if not isinstance(x, dict)]
        tag = body[0]
        if tag == "union" and any(m[0] == "none" for m in body[1]):
            return None
        if tag == "none":
            return None
        if tag == "int":
            return 0
        if tag == "str":
            return ""
        if tag == "bool":
            return False
        if tag == "coll" and body[1] == "list":
            return ["l", []]
        if tag == "coll" and body[1] == "vartuple":
            return ["t", []]
        if tag == "dict":
            return ["d", []]
        return False

    def _sp(self, kind):
        if not self.cfg.spellings:
            return "builtin"
        r = self.r
        if kind == "list":
            return r.choice(["builtin", "builtin", "typing", "abc:Sequence", "typing:Sequence", "abc:MutableSequence",
                             "abc:Collection", "abc:Iterable", "typing:Iterable", "typing:Collection"])
        if kind == "set":
            return r.choice(["builtin", "builtin", "typing", "abc:Set", "abc:MutableSet", "typing:AbstractSet"])
        if kind in ("frozenset", "deque"):
            return r.choice(["builtin", "typing"])
        if kind == "dict":
            return r.choice(["builtin", "builtin", "typing", "abc:Mapping", "typing:Mapping", "abc:MutableMapping",
                             "typing:MutableMapping"])
        return r.choice(["builtin", "typing"])

    # ------------------------------------------------------------------ types
    def scalar(self):
        return [self.r.choice(self.cfg.scalars)]

    def key_ty(self):
        r = self.r
        x = r.random()
        if x < 0.5:
            return ["str"]
        if x < 0.85 or not self.enum_ids:
            return [r.choice([s for s in KEY_SCALARS if s in self.cfg.scalars] or ["str"])]
        return ["enum", r.choice(self.enum_ids)]

    def hashable_ty(self):
        r = self.r
        if self.enum_ids and r.random() < 0.2:
            return ["enum", r.choice(self.enum_ids)]
        return [r.choice([s for s in HASHABLE_SCALARS if s in self.cfg.scalars] or ["int"])]

    def literal(self):
        r = self.r
        pool = r.choice([[1, 2, 3], ["a", "b"], [1, "a"], [True, "x"], [None, 1], ["1", 1], ["null", "x"], [0, False],
                         [1, True], [True, 1], [False, 0, "0"], [0, 1, False, True], ["True", True], [None, "None"]])
        vals = r.sample(pool, ri(r, max(1, len(pool) - 1), len(pool)))
        # typing.Literal de-duplicates by (type, value); keep the list duplicate-free
        out = []
        for v in vals:
            if not any(type(v) is type(w) and v == w for w in out):
                out.append(v)
        # "bare": spelled `Literal[...]` (imported name) rather than `typing.Literal[...]` -- the text a string-valued alias then carries
        return ["lit", out] + ([{"sp": "bare"}] if r.random() < 0.35 else [])

    def ty(self, depth, in_field=False, allow_union=True):
        r, cfg = self.r, self.cfg
        x = r.random()
        if depth <= 0 or x < 0.30:
            y = r.random()
            if y < 0.7:
                return self.scalar()
            if y < 0.8 and self.enum_ids:
                return ["enum", r.choice(self.enum_ids)]
            if y < 0.90:
                return self.literal()
            if y < 0.93:
                return ["none"]
            if cfg.any_ok and y < 0.95:
                return ["any"]
            if self.struct_ids and not in_field:
                return ["cls", r.choice(self.struct_ids)]
            return self.scalar()
        if x < 0.45:
            k = r.choice(["list", "list", "set", "frozenset", "deque", "vartuple"])
            if k in ("set", "frozenset"):
                return ["coll", k, self.hashable_ty(), {"sp": self._sp(k)}]
            return ["coll", k, self.ty(depth - 1, in_field), {"sp": self._sp(k)}]
        if x < 0.55:
            n = ri(r, 1, 3)
            return ["tuple", [self.ty(depth - 1, in_field) for _ in range(n)], {"sp": self._sp("tuple")}]
        if x < 0.67:
            return ["dict", self.key_ty(), self.ty(depth - 1, in_field), {"sp": self._sp("dict")}]
        if x < 0.80 and cfg.unions != "none" and allow_union:
            if cfg.unions == "optional" or r.random() < 0.5:
                inner = self.ty(depth - 1, in_field, allow_union=False)
                if inner[0] == "none":
                    inner = ["int"]
                if r.random() < 0.25:
                    return ["union", [["none"], inner], {"sp": r.choice(["typing", "pipe"])}]
                return ["union", [inner, ["none"]], {"sp": r.choice(["optional", "typing", "pipe"])}]
            n = ri(r, 2, 3)
            ms = []
            for _ in range(n):
                m = self.ty(depth - 1, in_field, allow_union=False)
                if not any(json.dumps(_strip(m)) == json.dumps(_strip(o)) for o in ms):
                    ms.append(m)
            if r.random() < 0.3 and not any(m[0] == "none" for m in ms):
                ms.insert(ri(r, 0, len(ms)), ["none"])
            if len(ms) < 2:
                return ms[0]
            return ["union", ms, {"sp": r.choice(["typing", "pipe"])}]
        if x < 0.90 and self.struct_ids and not in_field:
            return ["cls", r.choice(self.struct_ids)]
        if x < 0.97 and cfg.wrappers:
            return self.wrapped(depth, in_field)
        return self.scalar()

    def wrapped(self, depth, in_field):
        r = self.r
        inner = self.ty(depth - 1, in_field)
        kind = r.choice(["newtype", "alias"])
        if kind == "final":
            return ["wrap", "final", inner]
        if kind == "newtype" and inner[0] in ("union", "none", "lit", "any"):
            kind = "alias"        # NewType needs a class-like supertype
        name = f"{'NT' if kind == 'newtype' else 'AL'}{len(self.prog['aliases'])}"
        module = self.r.choice(self.mods)
        self.prog["aliases"][name] = {"name": name, "module": module, "kind": kind, "target": inner}
        return ["wrap", "newtype" if kind == "newtype" else "alias", inner, {"name": name}]

    # ------------------------------------------------------------------ values
    def value(self, ts, budget=3):
        """A valid value of exactly the annotated classes (JSON Val)."""
        r = self.r
        body = [x for x in ts if not isinstance(x, dict)]
        tag = body[0]
        if tag == "int":
            return r.choice([0, 1, -1, 7, 42, -300, 2**31, 2**63, -2**63 - 1, 10**30, ri(r, -10**6, 10**6)])
        if tag == "bool":
            return r.random() < 0.5
        if tag == "float":
            return ["f", r.choice(FLOATS)]
        if tag == "str":
            return r.choice(STRS)
        if tag == "decimal":
            return ["dec", r.choice(DECS)]
        if tag == "fraction":
            n, d = r.choice([(1, 2), (-3, 4), (5, 1), (0, 1), (22, 7), (-1, 3), (10**20 + 1, 3)])
            return ["frac", n, d]
        if tag == "uuid":
            return ["uuid", r.choice([0, 1, 2**128 - 1, r.getrandbits(128), r.getrandbits(128)])]
        if tag == "path":
            return ["path", r.choice(PATHS)]
        if tag == "pattern":
            return ["pat", r.choice(PATTERNS)]
        if tag == "date":
            return ["date", r.choice([1, MAX_ORD, 719163, 719162, ri(r, 1, MAX_ORD), ri(r, 700000, 750000)])]
        if tag == "datetime":
            return self.datetime_val()
        if tag == "time":
            us = r.choice([0, US_DAY - 1, 59999999, ri(r, 0, US_DAY - 1), ri(r, 0, 86399) * 1000000])
            return ["tm", us, self.offset()]
        if tag == "timedelta":
            return ["td", self.timedelta_us()]
        if tag == "bytes":
            return ["b", "bytes", r.choice(STRS)]
        if tag == "none":
            return None
        if tag == "any":
            return r.choice([1, "x", None, ["l", [1, "a"]]])
        if tag == "enum":
            c = self.prog["classes"][body[1]]
            return ["m", body[1], ri(r, 0, len(c["members"]) - 1)]
        if tag == "lit":
            return r.choice(body[1])
        if tag == "coll":
            k = body[1]
            n = r.choice([0, 0, 1, 2, 3]) if budget > 0 else 0
            xs = [self.value(body[2], budget - 1) for _ in range(n)]
            if k in ("set", "frozenset"):
                xs = _dedupe_py(xs)
            return [{"list": "l", "set": "s", "frozenset": "fs", "deque": "dq", "vartuple": "t"}[k], xs]
        if tag == "tuple":
            return ["t", [self.value(e, budget - 1) for e in body[1]]]
        if tag == "dict":
            n = r.choice([0, 1, 2, 3]) if budget > 0 else 0
            kvs, seen = [], []
            for _ in range(n):
                k = self.value(body[1], budget - 1)
                if any(_py_eq_key(k, s) for s in seen):
                    continue
                seen.append(k)
                kvs.append([k, self.value(body[2], budget - 1)])
            return ["d", kvs]
        if tag == "union":
            ms = body[1]
            if budget <= 0 and any(m[0] == "none" for m in ms):
                return None
            return self.value(r.choice(ms), budget - 1)
        if tag == "cls":
            c = self.prog["classes"][body[1]]
            if c["kind"] == "typeddict":
                kvs = []
                for fn, ft in c["fields"]:
                    if fn in c["required"] or r.random() < 0.5:
                        kvs.append([fn, self.value(ft, budget - 1)])
                return ["d", kvs]
            return ["o", body[1], [[fn, self.value(ft, budget - 1)] for fn, ft in c["fields"]]]
        if tag == "wrap":
            return self.value(body[2], budget)
        raise ValueError(ts)

    def offset(self):
        r = self.r
        return r.choice([0, 0, 19800, -18000, 3600, -86340, 86340, 60 * ri(r, -1439, 1439)])

    def datetime_val(self):
        r = self.r
        off = self.offset()
        lo = (1 - 719163) * US_DAY               # 0001-01-01T00:00 local
        hi = (MAX_ORD - 719163 + 1) * US_DAY - 1  # 9999-12-31T23:59:59.999999 local
        local = r.choice([lo, hi, 0, 1577934245000006, ri(r, lo, hi), ri(r, 0, 2 * 10**15), ri(r, 0, 2 * 10**9) * 1000000])
        return ["dt", local - off * 1000000, off]

    def timedelta_us(self):
        r = self.r
        return r.choice([0, 1, -1, 59999999, 7 * US_DAY, 14 * US_DAY, 400 * US_DAY + 5000000, -US_DAY,
                         US_DAY - 1, 999999999 * US_DAY, -999999999 * US_DAY, 86399999999999999999,
                         1400003 * US_DAY + 5000001, 3600000000, 90000000,
                         ri(r, -10**12, 10**12), ri(r, -999999999 * US_DAY, 999999999 * US_DAY), ri(r, -30, 30) * US_DAY])

    # ------------------------------------------------------------------ junk and corruption
    def junk(self):
        r = self.r
        x = r.random()
        if x < 0.25:
            return r.choice([None, 0, 1, -5, True, False, ["f", "1.5"], ["f", "0.0"], "", "x", "null", "1", "[1, 2]", '{"a": 1}',
                             "2020-01-02", "12:00:00", "PT1H", "1.5", "abc", '"q"', "1577836800"])
        if x < 0.40:
            s = r.choice(["[1, 2]", '{"a": 1, "b": "2"}', "null", "7", "abc", '["a", "b"]', '[["a", 1], ["b", 2]]', "1.5", "true",
                          '{"val": 1, "nxt": null}', "[]", "{}", '"7"'])
            return ["b", r.choice(["bytes", "bytearray", "mview", "mviewW"]), s]
        if x < 0.60:
            n = ri(r, 0, 3)
            return [r.choice(["l", "t", "l", "dq"]), [self.junk_flat() for _ in range(n)]]
        if x < 0.75:
            n = ri(r, 0, 3)
            ks = r.sample(NAMES + ["0", "1"], n)
            return ["d", [[k, self.junk_flat()] for k in ks]]
        if x < 0.80:
            return ["x", "opaque"]
        if x < 0.88:
            return r.choice([["date", 737426], ["dt", 1577934245000006, 19800], ["tm", 3723000004, 0], ["td", 90000000],
                             ["dec", "1.5"], ["frac", 1, 2], ["uuid", 5], ["path", "a/b"], ["pat", "abc"]])
        if x < 0.94 and self.prog["classes"]:
            cid = ri(r, 0, len(self.prog["classes"]) - 1)
            c = self.prog["classes"][cid]
            if c["kind"] == "enum":
                return ["m", cid, ri(r, 0, len(c["members"]) - 1)]
            try:
                return self.value(["cls", cid], 1)
            except Exception:
                return None
        return ["l", [["t", [self.junk_flat(), self.junk_flat()]] for _ in range(ri(r, 1, 2))]]

    def junk_flat(self):
        r = self.r
        return r.choice([None, 0, 1, 2, -1, True, ["f", "2.5"], "", "a", "ab", "1", "null", "x y", ["l", []], ["l", [1]], ["d", []],
                         ["t", [1, 2]], "2020-01-02"])

    def corrupt(self, wire):
        """Systematically corrupt a wire form: drop / rename / retype a field, add / remove an element,
        change nesting."""
        r = self.r
        if not isinstance(wire, list):
            return r.choice([["l", [wire]], None, ["d", [["v", wire]]], str(wire) if not isinstance(wire, str) else 0])
        tag = wire[0]
        if tag == "l":
            xs = list(wire[1])
            op = r.choice(["drop", "add", "nest", "retype", "deep"])
            if op == "drop" and xs:
                xs.pop(ri(r, 0, len(xs) - 1))
            elif op == "add":
                xs.insert(ri(r, 0, len(xs)), self.junk_flat())
            elif op == "nest":
                return ["l", [["l", xs]]]
            elif op == "retype":
                return ["d", [[str(i), x] for i, x in enumerate(xs)]]
            elif xs:
                i = ri(r, 0, len(xs) - 1)
                xs[i] = self.corrupt(xs[i])
            return ["l", xs]
        if tag == "d":
            kvs = [list(kv) for kv in wire[1]]
            op = r.choice(["drop", "rename", "retype", "deep", "add", "pairs"])
            if op == "drop" and kvs:
                kvs.pop(ri(r, 0, len(kvs) - 1))
            elif op == "rename" and kvs:
                i = ri(r, 0, len(kvs) - 1)
                kvs[i][0] = (kvs[i][0] + "_") if isinstance(kvs[i][0], str) else "k"
            elif op == "retype" and kvs:
                i = ri(r, 0, len(kvs) - 1)
                kvs[i][1] = self.junk_flat()
            elif op == "deep" and kvs:
                i = ri(r, 0, len(kvs) - 1)
                kvs[i][1] = self.corrupt(kvs[i][1])
            elif op == "add":
                kvs.append(["extra", self.junk_flat()])
            elif op == "pairs":
                return ["l", [["t", [k, v]] for k, v in kvs]]
            return ["d", kvs]
        if tag == "o":
            # an INSTANCE of a program class whose field holds something else (constructors of dataclasses / named tuples / plain
            # classes do not validate): still an instance of the right class, so every isinstance / exact-class shortcut sees it
            kvs = [list(kv) for kv in wire[2]]
            if kvs:
                i = ri(r, 0, len(kvs) - 1)
                kvs[i][1] = self.junk_flat() if r.random() < 0.6 else self.corrupt(kvs[i][1])
                if kvs[i][1] is None:
                    # (a synthesised plain class replaces a None argument by its mutable default: the instance would not hold None)
                    kvs[i][1] = ["x", "opaque"]
            return ["o", wire[1], kvs]
        if tag == "t":
            xs = list(wire[1])
            if xs and r.random() < 0.7:
                i = ri(r, 0, len(xs) - 1)
                xs[i] = self.junk_flat() if r.random() < 0.5 else self.corrupt(xs[i])
                return ["t", xs]
            return ["t", xs + [self.junk_flat()]]
        return r.choice([None, ["l", [wire]], 0, "x"])


def _strip(ts):
    from . import enc
    return enc.strip_hints(ts)


def _py_eq_key(a, b):
    """Would Python treat the two key specs as the same dict key?  (1 == True, equal JSON)"""
    def norm(x):
        if isinstance(x, bool):
            return int(x)
        return x
    return json.dumps(norm(a)) == json.dumps(norm(b))


def _dedupe_py(xs):
    out = []
    for x in xs:
        if not any(_py_eq_key(x, y) for y in out):
            out.append(x)
    return out


def render_json(wire):
    """json.dumps-style text of a plain wire value (JSON Val made of null/bool/int/float/str/l/d)."""
    def conv(w):
        if w is None or isinstance(w, (bool, int, str)):
            return w
        if w[0] == "f":
            return float(w[1])
        if w[0] == "l":
            return [conv(x) for x in w[1]]
        if w[0] == "d":
            return {k if isinstance(k, str) else json.dumps(conv(k)): conv(v) for k, v in w[1]}
        raise ValueError(w)
    return json.dumps(conv(wire))


def is_plain_wire(w):
    if w is None or isinstance(w, (bool, int, str)):
        return True
    if isinstance(w, list) and w and w[0] == "f":
        return True
    if isinstance(w, list) and w and w[0] == "l":
        return all(is_plain_wire(x) for x in w[1])
    if isinstance(w, list) and w and w[0] == "d":
        return all(isinstance(k, str) and is_plain_wire(v) for k, v in w[1])
    return False
