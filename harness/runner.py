"""The check protocol shared by all properties (DESIGN.md §2.2).

  1. regenerate the tables extracted from /repo's current working tree (harness/extract_tables.py)
  2. lake build the property's theorem module(s) + the driver; audit axioms and forbidden tokens
  3. correspondence + direct oracle (the property module's `explore`)
  4. if a proof obligation or the correspondence broke: search again with a 10x budget
  5. classify failing inputs (known finding / new violation), write replays and evidence

exit 0 = property held on everything explored; 1 = VIOLATION line printed; 2 = infrastructure.
"""
from __future__ import annotations

import hashlib
import importlib
import json
import os
import random
import sys
import time
import traceback

from . import lean

ROOT = lean.ROOT
KF_PATH = os.path.join(ROOT, "known_findings.json")


class Ctx:
    def __init__(self, pid, tier, seed, scale=1.0, focus=None):
        self.pid, self.tier, self.seed, self.scale, self.focus = pid, tier, seed, scale, focus or []
        self.rng = random.Random(f"{pid}:{seed}")

    def n(self, quick, thorough):
        """Number of cases for this tier, scaled."""
        base = quick if self.tier == "quick" else thorough
        return max(1, int(base * self.scale))


class Result:
    def __init__(self):
        self.evaluations = 0
        self.keys = set()          # hashes of distinct non-trivial cases
        self.samples = []
        self.failures = []         # {"what", "input", "finding"?}
        self.disagreements = []    # {"what", "input", "real", "model"}
        self.stats = {}
        self.rule = ""
        self.skipped = 0           # cases the model declared outside its fragment
        self.programs = 0
        self.extra = {}

    def count(self, key, n=1):
        self.stats[key] = self.stats.get(key, 0) + n

    def case(self, obj, nontrivial=True):
        self.evaluations += 1
        if nontrivial:
            self.keys.add(hashlib.sha1(json.dumps(obj, sort_keys=True, default=str).encode()).hexdigest()[:16])
        if len(self.samples) < 3:
            self.samples.append(_clip(obj))

    def merge(self, other):
        self.evaluations += other.evaluations
        self.keys |= other.keys
        self.failures += other.failures
        self.disagreements += other.disagreements
        self.skipped += other.skipped
        self.programs += other.programs
        for k, v in other.stats.items():
            self.stats[k] = self.stats.get(k, 0) + v
        self.extra.update(other.extra)


def _clip(o, n=600):
    s = json.dumps(o, default=str)
    return o if len(s) <= n else {"clipped": s[:n]}


def load_findings(pid):
    try:
        kf = json.load(open(KF_PATH))
    except OSError:
        return []
    return [f for f in kf.get("findings", []) if f.get("property") == pid]


def write_replay(pid, body):
    os.makedirs(os.path.join(ROOT, "replays"), exist_ok=True)
    h = hashlib.sha1(json.dumps(body, sort_keys=True, default=str).encode()).hexdigest()[:12]
    path = os.path.join(ROOT, "replays", f"{pid}-{h}.json")
    with open(path, "w") as f:
        json.dump(body, f, indent=1, default=str)
    return os.path.relpath(path, ROOT)


def write_evidence(pid, ev):
    os.makedirs(os.path.join(ROOT, "evidence"), exist_ok=True)
    with open(os.path.join(ROOT, "evidence", f"{pid}.json"), "w") as f:
        json.dump(ev, f, indent=1, default=str)


def run_check(pid, tier, seed):
    t0 = time.time()
    mod = importlib.import_module(f"harness.props.{pid.lower()}")
    out_lines = []
    first_disagreements = []
    say = lambda s: (out_lines.append(s), print(s, flush=True))
    broken = []          # descriptions of proof obligations / correspondences that no longer check
    obligations = discharged = 0
    axioms = {}
    rechecked = None

    # 1. tables
    tables_info = {}
    if getattr(mod, "TABLES", False):
        from . import extract_tables
        try:
            tables_info = extract_tables.regenerate()
        except Exception as e:  # noqa: BLE001
            traceback.print_exc()
            say(f"INFRA: table extraction failed: {type(e).__name__}: {e}")
            broken.append({"kind": "table-extraction", "msg": f"{type(e).__name__}: {e}"})

    # 2. build + audit
    modules = list(getattr(mod, "MODULES", []))
    ok, log, secs = lean.build(["driver"])
    if not ok:
        print(log[-3000:])
        say("INFRA: the Lean driver does not build")
        return 2
    thms, n_examples, by_mod = [], 0, {}
    for m in modules:
        f = m.replace(".", "/") + ".lean"
        names, nex = lean.theorems_in(f)
        by_mod[m] = names
        thms += names
        n_examples += nex
    obligations = len(thms) + n_examples
    ok, log, secs2 = lean.build(modules) if modules else (True, "", 0)
    if ok:
        discharged = obligations
        bad_tokens = lean.forbidden_tokens(_lean_files())
        if bad_tokens:
            broken.append({"kind": "forbidden-token", "hits": bad_tokens[:10]})
        for m in modules:
            rc, ax, alog = lean.audit(m, by_mod[m])
            axioms.update(ax)
            for t, axs in ax.items():
                extra = set(axs) - lean.ALLOWED_AXIOMS
                if extra:
                    broken.append({"kind": "axiom", "theorem": t, "axioms": sorted(extra)})
            missing = [t for t in by_mod[m] if t not in ax]
            if missing:
                broken.append({"kind": "audit-failed", "missing": missing[:5], "log": alog[-500:]})
        if tier == "thorough" and modules:
            okc, clog, csecs = lean.recheck(modules)
            rechecked = {"tool": "leanchecker", "modules": modules, "ok": okc, "seconds": round(csecs, 1)}
            if not okc:
                broken.append({"kind": "leanchecker", "log": clog[-800:]})
    else:
        fails = lean.failing_decls(log)
        for fl in fails[:8]:
            fl["decl"] = lean.decl_at(fl["file"], fl["line"])
        bad = {f.get("decl") for f in fails}
        discharged = max(0, obligations - max(1, len(bad)))
        broken.append({"kind": "proof-obligation", "failing": fails[:8] or [{"msg": log[-800:]}]})
        print("proof obligations no longer check:", json.dumps(fails[:8], indent=1)[:2000])

    # 3. exploration (correspondence + direct oracle)
    ctx = Ctx(pid, tier, seed)
    try:
        res = mod.explore(ctx)
    except Exception as e:  # noqa: BLE001
        traceback.print_exc()
        say(f"INFRA: exploration crashed: {type(e).__name__}: {e}")
        return 2
    if res.disagreements:
        broken.append({"kind": "correspondence", "count": len(res.disagreements),
                       "first": _clip(res.disagreements[0], 1500)})
        first_disagreements = res.disagreements[:3]

    # 4. broken obligation / correspondence: search harder for an input on which the property fails
    if broken and not [f for f in res.failures if not f.get("finding")]:
        print(f"searching for a failing input with a 10x budget ({len(broken)} broken obligations) ...")
        ctx2 = Ctx(pid, tier, seed + 7919, scale=10.0, focus=[d["input"] for d in res.disagreements[:50]])
        try:
            res2 = mod.explore(ctx2)
            res.merge(res2)
        except Exception:  # noqa: BLE001
            traceback.print_exc()

    if res.disagreements and not first_disagreements:
        first_disagreements = res.disagreements[:3]
        if not any(b.get("kind") == "correspondence" for b in broken):
            broken.append({"kind": "correspondence", "count": len(res.disagreements), "first": _clip(res.disagreements[0], 1500)})

    # 5. classify
    findings = load_findings(pid)
    fids = {f["id"]: f for f in findings}
    new_fail = [f for f in res.failures if f.get("finding") not in fids]
    known_hits = {}
    for f in res.failures:
        if f.get("finding") in fids:
            known_hits[f["finding"]] = known_hits.get(f["finding"], 0) + 1
    stale = []
    for f in findings:
        wfn = getattr(mod, "witness", None)
        still = None
        if wfn is not None:
            try:
                still = wfn(f["id"])
            except Exception:  # noqa: BLE001
                traceback.print_exc()
        if still is False:
            stale.append(f["id"])
            print(f"note: the witness of known finding {f['id']} no longer fails (stale entry)")
        say(f"KNOWN-FINDING: property={pid} {f['id']}: {f['description']}"
            + (f" [{known_hits.get(f['id'], 0)} generated cases attributed]" if f["id"] in known_hits else ""))

    rc = 0
    violations = 0
    replay = None
    if new_fail:
        f0 = new_fail[0]
        replay = write_replay(pid, {"property": pid, "kind": "failing-input", "seed": seed, "tier": tier,
                                     "failure": f0, "others": [_clip(x, 800) for x in new_fail[1:6]],
                                     "broken": broken,
                                     "replay_cmd": f"./check {pid} --replay <this file>"})
        print(f"{len(new_fail)} failing input(s); first: {json.dumps(_clip(f0, 1500), default=str)}")
        say(f"VIOLATION property={pid} replay={replay}")
        rc, violations = 1, len(new_fail)
    elif broken:
        replay = write_replay(pid, {"property": pid, "kind": "broken-obligation", "seed": seed, "tier": tier,
                                     "broken": broken, "disagreements": first_disagreements,
                                     "note": "a proof obligation or the model/code correspondence no longer checks; "
                                             "the search found no input on which the property itself fails"})
        say(f"VIOLATION property={pid} replay={replay} no-failing-input-found")
        rc, violations = 1, 1

    # evidence
    level = mod.LEVEL
    cov = {
        "evaluations": res.evaluations,
        "distinct_nontrivial": len(res.keys),
        "rule": res.rule or getattr(mod, "RULE", ""),
        "samples": res.samples[:3] or [{"note": "no generated cases"}],
        "stats": res.stats,
        "model_unsupported_cases": res.skipped,
        "obligations": obligations,
        "discharged": discharged,
        "checker_cmd": "cd lean && lake build " + " ".join(modules) + "   # then `#print axioms` per theorem (harness/lean.py audit)",
        "trusted_base": sorted({a for axs in axioms.values() for a in axs}) + list(getattr(mod, "TRUSTED", [])),
        "theorems": thms,
        "axioms_per_theorem": axioms,
        **({"independent_recheck": rechecked} if rechecked else {}),
        "traces_validated_against_impl": res.evaluations - res.skipped,
        "disagreements_checked": len(res.disagreements),
        "broken_obligations": broken,
        "known_findings_hit": known_hits,
    }
    if res.programs:
        cov["programs"] = res.programs
    if tables_info:
        cov["tables"] = tables_info
    cov.update(res.extra)
    ev = {"property_id": pid, "tier": tier, "seed": seed, "level": level, "coverage": cov,
          "assumptions": list(getattr(mod, "ASSUMPTIONS", [])), "wall_s": round(time.time() - t0, 2),
          "violations": violations}
    write_evidence(pid, ev)
    print(f"[{pid}] tier={tier} seed={seed} evaluations={res.evaluations} distinct={len(res.keys)} "
          f"skipped={res.skipped} obligations={discharged}/{obligations} disagreements={len(res.disagreements)} "
          f"failures={len(res.failures)} (new {len(new_fail)}) wall={time.time() - t0:.1f}s rc={rc}")
    return rc


def _lean_files():
    out = []
    for base, _, files in os.walk(os.path.join(lean.LEAN, "TypelibModel")):
        for f in files:
            if f.endswith(".lean"):
                out.append(os.path.relpath(os.path.join(base, f), lean.LEAN))
    out.append("Driver.lean")
    return out


def run_replay(pid, path):
    mod = importlib.import_module(f"harness.props.{pid.lower()}")
    body = json.load(open(path))
    if body.get("kind") == "broken-obligation":
        print(json.dumps(body["broken"], indent=1))
        print("replay: rebuilding the obligations …")
        ok, log, _ = lean.build(list(getattr(mod, "MODULES", [])))
        print("build ok" if ok else log[-3000:])
        return 0 if ok else 1
    fn = getattr(mod, "replay", None)
    if fn is None:
        print("no replay function for this property")
        return 2
    still = fn(body["failure"])
    print("REPRODUCED" if still else "not reproduced (the property holds on this input now)")
    return 1 if still else 0


def main(argv=None):
    import argparse
    ap = argparse.ArgumentParser()
    ap.add_argument("pid")
    ap.add_argument("--tier", default=os.environ.get("VERIF_TIER", "quick"))
    ap.add_argument("--replay")
    a = ap.parse_args(argv)
    seed = int(os.environ.get("VERIF_SEED", "0") or 0)
    pid = a.pid.upper()
    if a.replay:
        return run_replay(pid, a.replay)
    return run_check(pid, a.tier, seed)


if __name__ == "__main__":
    sys.exit(main())
