"""(1) Regenerate lean/TypelibModel/Gen/*.lean from the module objects of /repo's current working tree.
Runs in a fresh interpreter (so the tables are those of the tree as it is now); files are rewritten only
when their content changes."""
from __future__ import annotations

import json
import os
import subprocess
import sys

ROOT = os.path.dirname(os.path.dirname(os.path.abspath(__file__)))
GEN = os.path.join(ROOT, "lean", "TypelibModel", "Gen")


def regenerate():
    src = os.environ.get("TYPELIB_SRC", "/repo/src")
    p = subprocess.run([sys.executable, os.path.join(ROOT, "harness", "_extract_child.py"), src],
                       capture_output=True, text=True, timeout=300)
    if p.returncode != 0:
        raise RuntimeError("extraction child failed: " + p.stderr[-2000:])
    files = json.loads(p.stdout)
    os.makedirs(GEN, exist_ok=True)
    changed = []
    for name, content in files["lean"].items():
        path = os.path.join(GEN, name)
        old = open(path).read() if os.path.exists(path) else None
        if old != content:
            with open(path, "w") as f:
                f.write(content)
            changed.append(name)
    return {"files": sorted(files["lean"]), "changed": changed, "summary": files.get("summary", {})}


if __name__ == "__main__":
    print(json.dumps(regenerate(), indent=1))
