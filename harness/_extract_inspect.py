"""C17: the runtime's class lattice as data, and typelib's inspection tables over it.

Two uses:
  * `python harness/_extract_inspect.py <src>`  — (re)writes lean/TypelibModel/Gen/Lattice.lean (only when its
    content changes) and prints a JSON summary; run by harness/props/c17.py before the Lean build.
  * `import harness._extract_inspect as cat` — `cat.catalogue(inspection)` gives the same base objects
    (name -> object) to the harness, so that the Python side and the Lean table talk about the same things.

What is computed FROM THE PYTHON RUNTIME (never from typelib): the catalogue of base objects, `typing.get_origin`,
`issubclass(base, X)` for every ABC / base class X the predicates test against (tri-state: False / True / raises
TypeError), `str()`, `__qualname__`, `__name__`, `typing._type_repr`, `inspect.isroutine`, instantiability,
`inspect.isabstract`, MRO / attribute facts used by the structural predicates, `typing.is_typeddict`,
`dataclasses.is_dataclass`.
What is read from typelib's *imported module objects*: GENERIC_TYPE_MAP, _COLLECTIONS, _MAPPING_TYPES, _UNRESOLVABLE,
BUILTIN_TYPES, STDLIB_TYPES (membership per base, by identity / `in`).
"""
from __future__ import annotations

import collections
import collections.abc
import contextlib
import dataclasses
import datetime
import decimal
import enum
import fractions
import inspect
import ipaddress
import json
import numbers
import os
import pathlib
import re
import sqlite3
import sys
import types
import typing
import uuid

ROOT = os.path.dirname(os.path.dirname(os.path.abspath(__file__)))
OUT = os.path.join(ROOT, "lean", "TypelibModel", "Gen", "Lattice.lean")

# ----------------------------------------------------------------------------------------------- synthesised classes

_USER_SRC = '''
import abc, collections, collections.abc, dataclasses, datetime, decimal, enum, fractions, pathlib, typing, uuid

T = typing.TypeVar("T")

@dataclasses.dataclass
class DC:
    a: int
    b: str = "x"

@dataclasses.dataclass(frozen=True)
class FrozenDC:
    a: int

@dataclasses.dataclass
class DCSub(DC):
    c: float = 0.0

class NT(typing.NamedTuple):
    a: int
    b: str = "x"

NTc = collections.namedtuple("NTc", ["a", "b"])

class NTSub(NT):
    pass

class TD(typing.TypedDict):
    a: int
    b: str

class TDPartial(typing.TypedDict, total=False):
    a: int

@typing.final
class SealedCls:
    """marked with the @typing.final DECORATOR (which sets __final__): not the Final[...] qualifier"""
    a: int = 0

import typing_extensions
class TDExt(typing_extensions.TypedDict):
    """declared through the backport: a different implementation (own metaclass) on Python < 3.13"""
    a: int
    b: typing_extensions.NotRequired[str]

class Color(enum.Enum):
    red = 1
    blue = 2

class IntE(enum.IntEnum):
    one = 1

class StrE(str, enum.Enum):
    a = "x"

class Flg(enum.Flag):
    r = 1
    w = 2

class Plain:
    a: int
    def __init__(self, a: int, b: str = "x"):
        self.a = a
        self.b = b

class PlainSub(Plain):
    pass

class Slotted:
    __slots__ = ("a", "_b")
    def __init__(self, a: int = 0):
        self.a = a
        self._b = 1

class Gen(typing.Generic[T]):
    def __init__(self, x: T = None):
        self.x = x

class GenSub(Gen[int]):
    pass

class MyList(list):
    pass

class MyDict(dict):
    pass

class MySet(set):
    pass

class MyTuple(tuple):
    pass

class MyStr(str):
    pass

class MyBytes(bytes):
    pass

class MyInt(int):
    pass

class MyFloat(float):
    pass

class MyDate(datetime.date):
    pass

class MyDateTime(datetime.datetime):
    pass

class MyTime(datetime.time):
    pass

class MyTimeDelta(datetime.timedelta):
    pass

class MyDecimal(decimal.Decimal):
    pass

class MyFraction(fractions.Fraction):
    pass

class MyUUID(uuid.UUID):
    pass

class MyPath(pathlib.PurePosixPath):
    pass

class MyMapping(collections.abc.Mapping):
    def __init__(self, d=()):
        self._d = dict(d)
    def __getitem__(self, k):
        return self._d[k]
    def __iter__(self):
        return iter(self._d)
    def __len__(self):
        return len(self._d)

class MySeq(collections.abc.Sequence):
    def __init__(self, xs=()):
        self._x = list(xs)
    def __getitem__(self, i):
        return self._x[i]
    def __len__(self):
        return len(self._x)

class MyIter:
    def __init__(self, xs=()):
        self._it = iter(xs)
    def __iter__(self):
        return self
    def __next__(self):
        return next(self._it)

class AbstractUser(abc.ABC):
    @abc.abstractmethod
    def f(self): ...

class CallableCls:
    def __call__(self, x: int) -> int:
        return x

class WithProps:
    k: typing.ClassVar[int] = 3
    def __init__(self):
        self.v = 1
    @property
    def p(self) -> int:
        return 1
    def m(self):
        return 2
'''

USER_CLASSES = ["DC", "FrozenDC", "DCSub", "NT", "NTc", "NTSub", "TD", "TDPartial", "TDExt", "SealedCls", "Color", "IntE", "StrE", "Flg", "Plain",
                "PlainSub", "Slotted", "Gen", "GenSub", "MyList", "MyDict", "MySet", "MyTuple", "MyStr", "MyBytes", "MyInt",
                "MyFloat", "MyDate", "MyDateTime", "MyTime", "MyTimeDelta", "MyDecimal", "MyFraction", "MyUUID", "MyPath",
                "MyMapping", "MySeq", "MyIter", "AbstractUser", "CallableCls", "WithProps"]

_user_mod = None


def user_module():
    """The synthesised classes live in a real module `c17cat` (stable reprs, resolvable type hints)."""
    global _user_mod
    if _user_mod is None:
        m = types.ModuleType("c17cat")
        sys.modules["c17cat"] = m
        exec(compile(_USER_SRC, "<c17cat>", "exec", flags=0, dont_inherit=True), m.__dict__)
        _user_mod = m
    return _user_mod


# ----------------------------------------------------------------------------------------------- the catalogue

def _static_bases():
    um = user_module()
    out = []

    def add(name, obj):
        out.append((name, obj))

    for c in (int, bool, float, complex, str, bytes, bytearray, memoryview, list, tuple, set, frozenset, dict, range, object,
              type):
        add(c.__name__, c)
    add("NoneType", type(None))
    add("None", None)
    add("ellipsis", type(Ellipsis))
    add("Ellipsis", Ellipsis)
    add("typing.Any", typing.Any)
    add("typing.Union", typing.Union)
    add("types.UnionType", types.UnionType)
    add("typing.Optional", typing.Optional)
    add("typing.Literal", typing.Literal)
    add("typing.Final", typing.Final)
    add("typing.ClassVar", typing.ClassVar)
    add("typing.Generic", typing.Generic)
    for c in (datetime.date, datetime.datetime, datetime.time, datetime.timedelta):
        add("datetime." + c.__name__, c)
    add("decimal.Decimal", decimal.Decimal)
    add("fractions.Fraction", fractions.Fraction)
    add("uuid.UUID", uuid.UUID)
    for c in (pathlib.PurePath, pathlib.PurePosixPath, pathlib.Path, pathlib.PosixPath):
        add("pathlib." + c.__name__, c)
    add("re.Pattern", re.Pattern)
    add("re.Match", re.Match)
    add("ipaddress.IPv4Address", ipaddress.IPv4Address)
    add("ipaddress.IPv6Address", ipaddress.IPv6Address)
    for c in (collections.defaultdict, collections.deque, collections.OrderedDict, collections.Counter, collections.ChainMap):
        add("collections." + c.__name__, c)
    add("types.MappingProxyType", types.MappingProxyType)
    add("sqlite3.Row", sqlite3.Row)
    add("enum.Enum", enum.Enum)
    add("enum.IntEnum", enum.IntEnum)
    add("enum.EnumType", enum.EnumType)          # metaclasses: `origin` keeps them on typing.Callable
    add("abc.ABCMeta", __import__("abc").ABCMeta)
    add("numbers.Number", numbers.Number)
    add("numbers.Integral", numbers.Integral)
    add("numbers.Real", numbers.Real)
    add("inspect.Parameter.empty", inspect.Parameter.empty)
    add("contextlib.AbstractContextManager", contextlib.AbstractContextManager)
    add("contextlib.AbstractAsyncContextManager", contextlib.AbstractAsyncContextManager)
    for n in collections.abc.__all__:
        add("collections.abc." + n, getattr(collections.abc, n))
    for n in typing.__all__:
        o = getattr(typing, n)
        if isinstance(o, typing._SpecialGenericAlias):       # incl. typing.Callable / typing.Tuple
            add("typing." + n, o)
    for n in USER_CLASSES:
        add("user." + n, getattr(um, n))
    return out


def catalogue(inspection=None):
    """[(name, object)] — ids are list positions.  With typelib's inspection module given, every object its tables
    mention that is not yet listed is appended (named `extra.<repr>`), so the tables can always be expressed."""
    bases = _static_bases()
    if inspection is not None:
        seen = {id(o) for _, o in bases}
        extra = []
        for k, v in inspection.GENERIC_TYPE_MAP.items():
            extra += [k, v]
        extra += list(inspection._COLLECTIONS) + list(inspection._MAPPING_TYPES) + list(inspection._UNRESOLVABLE)
        extra += list(inspection.BUILTIN_TYPES) + list(inspection.STDLIB_TYPES)
        names = {n for n, _ in bases}
        for o in extra:
            if id(o) in seen:
                continue
            seen.add(id(o))
            nm = "extra." + (getattr(o, "__module__", "") or "") + "." + (getattr(o, "__qualname__", None) or repr(o))
            while nm in names:
                nm += "'"
            names.add(nm)
            bases.append((nm, o))
        bases[len(_static_bases()):] = sorted(bases[len(_static_bases()):], key=lambda p: p[0])
    return bases


# issubclass targets: (name in Lean's `Target`, second argument EXACTLY as inspection.py passes it)
def targets(inspection=None):
    t = [
        ("date", datetime.date), ("datetime", datetime.datetime), ("time", datetime.time),
        ("timedelta", datetime.timedelta), ("decimal", decimal.Decimal), ("fraction", fractions.Fraction),
        ("uuid", uuid.UUID), ("iterable", typing.Iterable), ("iterator", typing.Iterator), ("tuple", tuple),
        ("sequence", typing.Sequence), ("collection", typing.Collection), ("mapping", typing.Mapping),
        ("enum", enum.Enum), ("text", (str, bytes, bytearray, memoryview)), ("str", str),
        ("bytes", (bytes, bytearray, memoryview)), ("number", numbers.Number), ("int", int), ("float", float),
        ("pattern", re.Pattern), ("purepath", pathlib.PurePath), ("callable", collections.abc.Callable),
        ("generic", typing.Generic),
    ]
    if inspection is not None:
        t += [("mappingTypes", tuple(inspection._MAPPING_TYPES)), ("builtinSub", tuple(inspection.BUILTIN_TYPES_TUPLE)),
              ("stdlibSub", tuple(inspection.STDLIB_TYPES_TUPLE))]
        t += [("typeSub", type)]
    return t


# the ABC twin of each typing-alias target: for classes both must agree (sanity check of the table itself)
_ABC_TWIN = {"iterable": collections.abc.Iterable, "iterator": collections.abc.Iterator,
             "sequence": collections.abc.Sequence, "collection": collections.abc.Collection,
             "mapping": collections.abc.Mapping}


def tri(o, x):
    try:
        return 1 if issubclass(o, x) else 0
    except TypeError:
        return 2


def instantiable(o):
    if not isinstance(o, type) or inspect.isabstract(o):
        return False
    for a in ((), ([],), (0,), (b"",)):
        try:
            o(*a)
            return True
        except BaseException:  # noqa: BLE001
            continue
    return False


def safe(f, default=False):
    try:
        return f()
    except BaseException:  # noqa: BLE001
        return default


def std_collection(o):
    """A builtin / collections / collections.abc class that is Iterable: the objects the
    'origin() is a concrete instantiable class of that kind' clause speaks about."""
    return (isinstance(o, type) and getattr(o, "__module__", "") in ("builtins", "collections", "collections.abc")
            and tri(o, collections.abc.Iterable) == 1)


def type_repr(o):
    """The text `str(o[...])` starts with (before the '[')."""
    if isinstance(o, type):
        return typing._type_repr(o)
    return repr(o)


def facts(inspection):
    bases = catalogue(inspection)
    idx = {id(o): i for i, (_, o) in enumerate(bases)}
    tg = targets(inspection)
    rows = []
    for name, o in bases:
        og = typing.get_origin(o)
        if og is not None and id(og) not in idx:
            raise RuntimeError(f"origin of {name} ({og!r}) is not in the catalogue")
        sub = [tri(o, x) for _, x in tg]
        if isinstance(o, type):
            for tn, twin in _ABC_TWIN.items():
                k = [n for n, _ in tg].index(tn)
                if sub[k] != tri(o, twin):
                    raise RuntimeError(f"typing alias and ABC disagree on {name} for {tn}")
        is_cls = isinstance(o, type)
        mro = safe(lambda: set(inspect.getmro(o)), set()) if inspect.isclass(o) else set()
        rows.append({
            "name": name, "isClass": is_cls, "origin": idx[id(og)] if og is not None else None, "sub": sub,
            "str": str(o), "qualname": safe(lambda: getattr(o, "__qualname__", None), None),
            "nm": safe(lambda: getattr(o, "__name__", None), None), "prefix": type_repr(o),
            "routine": bool(inspect.isroutine(o)), "instantiable": instantiable(o),
            "abstract": bool(inspect.isabstract(o)), "stdColl": std_collection(o),
            "isNone": o is None or o is type(None),
            "inspectIsClass": bool(inspect.isclass(o)), "dictInMro": dict in mro, "hasTotal": hasattr(o, "__total__"),
            "hasFields": hasattr(o, "_fields"), "hasAnnotations": bool(getattr(o, "__annotations__", False)),
            "hasFromDict": hasattr(o, "from_dict"),
            "isTypedDict": bool(__import__("typing_extensions").is_typeddict(o)), "isDataclass": bool(dataclasses.is_dataclass(o)) and is_cls,
            # typelib's tables
            "inCollections": safe(lambda: o in inspection._COLLECTIONS),
            "builtin": safe(lambda: o in inspection.BUILTIN_TYPES),
            "builtinTy": safe(lambda: type(o) in inspection.BUILTIN_TYPES),
            "stdlib": safe(lambda: o in inspection.STDLIB_TYPES),
            "stdlibTy": safe(lambda: type(o) in inspection.STDLIB_TYPES),
            "unresolvable": safe(lambda: o in inspection._UNRESOLVABLE),
        })
        for k in ("qualname", "nm"):
            if rows[-1][k] is not None and not isinstance(rows[-1][k], str):
                rows[-1][k] = None
    gtm = []
    for k, v in inspection.GENERIC_TYPE_MAP.items():
        gtm.append((idx[id(k)], idx[id(v)], tri(v, k) == 1))
    gtm.sort()          # a dict: the order of its entries carries no meaning
    special = {}
    for key, obj in (("tupleId", tuple), ("unionId", typing.Union), ("unionTypeId", types.UnionType),
                     ("optionalId", typing.Optional), ("literalId", typing.Literal), ("finalId", typing.Final),
                     ("classVarId", typing.ClassVar), ("callableId", typing.Callable),
                     ("abcCallableId", collections.abc.Callable), ("anyId", typing.Any),
                     ("noneId", None), ("noneTypeId", type(None)), ("ellipsisId", Ellipsis)):
        special[key] = idx[id(obj)]
    return {"rows": rows, "gtm": gtm, "special": special, "targets": [n for n, _ in tg]}


# ----------------------------------------------------------------------------------------------- Lean rendering

def lstr(s):
    """A Lean string literal."""
    out = ['"']
    for ch in s:
        if ch == "\\":
            out.append("\\\\")
        elif ch == '"':
            out.append('\\"')
        elif ch == "\n":
            out.append("\\n")
        elif 32 <= ord(ch) < 127:
            out.append(ch)
        else:
            out.append("\\u{%x}" % ord(ch))
    out.append('"')
    return "".join(out)


def lchars(s):
    """A Lean `List Char` literal (core String functions are very slow in the kernel: ~0.4 s per `"...".toList`)."""
    def one(ch):
        if ch == "'":
            return "'\\''"
        if ch == "\\":
            return "'\\\\'"
        if 32 <= ord(ch) < 127:
            return f"'{ch}'"
        return "'\\u{%x}'" % ord(ch)
    return "[" + ", ".join(one(c) for c in s) + "]"


def lbool(b):
    return "true" if b else "false"


def lopt_nat(x):
    return "none" if x is None else f"(some {x})"


def lopt_str(x):
    return "none" if x is None else f"(some {lchars(x)})"


FLAGS = ["isClass", "routine", "instantiable", "abstract", "stdColl", "isNone", "inspectIsClass", "dictInMro", "hasTotal",
         "hasFields", "hasAnnotations", "hasFromDict", "isTypedDict", "isDataclass", "inCollections", "builtin", "builtinTy",
         "stdlib", "stdlibTy", "unresolvable"]


LEAN_FIELD = {"abstract": "isAbstract"}      # `abstract` is a Lean keyword


def render(f):
    lines = [
        "/- GENERATED by harness/_extract_inspect.py.  Do not edit.",
        "   rows: the catalogue of base objects with facts computed from the PYTHON RUNTIME (typing.get_origin, issubclass",
        "   against each target as a tri-state 0 = False / 1 = True / 2 = raises TypeError, str(), __qualname__, __name__,",
        "   instantiability, ...) and membership in typelib's imported tables (_COLLECTIONS, BUILTIN_TYPES, STDLIB_TYPES,",
        "   _UNRESOLVABLE).  gtm: the live GENERIC_TYPE_MAP as (key id, value id, issubclass(value, key)).",
        "   Targets, in column order: " + ", ".join(f["targets"]) + " -/",
        "import TypelibModel.Model.Inspect",
        "namespace Typelib.Gen",
        "open Typelib.Inspect",
        "",
        "def latticeRows : List Row := [",
    ]
    rl = []
    for i, r in enumerate(f["rows"]):
        fl = ", ".join(f"{LEAN_FIELD.get(k, k)} := {lbool(r[k])}" for k in FLAGS)
        rl.append(
            f"  -- {i}\n"
            f"  {{ name := {lstr(r['name'])}, origin := {lopt_nat(r['origin'])}, sub := [{', '.join(str(x) for x in r['sub'])}],\n"
            f"    str := {lchars(r['str'])}, qualname := {lopt_str(r['qualname'])}, nm := {lopt_str(r['nm'])}, "
            f"pfx := {lchars(r['prefix'])},\n"
            f"    {fl} }}")
    lines.append(",\n".join(rl) + "]")
    lines.append("")
    lines.append("def latticeGtm : List (Nat × Nat × Bool) := [" +
                 ", ".join(f"({k}, {v}, {lbool(b)})" for k, v, b in f["gtm"]) + "]")
    lines.append("")
    sp = f["special"]
    lines.append("def lattice : Lattice :=\n  { rows := latticeRows, gtm := latticeGtm,\n    " +
                 ", ".join(f"{k} := {v}" for k, v in sp.items()) + " }")
    lines.append("")
    lines.append("/- Row ids by name (for witnesses and examples). -/")
    lines.append("namespace Id")
    used = set()
    for i, r in enumerate(f["rows"]):
        ident = "i_" + "".join(ch if (ch.isalnum() and ch.isascii()) else "_" for ch in r["name"])
        while ident in used:
            ident += "_"
        used.add(ident)
        lines.append(f"def {ident} : Nat := {i}")
    lines.append("end Id")
    lines.append("")
    lines.append("end Typelib.Gen")
    return "\n".join(lines) + "\n"


def regenerate(src):
    """Import typelib from `src`, compute the facts, rewrite Gen/Lattice.lean if its content changed."""
    import warnings
    if src not in sys.path:
        sys.path.insert(0, src)
    warnings.simplefilter("ignore")
    from typelib.py import inspection
    f = facts(inspection)
    text = render(f)
    old = open(OUT).read() if os.path.exists(OUT) else None
    changed = old != text
    if changed:
        os.makedirs(os.path.dirname(OUT), exist_ok=True)
        tmp = OUT + ".tmp%d" % os.getpid()
        with open(tmp, "w") as fh:
            fh.write(text)
        os.replace(tmp, OUT)
    return {"file": os.path.relpath(OUT, ROOT), "changed": changed, "bases": len(f["rows"]), "gtm": len(f["gtm"]),
            "targets": f["targets"], "typelib": os.path.dirname(os.path.dirname(inspection.__file__))}


if __name__ == "__main__":
    print(json.dumps(regenerate(sys.argv[1] if len(sys.argv) > 1 else os.environ.get("TYPELIB_SRC", "/repo/src"))))
