"""Developer aid: re-run one op of a dumped job on the real library with a traceback.
usage: python -m harness.debug_core job.json opindex"""
import json, sys, traceback, warnings
sys.path.insert(0, "/repo/src")
warnings.simplefilter("ignore")
from harness import enc
import typelib
job = json.load(open(sys.argv[1])); oi = int(sys.argv[2])
P = enc.Program(job["prog"]); op = job["ops"][oi]
for m, src in enc.module_sources(job["prog"]).items():
    print("#", m); print("\n".join(l for l in src.split("\n") if l.strip() and not l.startswith("import") and not l.startswith("from")))
for a in job["prog"]["aliases"].values(): print(enc.alias_source(a, job["prog"]))
ann = P.annotation(op["ty"]); print("ANN", ann)
v = enc.to_py(op["val"], P); print("VAL", repr(v)[:500])
try:
    if op["op"] in ("um", "umum"): print("->", repr(typelib.unmarshal(ann, v))[:800])
    else:
        m = typelib.marshal(v, t=ann); print("mar ->", repr(m)[:800]); print("um ->", repr(typelib.unmarshal(ann, m))[:800])
except Exception: traceback.print_exc(limit=-6)
