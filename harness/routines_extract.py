"""Structural extraction (DESIGN.md §1 item 3): serialise the routine objects the REAL library built.

A node is the routine's class name and its public attributes, nothing interpreted:

    {"c": class name, "t": Ty JSON of `.t` (erased) or None, "tr": repr(.t), "o": name of `.origin`,
     "values": node | [Val JSON …], "keys": node, "rs": [node …] (`.ordered_routines`), "nullable": bool,
     "fields": [[name, node] …] (`.fields_by_var`, dict order), "required": [name …]}

The Lean decoder (lean/TypelibModel/Drv/Routine.lean) maps (class, attributes) to the `Routine`
constructor whose semantics is that class's `__call__`; the proved validator then decides the tree.
For a `Delayed*` proxy the node records the Ty of `refs.evaluate(node.t)` — the annotation it ACTUALLY
resolves to — so the validator needs no model of name resolution; the proxy is never descended into
(after its first call it carries copies of the resolved routine's attributes).

`ann_to_ty(annotation, P)` is the inverse of `enc.pyexpr`: real annotation object → Ty JSON with the
class ids of `P.cid`; NewType / TypeAliasType / Final / ClassVar unwrap to their target, i.e. the
result is the ERASED Ty.  Annotations outside the universe U give None.
"""
from __future__ import annotations

import collections
import collections.abc
import datetime
import decimal
import fractions
import pathlib
import re
import types
import typing
import uuid

SCALARS = {
    int: "int", bool: "bool", float: "float", str: "str", decimal.Decimal: "decimal",
    fractions.Fraction: "fraction", uuid.UUID: "uuid", pathlib.PurePosixPath: "path", re.Pattern: "pattern",
    datetime.date: "date", datetime.datetime: "datetime", datetime.time: "time",
    datetime.timedelta: "timedelta", bytes: "bytes",
}
COLL_ORIGINS = {
    list: "list", collections.abc.Sequence: "list", collections.abc.MutableSequence: "list",
    collections.abc.Collection: "list", collections.abc.Iterable: "list",
    set: "set", collections.abc.Set: "set", collections.abc.MutableSet: "set",
    frozenset: "frozenset", collections.deque: "deque",
}
DICT_ORIGINS = (dict, collections.abc.Mapping, collections.abc.MutableMapping)
ORIGIN_TAGS = {list: "list", set: "set", frozenset: "frozenset", collections.deque: "deque", tuple: "tuple", dict: "dict"}


class Unrepresentable(Exception):
    pass


def _lit_val(v):
    if v is None or type(v) in (bool, int, str):
        return v
    raise Unrepresentable(f"literal value {v!r}")


def _ann(a, P, depth):
    if depth > 80:
        raise Unrepresentable("annotation too deep")
    if a is None or a is type(None):
        return ["none"]
    if a is typing.Any:
        return ["any"]
    if isinstance(a, typing.ForwardRef):
        from typelib.py import refs
        return _ann(refs.evaluate(a), P, depth + 1)
    if isinstance(a, str):
        raise Unrepresentable(f"string annotation {a!r}")
    if isinstance(a, type) and not isinstance(a, types.GenericAlias):
        if a in P.cid:
            i = P.cid[a]
            return ["enum" if P.spec["classes"][i]["kind"] == "enum" else "cls", i]
        if a in SCALARS:
            return [SCALARS[a]]
        raise Unrepresentable(f"class {a.__module__}.{a.__qualname__}")
    if hasattr(a, "__supertype__"):                       # NewType
        return _ann(a.__supertype__, P, depth + 1)
    if isinstance(a, typing.TypeAliasType):
        return _ann(a.__value__, P, depth + 1)
    origin = typing.get_origin(a)
    args = typing.get_args(a)
    if origin in (typing.Final, typing.ClassVar):
        return _ann(args[0], P, depth + 1)
    if origin is typing.Literal:
        return ["lit", [_lit_val(v) for v in args]]
    if origin is typing.Union or origin is types.UnionType:
        return ["union", [_ann(m, P, depth + 1) for m in args]]
    if origin is tuple:
        if len(args) == 2 and args[1] is Ellipsis:
            return ["coll", "vartuple", _ann(args[0], P, depth + 1)]
        if args == ((),) or not args:
            raise Unrepresentable("empty tuple")
        return ["tuple", [_ann(e, P, depth + 1) for e in args]]
    if origin in COLL_ORIGINS and len(args) == 1:
        return ["coll", COLL_ORIGINS[origin], _ann(args[0], P, depth + 1)]
    if origin in DICT_ORIGINS and len(args) == 2:
        return ["dict", _ann(args[0], P, depth + 1), _ann(args[1], P, depth + 1)]
    raise Unrepresentable(repr(a)[:80])


def ann_to_ty(a, P):
    """Erased Ty JSON of a real annotation object; None when it lies outside U."""
    try:
        return _ann(a, P, 0)
    except Unrepresentable:
        return None
    except Exception:  # noqa: BLE001 - an unresolvable reference is simply unrepresentable
        return None


def _origin_tag(o):
    if o in ORIGIN_TAGS:
        return ORIGIN_TAGS[o]
    return getattr(o, "__qualname__", None) or repr(o)[:60]


def _is_routine(x):
    return callable(x) and hasattr(x, "t") and hasattr(x, "origin") and hasattr(x, "context")


def extract(r, P, targets=None, depth=0):
    """Routine object → node.  `targets` (a list) collects the `.t` of every Delayed proxy met."""
    if depth > 60:
        raise RuntimeError("routine graph deeper than 60 (cycle through non-delayed routines?)")
    cls = type(r).__name__
    node = {"c": cls, "tr": repr(r.t)[:100]}
    if cls.startswith("Delayed"):
        from typelib.py import refs
        try:
            resolved = refs.evaluate(r.t)
            node["t"] = ann_to_ty(resolved, P)
            node["tr"] = f"{r.t!r} = {resolved!r}"[:160]
        except Exception as e:  # noqa: BLE001
            node["t"] = None
            node["tr"] = f"{r.t!r} !! {type(e).__name__}: {e}"[:160]
        if targets is not None:
            targets.append(r.t)
        return node
    node["t"] = ann_to_ty(r.t, P)
    node["o"] = _origin_tag(r.origin)
    if hasattr(r, "ordered_routines"):
        node["rs"] = [extract(x, P, targets, depth + 1) for x in r.ordered_routines]
    if hasattr(r, "nullable"):
        node["nullable"] = bool(r.nullable)
    if hasattr(r, "values"):
        v = r.values
        if _is_routine(v):
            node["values"] = extract(v, P, targets, depth + 1)
        else:
            try:
                node["values"] = [_lit_val(x) for x in v]
            except (Unrepresentable, TypeError):
                node["values"] = [["x", repr(v)[:60]]]
    if hasattr(r, "keys") and _is_routine(r.keys):
        node["keys"] = extract(r.keys, P, targets, depth + 1)
    if hasattr(r, "fields_by_var"):
        node["fields"] = [[k, extract(x, P, targets, depth + 1)] for k, x in r.fields_by_var.items()]
    if hasattr(r, "required"):
        node["required"] = sorted(r.required)
    return node


def extract_graph(build, root_ann, P, limit=40):
    """The routine graph of a root annotation: [[Ty, node] …], root first, closed under the targets of
    Delayed proxies (each resolved exactly as the proxy does: `build(proxy.t)`).
    `build` is `typelib.unmarshaller` or `typelib.marshaller`."""
    from typelib.py import refs
    targets = []
    graph = [[ann_to_ty(root_ann, P), extract(build(root_ann), P, targets)]]
    seen = {_key(graph[0][0])}
    i = 0
    while i < len(targets):
        ref = targets[i]
        i += 1
        try:
            ty = ann_to_ty(refs.evaluate(ref), P)
        except Exception:  # noqa: BLE001
            ty = None
        if ty is None or _key(ty) in seen:
            continue
        if len(graph) >= limit:
            raise RuntimeError("routine graph has more than %d delayed targets" % limit)
        seen.add(_key(ty))
        graph.append([ty, extract(build(ref), P, targets)])
    return graph


def _key(ty):
    import json
    return json.dumps(ty)


def size(node):
    n = 1
    for k in ("values", "keys"):
        if isinstance(node.get(k), dict):
            n += size(node[k])
    for x in node.get("rs", []):
        n += size(x)
    for _, x in node.get("fields", []):
        n += size(x)
    return n


def count(node, pred):
    n = 1 if pred(node) else 0
    for k in ("values", "keys"):
        if isinstance(node.get(k), dict):
            n += count(node[k], pred)
    for x in node.get("rs", []):
        n += count(x, pred)
    for _, x in node.get("fields", []):
        n += count(x, pred)
    return n
