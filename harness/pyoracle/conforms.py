"""Independent structural conformance checker (C03): does a Python value conform to an annotation?
Written against `typing` / `dataclasses` only — it never imports typelib — so that it can judge whatever
the real `unmarshal` returns.  Readings fixed by DESIGN.md §3 "Conformance": a scalar position conforms
when `isinstance` holds, except where the routine promises the exact class (temporals, containers);
Literal / Enum results are declared members under `==`."""
from __future__ import annotations

import collections
import collections.abc
import dataclasses
import datetime
import decimal
import enum
import fractions
import pathlib
import re
import types
import typing
import uuid

ABSTRACT_TO_CONCRETE = {
    collections.abc.Sequence: list, collections.abc.MutableSequence: list, collections.abc.Collection: list,
    collections.abc.Iterable: list, collections.abc.Set: set, collections.abc.MutableSet: set,
    collections.abc.Mapping: dict, collections.abc.MutableMapping: dict,
}
EXACT = (datetime.date, datetime.datetime, datetime.time, datetime.timedelta)


def unwrap(t):
    while True:
        if isinstance(t, typing.TypeAliasType):
            t = t.__value__
            continue
        if hasattr(t, "__supertype__"):
            t = t.__supertype__
            continue
        if typing.get_origin(t) in (typing.Final, typing.ClassVar):
            t = typing.get_args(t)[0]
            continue
        return t


def conforms(t, v, why=None, depth=0):
    """True iff v conforms to annotation t; appends a reason to `why` when not."""
    why = why if why is not None else []
    if depth > 400:
        return True
    t = unwrap(t)
    if isinstance(t, (str, typing.ForwardRef)):
        why.append(f"unresolved reference {t!r}")
        return False
    if t is typing.Any or t is object:
        return True
    if t is None or t is type(None):
        return _chk(v is None, why, f"{v!r} is not None")
    origin = typing.get_origin(t)
    args = typing.get_args(t)
    if origin is typing.Literal:
        return _chk(any(v == a for a in args), why, f"{v!r} not a member of {t}")
    if origin in (typing.Union, types.UnionType):
        return _chk(any(conforms(a, v, [], depth + 1) for a in args), why, f"{v!r} conforms to no member of {t}")
    if origin is None:
        if isinstance(t, type) and issubclass(t, enum.Enum):
            return _chk(isinstance(v, t), why, f"{v!r} is not a member of {t.__name__}")
        if isinstance(t, type) and typing.is_typeddict(t):
            return _typeddict(t, v, why, depth)
        if isinstance(t, type) and issubclass(t, tuple) and hasattr(t, "_fields"):
            if not _chk(type(v) is t, why, f"{type(v).__name__} is not {t.__name__}"):
                return False
            hints = typing.get_type_hints(t)
            return all(conforms(hints[f], getattr(v, f), why, depth + 1) for f in t._fields if f in hints)
        if isinstance(t, type) and (dataclasses.is_dataclass(t) or _has_hints(t)) and t.__module__ not in ("builtins", "datetime", "decimal", "fractions", "uuid", "pathlib", "re"):
            if not _chk(type(v) is t, why, f"{type(v).__name__} is not {t.__name__}"):
                return False
            hints = typing.get_type_hints(t)
            for f, ft in hints.items():
                if typing.get_origin(ft) is typing.ClassVar:
                    continue
                if not hasattr(v, f):
                    why.append(f"field {f} missing")
                    return False
                if not conforms(ft, getattr(v, f), why, depth + 1):
                    why.append(f"in field {f}")
                    return False
            return True
        if t in EXACT:
            if t is datetime.date:
                return _chk(type(v) is datetime.date, why, f"{type(v).__name__} is not exactly date")
            return _chk(type(v) is t, why, f"{type(v).__name__} is not exactly {t.__name__}")
        if t is re.Pattern:
            return _chk(isinstance(v, re.Pattern), why, f"{v!r} is not a Pattern")
        if isinstance(t, type):
            if t is float:
                return _chk(isinstance(v, float), why, f"{v!r} is not a float")
            return _chk(isinstance(v, t), why, f"{v!r} ({type(v).__name__}) is not an instance of {t.__name__}")
        why.append(f"unsupported annotation {t!r}")
        return False
    # subscripted generics
    if origin is tuple:
        if len(args) == 2 and args[1] is Ellipsis:
            return _chk(type(v) is tuple, why, f"{type(v).__name__} is not tuple") and all(conforms(args[0], x, why, depth + 1) for x in v)
        if args == ((),) or args == ():
            return _chk(v == (), why, "not the empty tuple")
        return (_chk(type(v) is tuple, why, f"{type(v).__name__} is not tuple")
                and _chk(len(v) == len(args), why, f"arity {len(v)} != {len(args)}")
                and all(conforms(a, x, why, depth + 1) for a, x in zip(args, v)))
    concrete = ABSTRACT_TO_CONCRETE.get(origin, origin)
    if concrete in (list, set, frozenset, collections.deque):
        return _chk(type(v) is concrete, why, f"{type(v).__name__} is not {concrete.__name__}") and \
            all(conforms(args[0], x, why, depth + 1) for x in v)
    if concrete in (dict, collections.OrderedDict, collections.defaultdict):
        return _chk(type(v) is concrete, why, f"{type(v).__name__} is not {concrete.__name__}") and \
            all(conforms(args[0], k, why, depth + 1) and conforms(args[1], x, why, depth + 1) for k, x in v.items())
    why.append(f"unsupported generic {t!r}")
    return False


def _has_hints(t):
    try:
        return bool(typing.get_type_hints(t))
    except Exception:  # noqa: BLE001
        return False


def _typeddict(t, v, why, depth):
    if not _chk(type(v) is dict, why, f"{type(v).__name__} is not dict"):
        return False
    hints = typing.get_type_hints(t)
    missing = [k for k in t.__required_keys__ if k not in v]
    if missing:
        why.append(f"required keys missing: {missing}")
        return False
    for k, x in v.items():
        if k not in hints:
            why.append(f"unknown key {k!r}")
            return False
        ft = hints[k]
        if typing.get_origin(ft) in (typing.Required, typing.NotRequired):
            ft = typing.get_args(ft)[0]
        if not conforms(ft, x, why, depth + 1):
            why.append(f"in key {k}")
            return False
    return True


def _chk(ok, why, msg):
    if not ok:
        why.append(msg)
    return ok
