"""Encoding between Python objects and the JSON form of the Lean model's `Val` / `Ty` / `Env`
(mirror of lean/TypelibModel/Drv/Codec.lean), and materialisation of generated *programs*
(class environments as real modules) inside a child process.

A program spec is plain data (see universe.py):
  {"classes": [cls...], "aliases": {...}}   cls = {"id", "name", "module", "kind", ...}
Type specs are the Lean `Ty` JSON with an optional trailing dict of spelling hints.
"""
from __future__ import annotations

import collections
import dataclasses
import datetime
import decimal
import enum
import fractions
import json
import pathlib
import re
import sys
import types
import typing
import uuid

EPOCH_ORD = 719163
UTC = datetime.timezone.utc

# --------------------------------------------------------------------------- type specs


def strip_hints(ts):
    """Type spec -> Lean Ty JSON (drop spelling hints)."""
    ts = [x for x in ts if not isinstance(x, dict)]
    tag = ts[0]
    if tag == "coll":
        return ["coll", ts[1], strip_hints(ts[2])]
    if tag == "tuple":
        return ["tuple", [strip_hints(e) for e in ts[1]]]
    if tag == "dict":
        return ["dict", strip_hints(ts[1]), strip_hints(ts[2])]
    if tag == "union":
        return ["union", [strip_hints(e) for e in ts[1]]]
    if tag == "wrap":
        return ["wrap", ts[1], strip_hints(ts[2])]
    return ts


def hints(ts):
    for x in ts:
        if isinstance(x, dict):
            return x
    return {}


SCALAR_EXPR = {
    "int": "int", "bool": "bool", "float": "float", "str": "str", "decimal": "decimal.Decimal",
    "fraction": "fractions.Fraction", "uuid": "uuid.UUID", "path": "pathlib.PurePosixPath",
    "pattern": "re.Pattern", "date": "datetime.date", "datetime": "datetime.datetime",
    "time": "datetime.time", "timedelta": "datetime.timedelta", "bytes": "bytes",
}
COLL_EXPR = {
    ("list", "builtin"): "list", ("list", "typing"): "typing.List",
    ("list", "abc:Sequence"): "collections.abc.Sequence", ("list", "typing:Sequence"): "typing.Sequence",
    ("list", "abc:MutableSequence"): "collections.abc.MutableSequence",
    ("list", "abc:Collection"): "collections.abc.Collection", ("list", "abc:Iterable"): "collections.abc.Iterable",
    ("list", "typing:Iterable"): "typing.Iterable", ("list", "typing:Collection"): "typing.Collection",
    ("set", "builtin"): "set", ("set", "typing"): "typing.Set", ("set", "abc:Set"): "collections.abc.Set",
    ("set", "abc:MutableSet"): "collections.abc.MutableSet", ("set", "typing:AbstractSet"): "typing.AbstractSet",
    ("frozenset", "builtin"): "frozenset", ("frozenset", "typing"): "typing.FrozenSet",
    ("deque", "builtin"): "collections.deque", ("deque", "typing"): "typing.Deque",
}
DICT_EXPR = {
    "builtin": "dict", "typing": "typing.Dict", "abc:Mapping": "collections.abc.Mapping",
    "typing:Mapping": "typing.Mapping", "abc:MutableMapping": "collections.abc.MutableMapping",
    "typing:MutableMapping": "typing.MutableMapping",
}


def lit_expr(v):
    return repr(v)


def pyexpr(ts, prog, here=None):
    """Python source of the annotation (evaluated in a namespace that imports every module)."""
    h = hints(ts)
    body = [x for x in ts if not isinstance(x, dict)]
    tag = body[0]
    if tag in SCALAR_EXPR:
        return SCALAR_EXPR[tag]
    if tag == "none":
        return "None"
    if tag == "any":
        return "typing.Any"
    if tag in ("enum", "cls"):
        c = prog["classes"][body[1]]
        return c["qualname"] if here is not None and c["module"] == here else f'{c["module"]}.{c["qualname"]}'
    if tag == "lit":
        return ("Literal[" if h.get("sp") == "bare" else "typing.Literal[") + ", ".join(lit_expr(v) for v in body[1]) + "]"
    if tag == "coll":
        inner = pyexpr(body[2], prog, here)
        if body[1] == "vartuple":
            return ("typing.Tuple" if h.get("sp") == "typing" else "tuple") + f"[{inner}, ...]"
        return COLL_EXPR[(body[1], h.get("sp", "builtin"))] + f"[{inner}]"
    if tag == "tuple":
        return ("typing.Tuple" if h.get("sp") == "typing" else "tuple") + "[" + ", ".join(pyexpr(e, prog, here) for e in body[1]) + "]"
    if tag == "dict":
        return DICT_EXPR[h.get("sp", "builtin")] + f"[{pyexpr(body[1], prog, here)}, {pyexpr(body[2], prog, here)}]"
    if tag == "union":
        ms = [pyexpr(e, prog, here) for e in body[1]]
        sp = h.get("sp", "typing")
        if sp == "pipe":
            return "(" + " | ".join(ms) + ")"
        if sp == "optional" and len(ms) == 2 and ms[1] == "None":
            return f"typing.Optional[{ms[0]}]"
        return "typing.Union[" + ", ".join(ms) + "]"
    if tag == "wrap":
        w = body[1]
        if w == "final":
            return f"typing.Final[{pyexpr(body[2], prog, here)}]"
        if w == "classvar":
            return f"typing.ClassVar[{pyexpr(body[2], prog, here)}]"
        a = prog["aliases"][h["name"]]
        return a["name"] if here is not None and a["module"] == here else f'{a["module"]}.{a["name"]}'
    raise ValueError(ts)


# --------------------------------------------------------------------------- programs

PRELUDE = """from __future__ import annotations
import collections, collections.abc, dataclasses, datetime, decimal, enum, fractions, pathlib, re, typing, uuid
from typing import Literal
"""


def module_sources(prog):
    """module name -> source text of the class definitions (aliases are executed afterwards, in
    creation order, because NewType / TypeAliasType evaluate their target eagerly)."""
    mods = {}
    order = {}
    for c in prog["classes"]:
        order.setdefault(c["module"], [])
    for a in prog.get("aliases", {}).values():
        order.setdefault(a["module"], [])
    names = sorted(order)
    for m in names:
        mods[m] = [PRELUDE] + [f"import {o}" for o in names if o != m]
    for c in prog["classes"]:
        mods[c["module"]].append(class_source(c, prog))
    return {m: "\n".join(parts) + "\n" for m, parts in mods.items()}


def alias_source(a, prog):
    inner = pyexpr(a["target"], prog, a["module"])
    if a["kind"] == "newtype":
        return f'{a["name"]} = typing.NewType("{a["name"]}", {inner})'
    if a["kind"] == "alias":
        return f'{a["name"]} = typing.TypeAliasType("{a["name"]}", {inner})'
    if a["kind"] == "aliasstr":
        return f'{a["name"]} = typing.TypeAliasType("{a["name"]}", {inner!r})'
    raise ValueError(a)


def default_src(d, prog):
    return "dataclasses.field(default_factory=lambda: " + val_src(d) + ")"


def val_src(vj):
    """Python source of a default value (primitives and empty containers only)."""
    if vj is None or isinstance(vj, (bool, int, str)):
        return repr(vj)
    if vj[0] == "l":
        return "[" + ", ".join(val_src(x) for x in vj[1]) + "]"
    if vj[0] == "d":
        return "{" + ", ".join(f"{val_src(k)}: {val_src(v)}" for k, v in vj[1]) + "}"
    if vj[0] == "t":
        return "(" + "".join(val_src(x) + ", " for x in vj[1]) + ")"
    if vj[0] == "f":
        return vj[1]
    raise ValueError(vj)


def class_source(c, prog):
    ind = "    " * c.get("nest", 0)
    lines = []
    q = c["qualname"].split(".")
    # nested classes: emit enclosing shells `class Outer:` (once per program is enough for our use)
    for depth, outer in enumerate(q[:-1]):
        lines.append("    " * depth + f"class {outer}:")
    ind = "    " * (len(q) - 1)
    name = q[-1]
    kind = c["kind"]
    here = c["module"]
    if kind == "enum":
        base = {"none": "enum.Enum", "int": "enum.IntEnum", "str": "str, enum.Enum"}[c["mixin"]]
        lines.append(f"{ind}class {name}({base}):")
        for mn, mv in c["members"]:
            lines.append(f"{ind}    {mn} = {mv!r}")
        return "\n".join(lines)
    fields = c["fields"]
    defaults = dict((k, v) for k, v in c.get("defaults", []))
    ann = lambda t: pyexpr(t, prog, here)
    if kind == "dataclass":
        opts = ", ".join(f"{k}=True" for k in c.get("opts", []))
        lines.append(f"{ind}@dataclasses.dataclass({opts})")
        lines.append(f"{ind}class {name}:")
        for fn, ft in fields:
            if fn in defaults:
                d = defaults[fn]
                rhs = val_src(d) if (d is None or isinstance(d, (bool, int, str))) else default_src(d, prog)
                lines.append(f"{ind}    {fn}: {ann(ft)} = {rhs}")
            else:
                lines.append(f"{ind}    {fn}: {ann(ft)}")
        if not fields:
            lines.append(f"{ind}    pass")
    elif kind == "namedtuple":
        lines.append(f"{ind}class {name}(typing.NamedTuple):")
        for fn, ft in fields:
            if fn in defaults:
                lines.append(f"{ind}    {fn}: {ann(ft)} = {val_src(defaults[fn])}")
            else:
                lines.append(f"{ind}    {fn}: {ann(ft)}")
    elif kind == "typeddict":
        # NotRequired[...] inside a string annotation is invisible to TypedDict: split into a total
        # base with the required keys and a total=False subclass with the optional ones.
        req = [f for f in fields if f[0] in set(c["required"])]
        opt = [f for f in fields if f[0] not in set(c["required"])]
        if opt and c.get("td_style") == "opt_base":
            lines.append(f"{ind}class _{name}Opt(typing.TypedDict, total=False):")
            for fn, ft in opt:
                lines.append(f"{ind}    {fn}: {ann(ft)}")
            lines.append(f"{ind}class {name}(_{name}Opt):")
            for fn, ft in req:
                lines.append(f"{ind}    {fn}: {ann(ft)}")
            if not req:
                lines.append(f"{ind}    pass")
        elif opt:
            lines.append(f"{ind}class _{name}Req(typing.TypedDict):")
            for fn, ft in req:
                lines.append(f"{ind}    {fn}: {ann(ft)}")
            if not req:
                lines.append(f"{ind}    pass")
            lines.append(f"{ind}class {name}(_{name}Req, total=False):")
            for fn, ft in opt:
                lines.append(f"{ind}    {fn}: {ann(ft)}")
        else:
            lines.append(f"{ind}class {name}(typing.TypedDict):")
            for fn, ft in req:
                lines.append(f"{ind}    {fn}: {ann(ft)}")
            if not req:
                lines.append(f"{ind}    pass")
    elif kind in ("plain", "slots"):
        lines.append(f"{ind}class {name}:")
        if kind == "slots":
            lines.append(f"{ind}    __slots__ = ({''.join(repr(fn) + ', ' for fn, _ in fields)})")
        init_hints = kind == "plain" and "init_hints" in c.get("extras", [])
        if not init_hints:
            for fn, ft in fields:
                lines.append(f"{ind}    {fn}: {ann(ft)}")
        params = []
        for fn, ft in fields:
            # init_hints: the class has NO class-level annotations, its field types are declared on the constructor only (and are
            # strings at run time under `from __future__ import annotations`)
            pn = f"{fn}: {ann(ft)}" if init_hints else fn
            params.append(f"{pn}={val_src(defaults[fn])}" if fn in defaults and not isinstance(defaults[fn], list) else
                          (f"{pn}=None" if fn in defaults else pn))
        lines.append(f"{ind}    def __init__(self, {', '.join(params)}):")
        for fn, ft in fields:
            if fn in defaults and isinstance(defaults[fn], list):
                lines.append(f"{ind}        self.{fn} = {val_src(defaults[fn])} if {fn} is None else {fn}")
            else:
                lines.append(f"{ind}        self.{fn} = {fn}")
        if not fields:
            lines.append(f"{ind}        pass")
        lines.append(f"{ind}    def __eq__(self, o):")
        lines.append(f"{ind}        return type(o) is type(self) and all(getattr(self, f) == getattr(o, f) for f in {[fn for fn, _ in fields]!r})")
        lines.append(f"{ind}    __hash__ = None")
        lines.append(f"{ind}    def __repr__(self):")
        lines.append(f"{ind}        return '{name}(' + ', '.join(f'{{f}}={{getattr(self, f)!r}}' for f in {[fn for fn, _ in fields]!r}) + ')'")
    else:
        raise ValueError(kind)
    # behaviour-neutral extras: a class stays the same structured type when it defines __call__ or carries a ClassVar of its own type
    for x in c.get("extras", []):
        if x == "call":
            lines.append(f"{ind}    def __call__(self):")
            lines.append(f"{ind}        return None")
        elif x == "classvar_self":
            lines.append(f"{ind}    ZERO: typing.ClassVar[{c['qualname']!r}] = None")
    return "\n".join(lines)


class Program:
    """A materialised program: real modules, class objects, evaluation namespace."""

    def __init__(self, prog):
        self.spec = prog
        self.modules = {}
        srcs = module_sources(prog)
        for m in srcs:
            mod = types.ModuleType(m)
            sys.modules[m] = mod
            self.modules[m] = mod
        # merge duplicate nested shells: exec each module source once
        for m, src in srcs.items():
            src = _merge_shells(src)
            exec(compile(src, f"<{m}>", "exec"), self.modules[m].__dict__)
        for a in prog.get("aliases", {}).values():
            exec(compile(alias_source(a, prog), f"<{a['module']}>", "exec"), self.modules[a["module"]].__dict__)
        self.ns = {"typing": typing, "Literal": typing.Literal, "collections": collections, "datetime": datetime, "decimal": decimal,
                   "fractions": fractions, "uuid": uuid, "pathlib": pathlib, "re": re, "enum": enum,
                   **self.modules}
        self.classes = []
        for c in prog["classes"]:
            obj = self.modules[c["module"]]
            for part in c["qualname"].split("."):
                obj = getattr(obj, part)
            self.classes.append(obj)
        self.cid = {cls: i for i, cls in enumerate(self.classes)}

    def annotation(self, ts):
        return eval(pyexpr(ts, self.spec), dict(self.ns))

    def lean_env(self):
        return lean_env(self.spec)


def _merge_shells(src):
    """`class Outer:` shells emitted once per nested class are merged textually."""
    out, seen = [], set()
    for line in src.split("\n"):
        if re.fullmatch(r"\s*class \w+:", line) and not line.startswith(" ") and line in seen:
            continue
        if re.fullmatch(r"class \w+:", line):
            seen.add(line)
        out.append(line)
    return "\n".join(out)


def lean_env(prog):
    env = []
    for c in prog["classes"]:
        if c["kind"] == "enum":
            env.append({"flavour": "plain", "mixin": c["mixin"], "fields": [], "required": [], "defaults": [],
                        "members": [[n, v] for n, v in c["members"]]})
        else:
            env.append({"flavour": c["kind"], "mixin": "none",
                        "fields": [[fn, strip_hints(ft)] for fn, ft in c["fields"]],
                        "required": list(c["required"]),
                        "defaults": [[k, v] for k, v in c.get("defaults", [])], "members": []})
    return env


# --------------------------------------------------------------------------- values

CARRIERS = {
    "bytes": lambda s: s.encode(), "bytearray": lambda s: bytearray(s.encode()),
    "mview": lambda s: memoryview(s.encode()), "mviewW": lambda s: memoryview(bytearray(s.encode())),
    # read-only view of a MUTABLE buffer (how a receive buffer is handed to consumers): read-only, yet unhashable.
    # Oracle-only carrier: the model's `mview` stands for every read-only view.
    "mviewRO": lambda s: memoryview(bytearray(s.encode())).toreadonly(),
}


class Opaque:
    """An unrelated, attribute-less object (the junk stream's 'instance of an unrelated class')."""

    def __repr__(self):
        return "Opaque()"

    def __eq__(self, o):
        return isinstance(o, Opaque)

    __hash__ = None


def tz_of(off):
    return datetime.timezone(datetime.timedelta(seconds=off))


def to_py(vj, P: Program):
    if vj is None or isinstance(vj, (bool, int, str)):
        return vj
    tag = vj[0]
    if tag == "f":
        return float(vj[1])
    if tag == "b":
        return CARRIERS[vj[1]](vj[2])
    if tag == "l":
        return [to_py(x, P) for x in vj[1]]
    if tag == "t":
        return tuple(to_py(x, P) for x in vj[1])
    if tag == "s":
        return {to_py(x, P) for x in vj[1]}
    if tag == "fs":
        return frozenset(to_py(x, P) for x in vj[1])
    if tag == "dq":
        return collections.deque(to_py(x, P) for x in vj[1])
    if tag == "it":
        return iter([to_py(x, P) for x in vj[1]])
    if tag == "d":
        return {to_py(k, P): to_py(v, P) for k, v in vj[1]}
    if tag == "dec":
        return decimal.Decimal(vj[1])
    if tag == "frac":
        return fractions.Fraction(vj[1], vj[2])
    if tag == "uuid":
        return uuid.UUID(int=vj[1])
    if tag == "path":
        return pathlib.PurePosixPath(vj[1])
    if tag == "pat":
        return re.compile(vj[1])
    if tag == "date":
        return datetime.date.fromordinal(vj[1])
    if tag == "dt":
        us, off = vj[1], vj[2]
        local = datetime.datetime(1970, 1, 1) + datetime.timedelta(microseconds=us + off * 1000000)
        return local.replace(tzinfo=tz_of(off))
    if tag == "tm":
        us, off = vj[1], vj[2]
        s, micro = divmod(us, 1000000)
        return datetime.time(s // 3600, s // 60 % 60, s % 60, micro, tzinfo=None if off is None else tz_of(off))
    if tag == "td":
        return datetime.timedelta(microseconds=vj[1])
    if tag == "m":
        return list(P.classes[vj[1]])[vj[2]]
    if tag == "o":
        cls = P.classes[vj[1]]
        return cls(**{k: to_py(v, P) for k, v in vj[2]})
    if tag == "x":
        if len(vj) > 1 and vj[1] == "binary":
            # bytes that are not text in any carrier (a raw digest): opaque to the model, judged by the oracles on the real library
            return b"\xff\xfe\x00\x01\x80"
        return Opaque()
    raise ValueError(vj)


def td_us(td):
    return (td.days * 86400 + td.seconds) * 1000000 + td.microseconds


def from_py(x, P: Program):
    """Python object -> Val JSON, by *exact* class (a subclass instance is an opaque)."""
    t = type(x)
    if x is None or t is bool or t is int or t is str:
        return x
    if t is float:
        return ["f", repr(x)] if x == x and x not in (float("inf"), float("-inf")) else ["x", "nonfinite-float"]
    if t in (bytes, bytearray, memoryview):
        try:
            raw = bytes(x)
            kind = {bytes: "bytes", bytearray: "bytearray"}.get(t) or ("mview" if x.readonly else "mviewW")
            return ["b", kind, raw.decode()]
        except UnicodeDecodeError:
            return ["x", "binary"]
    if t is list:
        return ["l", [from_py(e, P) for e in x]]
    if t is tuple:
        return ["t", [from_py(e, P) for e in x]]
    if t is set:
        return ["s", sorted((from_py(e, P) for e in x), key=json.dumps)]
    if t is frozenset:
        return ["fs", sorted((from_py(e, P) for e in x), key=json.dumps)]
    if t is collections.deque:
        return ["dq", [from_py(e, P) for e in x]]
    if t is dict:
        return ["d", [[from_py(k, P), from_py(v, P)] for k, v in x.items()]]
    if t is decimal.Decimal:
        return ["dec", str(x)]
    if t is fractions.Fraction:
        return ["frac", int(x.numerator), int(x.denominator)]
    if t is uuid.UUID:
        return ["uuid", int(x.int)]      # UUID(int=True).int is the bool itself
    if t in (pathlib.PurePosixPath, pathlib.PosixPath):
        return ["path", str(x)]
    if t is re.Pattern:
        return ["pat", x.pattern] if isinstance(x.pattern, str) else ["x", "bytes-pattern"]
    if t is datetime.datetime:
        if x.tzinfo is None or x.utcoffset() is None:
            return ["x", "naive-datetime"]
        off = x.utcoffset()
        return ["dt", td_us(x - datetime.datetime(1970, 1, 1, tzinfo=UTC)), td_us(off) // 1000000]
    if t is datetime.date:
        return ["date", x.toordinal()]
    if t is datetime.time:
        off = x.utcoffset()
        us = ((x.hour * 60 + x.minute) * 60 + x.second) * 1000000 + x.microsecond
        return ["tm", us, None if off is None else td_us(off) // 1000000]
    if t is datetime.timedelta:
        return ["td", td_us(x)]
    if P is not None and t in P.cid:
        c = P.spec["classes"][P.cid[t]]
        if c["kind"] == "enum":
            return ["m", P.cid[t], list(t).index(x)]
        try:
            return ["o", P.cid[t], [[fn, from_py(getattr(x, fn), P)] for fn, _ in c["fields"]]]
        except AttributeError:
            return ["x", f"partial-{t.__name__}"]
    if t is Opaque:
        return ["x", "opaque"]
    return ["x", f"{t.__module__}.{t.__qualname__}"]


def err_class(e: BaseException) -> str:
    if isinstance(e, RecursionError):
        return "recursion"
    if isinstance(e, ZeroDivisionError):
        return "zeroDivision"
    if isinstance(e, OverflowError):
        return "overflow"
    if isinstance(e, ArithmeticError):
        return "arithmetic"
    if isinstance(e, KeyError):
        return "key"
    if isinstance(e, ValueError):
        return "value"
    if isinstance(e, TypeError):
        return "type"
    if isinstance(e, AttributeError):
        return "attribute"
    if isinstance(e, SyntaxError):
        return "syntax"
    if isinstance(e, StopIteration):
        return "stopIteration"
    return "other"


def _eqkey(c):
    """Key under which Python's == / hash would identify set elements (True == 1 == 1.0 == Decimal(1))."""
    try:
        if isinstance(c, bool):
            return json.dumps(int(c))
        if isinstance(c, list) and c and c[0] == "f" and float(c[1]).is_integer():
            return json.dumps(int(float(c[1])))
        if isinstance(c, list) and c and c[0] == "dec" and decimal.Decimal(c[1]) == decimal.Decimal(c[1]).to_integral_value():
            return json.dumps(int(decimal.Decimal(c[1])))
        if isinstance(c, list) and c and c[0] == "frac" and c[2] == 1:
            return json.dumps(c[1])
    except Exception:  # noqa: BLE001
        pass
    return json.dumps(c)


def _canon(vj):
    """Canonical form for comparison: sets sorted, dict duplicates resolved last-wins."""
    if vj is None or isinstance(vj, (bool, int, str)):
        return vj
    tag = vj[0]
    if tag in ("l", "t", "dq", "it"):
        return [tag, [_canon(x) for x in vj[1]]]
    if tag in ("s", "fs"):
        seen, out = set(), []
        for x in vj[1]:
            c = _canon(x)
            k = _eqkey(c)
            if k not in seen:
                seen.add(k)
                out.append(c)
        return [tag, sorted(out, key=_eqkey)]
    if tag == "d":
        order, m = [], {}
        for k, v in vj[1]:
            ck = json.dumps(_canon(k))
            if ck not in m:
                order.append(ck)
            m[ck] = _canon(v)
        return ["d", [[json.loads(ck), m[ck]] for ck in order]]
    if tag == "o":
        return ["o", vj[1], [[k, _canon(v)] for k, v in vj[2]]]
    return vj


def _canon_unordered(vj):
    """Like canon, and every list is sorted: for marshalled forms of types that contain sets,
    whose list order is the hash order of the set."""
    c = _canon(vj)
    def go(x):
        if isinstance(x, list) and x and x[0] in ("l", "t", "dq", "s", "fs"):
            return [x[0], sorted((go(y) for y in x[1]), key=json.dumps)]
        if isinstance(x, list) and x and x[0] == "d":
            return ["d", [[go(k), go(v)] for k, v in x[1]]]
        if isinstance(x, list) and x and x[0] == "o":
            return ["o", x[1], [[k, go(v)] for k, v in x[2]]]
        return x
    return go(c)


def has_set(ts, prog=None, seen=None):
    body = [x for x in ts if not isinstance(x, dict)]
    tag = body[0]
    if tag == "coll":
        return body[1] in ("set", "frozenset") or has_set(body[2], prog, seen)
    if tag in ("tuple", "union"):
        return any(has_set(e, prog, seen) for e in body[1])
    if tag == "dict":
        return has_set(body[1], prog, seen) or has_set(body[2], prog, seen)
    if tag == "wrap":
        return has_set(body[2], prog, seen)
    if tag == "cls" and prog is not None:
        seen = seen or set()
        if body[1] in seen:
            return False
        seen.add(body[1])
        return any(has_set(ft, prog, seen) for _, ft in prog["classes"][body[1]]["fields"])
    return False


def is_plain_json(vj):
    """Is the encoded value made of None/bool/int/float/str/list/dict only?"""
    if vj is None or isinstance(vj, (bool, int, str)):
        return True
    if isinstance(vj, list) and vj and vj[0] == "f":
        return True
    if isinstance(vj, list) and vj and vj[0] == "l":
        return all(is_plain_json(x) for x in vj[1])
    if isinstance(vj, list) and vj and vj[0] == "d":
        return all(is_plain_json(k) and is_plain_json(v) for k, v in vj[1])
    return False


def run_real(fn, P):
    """Run `fn()` on the real library and encode the outcome like the driver does."""
    try:
        return {"ok": from_py(fn(), P)}
    except BaseException as e:  # noqa: BLE001 - the class of *any* raised error is the observation
        if isinstance(e, (KeyboardInterrupt, SystemExit, MemoryError)):
            raise
        return {"err": err_class(e), "msg": f"{type(e).__name__}: {e}"[:200]}


class Strict(str):
    """Canonical form as JSON text: comparison is type-strict (Python's `1 == True` must not make a bool and an
    int position compare equal)."""


def canon(vj):
    return Strict(json.dumps(_canon(vj), sort_keys=False))


def canon_unordered(vj):
    return Strict(json.dumps(_canon_unordered(vj), sort_keys=False))
