"""Run jobs in children forked from an import-only zygote (DESIGN.md §2.2 "Isolation").

The parent process imports typelib once and touches nothing else; every job runs in its own
fork, so the library's process-wide caches (keyed by order-insensitive Union equality) are as
cold as after a fresh import.  Results come back as JSON over a pipe.
"""
from __future__ import annotations

import json
import os
import select
import signal
import sys
import time


def tmp_cleaned(fn):
    """Decorator for child functions that write modules to a temporary directory: what tempfile.mkdtemp made during the call is
    removed when the call ends (the modules are imported by then)."""
    import functools

    @functools.wraps(fn)
    def run(job):
        import shutil
        import tempfile
        made, orig = [], tempfile.mkdtemp

        def mk(*a, **k):
            p_ = orig(*a, **k)
            made.append(p_)
            return p_
        tempfile.mkdtemp = mk
        try:
            return fn(job)
        finally:
            tempfile.mkdtemp = orig
            for p_ in made:
                shutil.rmtree(p_, ignore_errors=True)
    return run


def _child(fn, job, wfd):
    try:
        try:
            res = {"ok": fn(job)}
        except BaseException as e:  # noqa: BLE001
            import traceback
            res = {"crash": f"{type(e).__name__}: {e}", "tb": traceback.format_exc()[-1500:]}
        data = json.dumps(res).encode()
        with os.fdopen(wfd, "wb") as w:
            w.write(data)
    finally:
        os._exit(0)


def map_isolated(fn, jobs, nproc=None, timeout=60.0):
    """fn(job) -> JSON-able, each in a fresh fork.  Returns results in order;
    a crashed / timed-out child yields {"crash": ...}."""
    nproc = nproc or min(16, os.cpu_count() or 4)
    jobs = list(jobs)
    results = [None] * len(jobs)
    running = {}  # rfd -> (idx, pid, buf, t0)
    nxt = 0
    sys.stdout.flush()
    sys.stderr.flush()
    while nxt < len(jobs) or running:
        while nxt < len(jobs) and len(running) < nproc:
            rfd, wfd = os.pipe()
            pid = os.fork()
            if pid == 0:
                os.close(rfd)
                for r in running:
                    try:
                        os.close(r)
                    except OSError:
                        pass
                _child(fn, jobs[nxt], wfd)
            os.close(wfd)
            running[rfd] = [nxt, pid, bytearray(), time.time()]
            nxt += 1
        ready, _, _ = select.select(list(running), [], [], 0.5)
        for rfd in ready:
            chunk = os.read(rfd, 1 << 16)
            ent = running[rfd]
            if chunk:
                ent[2] += chunk
                continue
            os.close(rfd)
            os.waitpid(ent[1], 0)
            del running[rfd]
            try:
                r = json.loads(bytes(ent[2]))
                results[ent[0]] = r["ok"] if "ok" in r else {"crash": r.get("crash"), "tb": r.get("tb")}
            except Exception:
                results[ent[0]] = {"crash": "no output (child died)"}
        now = time.time()
        for rfd, ent in list(running.items()):
            if now - ent[3] > timeout:
                try:
                    os.kill(ent[1], signal.SIGKILL)
                except ProcessLookupError:
                    pass
                os.close(rfd)
                os.waitpid(ent[1], 0)
                del running[rfd]
                results[ent[0]] = {"crash": "timeout"}
    return results
