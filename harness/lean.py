"""Talk to the Lean side: regenerate tables, build (under a lock), audit axioms, run the driver."""
from __future__ import annotations

import fcntl
import json
import os
import re
import subprocess
import time

ROOT = os.path.dirname(os.path.dirname(os.path.abspath(__file__)))
LEAN = os.path.join(ROOT, "lean")
DRIVER = os.path.join(LEAN, ".lake", "build", "bin", "driver")
ALLOWED_AXIOMS = {"propext", "Classical.choice", "Quot.sound"}
FORBIDDEN = re.compile(r"\b(sorry|admit|native_decide|bv_decide|implemented_by|unsafe )|^axiom |maxHeartbeats 0", re.M)


class Lock:
    """Project lock: builds (which relink the driver and rewrite .olean files) are exclusive, users of the
    build products (driver runs, axiom audits) share it.  Same file as bin/lk."""

    def __init__(self, exclusive=True):
        self.mode = fcntl.LOCK_EX if exclusive else fcntl.LOCK_SH

    def __enter__(self):
        self.f = open(os.path.join(ROOT, ".lake.lock"), "a")
        fcntl.flock(self.f, self.mode)
        return self

    def __exit__(self, *a):
        fcntl.flock(self.f, fcntl.LOCK_UN)
        self.f.close()


def run(cmd, timeout=1800, cwd=LEAN):
    p = subprocess.run(cmd, cwd=cwd, capture_output=True, text=True, timeout=timeout)
    return p.returncode, p.stdout + p.stderr


def build(targets, timeout=1800):
    """lake build <targets>; returns (ok, log, seconds)."""
    t0 = time.time()
    with Lock():
        rc, out = run(["lake", "build", *targets], timeout=timeout)
    return rc == 0, out, time.time() - t0


def failing_decls(log):
    """Names / locations of what no longer checks, from a lake build log."""
    out = []
    for m in re.finditer(r"error: ([^\n]*?\.lean):(\d+):(\d+): ([^\n]*)", log):
        out.append({"file": os.path.relpath(m.group(1), LEAN) if os.path.isabs(m.group(1)) else m.group(1),
                    "line": int(m.group(2)), "msg": m.group(4)[:300]})
    return out


def decl_at(file, line):
    """Name of the theorem/def enclosing a line of a Lean file (best effort)."""
    try:
        src = open(os.path.join(LEAN, file)).read().split("\n")
    except OSError:
        return None
    for i in range(min(line, len(src)) - 1, -1, -1):
        m = re.match(r"\s*(?:@\[[^\]]*\]\s*)?(?:private |protected )?(theorem|lemma|def|example|instance)\s+([^\s:(\[{]+)?", src[i])
        if m:
            return (m.group(2) or "example") if m.group(1) != "example" else f"example@{i+1}"
    return None


def theorems_in(module_file):
    """Declared theorem names of a Props file."""
    src = open(os.path.join(LEAN, module_file)).read()
    src = re.sub(r"/-.*?-/", "", src, flags=re.S)
    src = re.sub(r"--[^\n]*", "", src)
    ns = re.findall(r"^namespace\s+(\S+)", src, flags=re.M)
    names = re.findall(r"^\s*theorem\s+([^\s:(\[{]+)", src, flags=re.M)
    prefix = ns[0] + "." if ns else ""
    return [n if n.startswith(prefix) else prefix + n for n in names], len(re.findall(r"^\s*example\b", src, flags=re.M))


def forbidden_tokens(files):
    hits = []
    for f in files:
        src = open(os.path.join(LEAN, f)).read()
        code = re.sub(r"/-.*?-/", "", src, flags=re.S)
        code = re.sub(r"--[^\n]*", "", code)
        for m in FORBIDDEN.finditer(code):
            hits.append(f"{f}: {m.group(0).strip()}")
    return hits


def audit(module, theorems, timeout=900):
    """`#print axioms` for every theorem of a property module; returns {thm: [axioms]} or raises."""
    work = os.path.join(ROOT, ".work")
    os.makedirs(work, exist_ok=True)
    path = os.path.join(work, f"audit_{module.replace('.', '_')}_{os.getpid()}.lean")
    with open(path, "w") as f:
        f.write(f"import {module}\n")
        for t in theorems:
            f.write(f"#print axioms {t}\n")
    try:
        with Lock(exclusive=False):
            rc, out = run(["lake", "env", "lean", path], timeout=timeout)
    finally:
        try:
            os.unlink(path)
        except OSError:
            pass
    res = {}
    for m in re.finditer(r"^'(.+?)' depends on axioms: \[([^\]]*)\]", out, flags=re.M):
        res[m.group(1)] = [a.strip() for a in m.group(2).replace("\n", " ").split(",") if a.strip()]
    for m in re.finditer(r"^'(.+?)' does not depend on any axioms", out, flags=re.M):
        res[m.group(1)] = []
    return rc, res, out


def recheck(modules, timeout=1500):
    """Independent re-check of the compiled modules with leanchecker (replays every declaration of the .olean files through
    a fresh kernel). Returns (ok, log, seconds)."""
    t0 = time.time()
    with Lock(exclusive=False):
        rc, out = run(["lake", "env", "leanchecker", *modules], timeout=timeout)
    return rc == 0, out, time.time() - t0


def drive(lines, timeout=600):
    """Feed JSON-able ops to the native driver; returns parsed outputs (one per op)."""
    data = "\n".join(json.dumps(l) for l in lines) + "\n"
    with Lock(exclusive=False):
        p = subprocess.run([DRIVER], input=data, capture_output=True, text=True, timeout=timeout)
    outs = [json.loads(l) for l in p.stdout.split("\n") if l.strip()]
    if len(outs) != len(lines):
        raise RuntimeError(f"driver answered {len(outs)} of {len(lines)} lines; stderr={p.stderr[-500:]}")
    return outs
