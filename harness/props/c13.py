"""C13 — Already-valid values pass through unmarshal unchanged (and unmarshal is idempotent)."""
from __future__ import annotations

import json

from .. import core, enc
from ..runner import Result
from .c01 import type_optional_only, enum_ambiguous

ID = "C13"
LEVEL = "proof"
LEVEL_TEXT = ("Kernel-checked theorem C13.passthroughG / passthrough_core: for every class environment, every union-free or "
              "Optional-only annotation of U and every valid value of exactly the annotated classes (any size and depth), "
              "unmarshal(T, v) = v; stated for any notion of validity accepted by the leaf routines, so that with conformance "
              "(C03) it yields idempotence. Tied to /repo by the per-run correspondence; pass-through and idempotence are also "
              "evaluated directly on the real library on adversarial values (strings that read as JSON/numbers/dates/'null', "
              "2-character strings and 2-element members first, str-mixin enum members).")
LEVEL_NOTE = ("Trusted: Lean kernel, axioms propext/Classical.choice/Quot.sound; hand-written model tied by correspondence; "
              "PassLaws hypothesis for leaves outside the core {int,bool,float,str} and for str-mixin enum members.")
TECHNIQUE = "Lean 4 proof by induction on value depth over the executable model; differential correspondence; direct pass-through and idempotence oracle"
DESIGN_REF = "DESIGN.md §5 C13"
MODULES = ["TypelibModel.Props.C13", "TypelibModel.Props.Dispatch"]
TABLES = True
RULE = ("programs with union-free / Optional-only annotations; valid values of exactly the annotated classes, biased to "
        "text that reads as JSON / numbers / dates / 'null', 2-character strings, 2-element first members, str-mixin enum "
        "members; plus the C03 junk pool for the idempotence form; non-trivial = composite annotation")
ASSUMPTIONS = ["equality is class-exact structural equality of the encoded values; sets compared up to order"]
TRUSTED = ["harness encoders/generators", "hand-written model tied by correspondence"]


def make_ops(depth):
    def f(g, prog):
        ops = []
        for _ in range(3):
            ts = g.ty(depth)
            for _ in range(3):
                ops.append({"op": "um", "ty": ts, "val": g.value(ts, budget=depth), "obs": ["idem"], "valid": True})
            for _ in range(2):
                ops.append({"op": "um", "ty": ts, "val": g.junk(), "obs": ["idem"], "valid": False})
        return ops
    return f


def explore(ctx):
    res = Result()
    res.rule = RULE
    depth = 3 if ctx.tier == "quick" else 4
    n = ctx.n(160, 2500)
    jobs = core.corpus_jobs("C13") + core.gen_jobs(ctx, n, "c13", dict(max_depth=depth, unions="optional"), make_ops(depth))
    real, model = core.run_jobs(jobs)
    res.programs = len(jobs)
    for job, op, r_, m_ in core.iter_results(jobs, real, model):
        case = {"ann": enc.pyexpr(op["ty"], job["prog"]), "val": op["val"]}
        res.case(case, op["ty"][0] not in enc.SCALAR_EXPR)
        inp = {"prog": job["prog"], "ty": op["ty"], "val": op["val"], **case}
        core.compare(res, "um", inp, r_, m_)
        if op["valid"] and type_optional_only(op["ty"], job["prog"]) and not enum_shadow(job["prog"]):
            if not ("ok" in r_ and enc.canon(r_["ok"]) == enc.canon(op["val"])):
                res.failures.append({"what": "unmarshal(T, v) != v for a valid v", "input": inp, "real": {k: r_[k] for k in r_ if k in ("ok", "err", "msg")}})
            else:
                res.count("oracle:passthrough-ok")
        if "ok" in r_ and "again" in r_:
            a = r_["again"]
            if "ok" in a and enc.canon(a["ok"]) == enc.canon(r_["ok"]):
                res.count("oracle:idempotent")
            elif enum_shadow(job["prog"]):
                res.count("oracle:excluded-enum-shadow")
            else:
                res.failures.append({"what": "unmarshal(T, unmarshal(T, x)) != unmarshal(T, x)", "input": inp,
                                     "real": {"first": r_["ok"], "second": a}})
    return res


def enum_shadow(prog):
    """A str-mixin enum member whose text decodes (JSON / literal) to the value of ANOTHER member: by-value lookup
    of the decoded text wins over the member itself (excluded by the theorem's enumPass hypothesis)."""
    for c in prog["classes"]:
        if c["kind"] != "enum" or c["mixin"] != "str":
            continue
        vals = [v for _, v in c["members"]]
        for v in vals:
            try:
                d = json.loads(v)
            except ValueError:
                continue
            if any(d == w for w in vals if w != v):
                return True
    return False


def witness(fid):
    return None


def replay(failure):
    inp = failure["input"]
    job = {"prog": inp["prog"], "ops": [{"op": "um", "ty": inp["ty"], "val": inp["val"], "obs": ["idem"]}]}
    real, model = core.run_jobs([job])
    r_ = real[0][0]
    print(json.dumps({"annotation": inp["ann"], "value": inp["val"], "real": r_, "model": model[0][0]}, indent=1)[:3000])
    if failure["what"].startswith("unmarshal(T, v)"):
        return not ("ok" in r_ and enc.canon(r_["ok"]) == enc.canon(inp["val"]))
    return "ok" in r_ and not ("ok" in r_["again"] and enc.canon(r_["again"]["ok"]) == enc.canon(r_["ok"]))
