"""C13 — Already-valid values pass through unmarshal unchanged (and unmarshal is idempotent)."""
from __future__ import annotations

import json

from .. import core, enc
from ..runner import Result
from .c01 import type_optional_only

ID = "C13"
LEVEL = "proof"
LEVEL_TEXT = ("Kernel-checked theorem C13.passthroughG / passthrough_core: for every class environment, every union-free or "
              "Optional-only annotation of U and every valid value of exactly the annotated classes (any size and depth), "
              "unmarshal(T, v) = v; stated for any notion of validity accepted by the leaf routines, so that with conformance "
              "(C03) it yields idempotence. Enum members pass through for EVERY environment and every leaves (C13.enumPass / "
              "umEnum_member: a member of a str-mixin enum is returned before serdes.load reads it as text, also when its text is "
              "the JSON spelling of another member's value); no condition on the enum classes is left. Tied to /repo by the "
              "per-run correspondence; pass-through and idempotence are also evaluated directly on the real library on "
              "adversarial values (strings that read as JSON/numbers/dates/'null', 2-character strings and 2-element members "
              "first, str-mixin enum members including shadowed ones such as '\"x\"' beside 'x').")
LEVEL_NOTE = ("Trusted: Lean kernel, axioms propext/Classical.choice/Quot.sound; hand-written model tied by correspondence; "
              "PassLaws hypothesis (leafPass, litPass) for leaves outside the core {int,bool,float,str}.")
TECHNIQUE = "Lean 4 proof by induction on value depth over the executable model; differential correspondence; direct pass-through and idempotence oracle"
DESIGN_REF = "DESIGN.md §5 C13"
MODULES = ["TypelibModel.Props.C13", "TypelibModel.Props.Dispatch"]
TABLES = True
RULE = ("programs with union-free / Optional-only annotations; valid values of exactly the annotated classes, biased to "
        "text that reads as JSON / numbers / dates / 'null', 2-character strings, 2-element first members, str-mixin enum "
        "members (half of the generated str-mixin enums get a member whose text is the JSON spelling of another member's "
        "value, with extra ops aimed at that enum); plus the C03 junk pool for the idempotence form; non-trivial = composite "
        "annotation")
ASSUMPTIONS = ["equality is class-exact structural equality of the encoded values; sets compared up to order"]
TRUSTED = ["harness encoders/generators", "hand-written model tied by correspondence"]


def shadow_bias(g, prog):
    """Give half of the str-mixin enums a member whose text is the JSON spelling of another member's value
    ('"x"' beside 'x'), before or after it; returns the ids of the enums now shadowed."""
    r = g.r
    out = []
    for c in prog["classes"]:
        if c["kind"] != "enum" or c["mixin"] != "str" or r.random() < 0.5:
            continue
        vals = [v for _, v in c["members"]]
        base = r.choice(vals)
        twin = json.dumps(base)
        if twin in vals:
            continue
        vals.insert(r.choice([0, len(vals)]), twin)
        c["members"] = [[f"m{i}", v] for i, v in enumerate(vals)]
        out.append(c["id"])
    return out


def make_ops(depth):
    def f(g, prog):
        ops = []
        for cid in shadow_bias(g, prog):
            for ts in (["enum", cid], ["union", [["enum", cid], ["none"]], {"sp": "optional"}],
                       ["coll", "list", ["enum", cid], {"sp": g._sp("list")}],
                       ["dict", ["enum", cid], ["int"], {"sp": g._sp("dict")}]):
                for _ in range(2):
                    ops.append({"op": "um", "ty": ts, "val": g.value(ts, budget=depth), "obs": ["idem"], "valid": True})
        for _ in range(3):
            ts = g.ty(depth)
            for _ in range(3):
                ops.append({"op": "um", "ty": ts, "val": g.value(ts, budget=depth), "obs": ["idem"], "valid": True})
            for _ in range(2):
                ops.append({"op": "um", "ty": ts, "val": g.junk(), "obs": ["idem"], "valid": False})
        return ops
    return f


def explore(ctx):
    res = Result()
    res.rule = RULE
    depth = 3 if ctx.tier == "quick" else 4
    n = ctx.n(160, 2500)
    jobs = core.corpus_jobs("C13") + core.gen_jobs(ctx, n, "c13", dict(max_depth=depth, unions="optional"), make_ops(depth))
    real, model = core.run_jobs(jobs)
    res.programs = len(jobs)
    for job, op, r_, m_ in core.iter_results(jobs, real, model):
        case = {"ann": enc.pyexpr(op["ty"], job["prog"]), "val": op["val"]}
        res.case(case, op["ty"][0] not in enc.SCALAR_EXPR)
        inp = {"prog": job["prog"], "ty": op["ty"], "val": op["val"], **case}
        core.compare(res, "um", inp, r_, m_)
        shadowed = op["valid"] and has_shadow_member(op["val"], job["prog"])
        if shadowed:
            res.count("gen:valid-value-with-shadowed-str-enum-member")
        if op["valid"] and type_optional_only(op["ty"], job["prog"]):
            if not ("ok" in r_ and enc.canon(r_["ok"]) == enc.canon(op["val"])):
                res.failures.append({"what": "unmarshal(T, v) != v for a valid v", "input": inp, "real": {k: r_[k] for k in r_ if k in ("ok", "err", "msg")}})
            else:
                res.count("oracle:passthrough-ok")
                if shadowed:
                    res.count("oracle:passthrough-ok(shadowed-str-enum-member)")
        if "ok" in r_ and "again" in r_:
            a = r_["again"]
            if "ok" in a and enc.canon(a["ok"]) == enc.canon(r_["ok"]):
                res.count("oracle:idempotent")
            else:
                res.failures.append({"what": "unmarshal(T, unmarshal(T, x)) != unmarshal(T, x)", "input": inp,
                                     "real": {"first": r_["ok"], "second": a}})
    flagged_patterns(res)
    twin_values(res)
    from .c01 import inheritance_probe
    inheritance_probe(res, "pass")
    return res


def shadow_members(prog):
    """(class id, member index) of the str-mixin enum members whose text decodes (JSON) to the value of ANOTHER member
    of the same enum.  Until 9645d73 such a member was read as text and came back as the other member; it must pass
    through like every other valid value (no exclusion)."""
    out = set()
    for c in prog["classes"]:
        if c["kind"] != "enum" or c["mixin"] != "str":
            continue
        vals = [v for _, v in c["members"]]
        for i, v in enumerate(vals):
            try:
                d = json.loads(v)
            except ValueError:
                continue
            if any(d == w for w in vals if w != v):
                out.add((c["id"], i))
    return out


def has_shadow_member(val, prog):
    sm = shadow_members(prog)
    if not sm:
        return False

    def walk(x):
        if isinstance(x, list):
            if len(x) == 3 and x[0] == "m" and (x[1], x[2]) in sm:
                return True
            return any(walk(y) for y in x)
        return False
    return walk(val)


FLAG_SRC = """
import dataclasses, re, typing
@dataclasses.dataclass
class Rule:
    name: str
    matcher: re.Pattern
class RuleNT(typing.NamedTuple):
    matcher: re.Pattern[str]
    n: int = 0
class RuleTD(typing.TypedDict):
    matcher: re.Pattern
"""
# (annotation, value) -- compiled patterns carrying flags given as an argument (outside the model's alphabet: judged on the real
# library only).  A Pattern instance is a valid value of re.Pattern whatever its flags; pass-through must keep source AND flags.
FLAG_CASES = [
    ("re.Pattern", "re.compile('^ab$', re.I)"), ("re.Pattern", "re.compile('^a.b$', re.M | re.S)"), ("re.Pattern", "re.compile(r'\\w+', re.A)"),
    ("re.Pattern[str]", "re.compile('a  b  # c', re.X)"), ("re.Pattern[bytes]", "re.compile(b'ab', re.I)"), ("re.Pattern", "re.compile('(?i)ab')"),
    ("typing.Optional[re.Pattern]", "re.compile('x', re.I)"), ("list[re.Pattern]", "[re.compile('1', re.I), re.compile('null', re.S)]"),
    ("dict[str, re.Pattern]", "{'ab': re.compile(r'\\d{4}', re.M)}"), ("tuple[re.Pattern, ...]", "(re.compile('t', re.I),)"),
    ("tuple[int, re.Pattern]", "(1, re.compile('t', re.X))"), ("Rule", "Rule('1', re.compile('[a-z]+', re.I))"),
    ("RuleNT", "RuleNT(re.compile('[a-z]+', re.S), 2)"), ("RuleTD", "{'matcher': re.compile('z', re.I)}"),
    ("list[Rule]", "[Rule('n', re.compile('q', re.I | re.M))]"),
]


def _flag_child(case):
    import warnings
    warnings.simplefilter("ignore")
    import re
    import typelib
    import sys
    import types
    mod = types.ModuleType("vm_c13_flags")
    sys.modules["vm_c13_flags"] = mod
    ns = mod.__dict__
    exec(FLAG_SRC, ns)
    t, v = eval(case[0], ns), eval(case[1], ns)

    def pats(x):
        if isinstance(x, re.Pattern):
            return [(type(x).__name__, x.pattern, x.flags)]
        if isinstance(x, dict):
            return [("dict",)] + [q for k in x for q in ([("key", k)] + pats(x[k]))]
        if isinstance(x, (list, tuple)):
            return [(type(x).__name__, len(x))] + [q for e in x for q in pats(e)]
        if hasattr(x, "__dataclass_fields__"):
            return [(type(x).__name__,)] + [q for f in x.__dataclass_fields__ for q in pats(getattr(x, f))]
        return [(type(x).__name__, repr(x))]
    try:
        r = typelib.unmarshal(t, v)
        out = {"ok": pats(r) == pats(v), "got": repr(r)[:200], "want": repr(v)[:200]}
        r2 = typelib.unmarshal(t, r)
        out["idem"] = pats(r2) == pats(r)
    except Exception as e:  # noqa: BLE001
        out = {"ok": False, "got": f"{type(e).__name__}: {e}"[:200], "want": repr(v)[:200], "idem": True}
    return out


def flagged_patterns(res):
    """Pass-through of compiled patterns with explicit flags (source and flags both survive), at the root and nested."""
    from .. import iso
    outs = iso.map_isolated(_flag_child, FLAG_CASES, timeout=60.0)
    for case, o in zip(FLAG_CASES, outs):
        if not isinstance(o, dict) or "ok" not in o:
            raise RuntimeError(f"harness: flagged-pattern probe failed: {o}")
        res.case({"ann": case[0], "val": case[1], "family": "flagged-pattern"}, True)
        if not o["ok"]:
            res.failures.append({"what": "unmarshal(T, v) != v for a valid v (compiled pattern with flags)", "input": {"flag_case": list(case)},
                                 "real": {"got": o["got"], "want": o["want"]}})
        elif not o["idem"]:
            res.failures.append({"what": "unmarshal(T, unmarshal(T, x)) != unmarshal(T, x) (compiled pattern with flags)",
                                 "input": {"flag_case": list(case)}, "real": o})
        else:
            res.count("oracle:passthrough-ok(flagged-pattern)")


# ---- equal-but-distinguishable values in ONE process: a valid value passes through as ITSELF (class, digits, sign, offset), whatever
# equal value the same routine saw before.  (annotation, values given in this order to the same process; each later one is valid.)
TWIN_CASES = [
    ("decimal.Decimal", ["decimal.Decimal('2.50')", "decimal.Decimal('2.5')", "decimal.Decimal('2.500')", "decimal.Decimal('-0')", "decimal.Decimal('0')"]),
    ("float", ["0.0", "-0.0", "1.0", "-1.0"]), ("float", ["-0.0", "0.0"]),
    ("int", ["True", "1", "False", "0"]), ("int", ["1.0", "1", "decimal.Decimal('2')", "2", "'3'", "3"]),
    ("float", ["1", "1.0", "True", "decimal.Decimal('0')", "-0.0"]),
    ("fractions.Fraction", ["fractions.Fraction(1, 2)", "fractions.Fraction(2, 4)", "decimal.Decimal('0.5')", "fractions.Fraction(1, 2)"]),
    ("bool", ["1", "True", "0", "False"]), ("str", ["S('ab')", "'ab'"]),
    ("datetime.datetime", ["datetime.datetime(2020, 1, 1, 12, tzinfo=UTC)", "datetime.datetime(2020, 1, 1, 13, tzinfo=P1)",
                           "datetime.datetime(2020, 1, 1, 7, tzinfo=M5)"]),
    ("datetime.time", ["datetime.time(12, tzinfo=UTC)", "datetime.time(13, tzinfo=P1)"]),
    ("typing.List[int]", ["[True, False]", "[1, 0]", "[0, 1, 2]"]), ("typing.Dict[str, int]", ["{'a': True}", "{'a': 1}"]),
    ("typing.Optional[int]", ["True", "1", "None"]), ("typing.Tuple[str, int]", ["('ab', False)", "('ab', 0)"]),
    ("typing.List[decimal.Decimal]", ["[decimal.Decimal('2.50')]", "[decimal.Decimal('2.5')]", "[decimal.Decimal('2.500'), decimal.Decimal('2.5')]"]),
    ("typing.Dict[str, float]", ["{'z': 0.0}", "{'z': -0.0}"]), ("Account", ["Account(True, False)", "Account(1, 0)", "Account(0, 1)"]),
    ("Row", ["Row('ab', True, decimal.Decimal('1.0'))", "Row('ab', 1, decimal.Decimal('1'))", "Row('ab', 1, decimal.Decimal('1.00'))"]),
    ("typing.Set[decimal.Decimal]", ["{decimal.Decimal('2.50')}", "{decimal.Decimal('2.5')}"]),
    ("typing.Dict[decimal.Decimal, int]", ["{decimal.Decimal('2.50'): 1}", "{decimal.Decimal('2.5'): 1}"]),
    # classes whose members come from the constructor signature: an UNANNOTATED parameter accepts any value (its default says nothing
    # about the class of other values), keyword-only parameters are members like the others
    ("Gauge", ["Gauge('rpm', 3)", "Gauge('rpm', 2.5)", "Gauge('rpm', '7', 12, [1], unit='hz', limit=0.5)", "Gauge('rpm', True, b'x', {'k': 1}, limit='9')"]),
    ("Reading", ["Reading('t1', 7)", "Reading('t1', 21.75)", "Reading('t1', '5', None)", "Reading('t1', decimal.Decimal('1.50'), [1.5])"]),
    ("typing.List[Gauge]", ["[Gauge('a', 0.5)]", "[Gauge('a', 1), Gauge('b', '1', unit='s')]"]),
    ("typing.Dict[str, Reading]", ["{'t1': Reading('t1', 0.25)}", "{'t1': Reading('t1', 0)}"]),
    ("Window", ["Window(7)", "Window(7, start=datetime.date(2020, 2, 29), span=datetime.timedelta(days=2, microseconds=1))"]),
]
TWIN_SRC = """
import dataclasses, decimal, fractions, datetime, typing
UTC = datetime.timezone.utc
P1 = datetime.timezone(datetime.timedelta(hours=1))
M5 = datetime.timezone(datetime.timedelta(hours=-5))
class S(str):
    pass
@dataclasses.dataclass
class Account:
    id: int
    retries: int
class Row(typing.NamedTuple):
    label: str
    count: int
    amount: decimal.Decimal
import collections
class _Init:
    def __eq__(self, other):
        return type(other) is type(self) and vars(other) == vars(self)
    def __repr__(self):
        return f"{type(self).__name__}({', '.join(f'{k}={type(v).__name__}:{v!r}' for k, v in vars(self).items())})"
class Gauge(_Init):
    def __init__(self, name: str, scale=1, tag="", items=(), *, unit: str = "rpm", limit=None):
        self.name, self.scale, self.tag, self.items, self.unit, self.limit = name, scale, tag, items, unit, limit
class Window(_Init):
    def __init__(self, ident: int, *, start: datetime.date = datetime.date(1, 1, 1), span: datetime.timedelta = datetime.timedelta(0)):
        self.ident, self.start, self.span = ident, start, span
Reading = collections.namedtuple("Reading", ["sensor", "value", "extra"], defaults=[0, ()])
"""


def _twin_child(case):
    import warnings
    warnings.simplefilter("ignore")
    import sys
    import types
    import typing
    import dataclasses
    import typelib
    mod = types.ModuleType("vm_c13_twin")
    sys.modules["vm_c13_twin"] = mod
    ns = mod.__dict__
    exec(TWIN_SRC, ns)
    t = eval(case[0], ns)

    def valid(a, x):
        og, ar = typing.get_origin(a), typing.get_args(a)
        if og is typing.Union:
            return any(valid(m, x) for m in ar)
        if a is type(None):
            return x is None
        if og is list:
            return type(x) is list and all(valid(ar[0], e) for e in x)
        if og is set:
            return type(x) is set and all(valid(ar[0], e) for e in x)
        if og is dict:
            return type(x) is dict and all(valid(ar[0], k) and valid(ar[1], v) for k, v in x.items())
        if og is tuple:
            return type(x) is tuple and len(x) == len(ar) and all(valid(m, e) for m, e in zip(ar, x))
        if dataclasses.is_dataclass(a) or hasattr(a, "_fields"):
            return type(x) is a and all(valid(h, getattr(x, n)) for n, h in typing.get_type_hints(a).items())
        return type(x) is a

    def show(x):
        if isinstance(x, (set, frozenset)):
            return [type(x).__name__, sorted(show(e) for e in x)]
        if isinstance(x, dict):
            return ["dict", [[show(k), show(v)] for k, v in x.items()]]
        if isinstance(x, tuple) and hasattr(x, "_fields"):
            return [type(x).__name__] + [show(getattr(x, n)) for n in x._fields]
        if dataclasses.is_dataclass(x):
            return [type(x).__name__] + [show(getattr(x, n)) for n in typing.get_type_hints(type(x))]
        if isinstance(x, (list, tuple)):
            return [type(x).__name__] + [show(e) for e in x]
        off = getattr(x, "utcoffset", None)
        return f"{type(x).__name__}:{x!r}" + (f"@{off()}" if off else "")
    out = []
    for src in case[1]:
        v = eval(src, ns)
        if not valid(t, v):
            try:
                typelib.unmarshal(t, v)        # an earlier, ordinary conversion of the same routine
            except Exception:  # noqa: BLE001
                pass
            continue
        try:
            r = typelib.unmarshal(t, v)
            out.append([src, show(r) == show(v), repr(show(r))[:200]])
        except Exception as e:  # noqa: BLE001
            out.append([src, False, f"raised {type(e).__name__}: {e}"[:200]])
    return out


def twin_values(res):
    from .. import iso
    jobs = TWIN_CASES + [(a, list(reversed(vs))) for a, vs in TWIN_CASES]
    outs = iso.map_isolated(_twin_child, jobs, timeout=60.0)
    for case, o in zip(jobs, outs):
        if not isinstance(o, list) or not o:
            raise RuntimeError(f"harness: twin-value probe failed: {case}: {o}")
        for src, ok, got in o:
            res.case({"ann": case[0], "val": src, "after": case[1][:case[1].index(src)], "family": "equal-twins"}, True)
            if ok:
                res.count("oracle:passthrough-ok(after-an-equal-value)")
            else:
                res.failures.append({"what": f"unmarshal({case[0]}, {src}) returned {got} after the same routine saw "
                                             f"{case[1][:case[1].index(src)]}: a valid value did not pass through as itself",
                                     "input": {"twin_case": [case[0], list(case[1])]}})


def witness(fid):
    return None


def replay(failure):
    inp = failure["input"]
    if "inherit_case" in inp:
        from .. import iso
        from .c01 import _inherit_child
        o = iso.map_isolated(_inherit_child, [tuple(inp["inherit_case"])], timeout=60.0)[0]
        print(json.dumps({"case": inp["inherit_case"], "real": o}, indent=1))
        return not (isinstance(o, dict) and o.get("pass"))
    if "twin_case" in inp:
        from .. import iso
        o = iso.map_isolated(_twin_child, [tuple(inp["twin_case"])], timeout=60.0)[0]
        print(json.dumps({"case": inp["twin_case"], "real": o}, indent=1))
        return not (isinstance(o, list) and all(x[1] for x in o))
    if "flag_case" in inp:
        o = _flag_child(inp["flag_case"])
        print(json.dumps({"case": inp["flag_case"], "real": o}, indent=1))
        return not (o["ok"] and o["idem"])
    job = {"prog": inp["prog"], "ops": [{"op": "um", "ty": inp["ty"], "val": inp["val"], "obs": ["idem"]}]}
    real, model = core.run_jobs([job])
    r_ = real[0][0]
    print(json.dumps({"annotation": inp["ann"], "value": inp["val"], "real": r_, "model": model[0][0]}, indent=1)[:3000])
    if failure["what"].startswith("unmarshal(T, v)"):
        return not ("ok" in r_ and enc.canon(r_["ok"]) == enc.canon(inp["val"]))
    return "ok" in r_ and not ("ok" in r_["again"] and enc.canon(r_["again"]["ok"]) == enc.canon(r_["ok"]))
