"""C16 — Type-context lookups see through aliases and references."""
from __future__ import annotations

import json
import sys
import types
import typing

from .. import core, enc, iso, lean
from ..runner import Result
from .naming_corr import naming_correspondence, naming_replay

ID = "C16"
LEVEL = "proof"
LEVEL_TEXT = ("Kernel-checked refinement theorem C16.ctx_refines: for EVERY finite sequence of operations (insert / [] / get with "
              "default / in; induction on the list, no length bound) in which insertions use keys the user has not inserted before "
              "and `in` is asked for stored keys, a fresh TypeContext (model of ctx.py with its __missing__ memoisation and the "
              "re-entrant self[ref]) produces exactly the outputs of the reference model of the statement (plain dict, lookup = "
              "S[k] <|> S[unwrap k] <|> S[fwd k], forward references only under themselves), for any key operations satisfying "
              "KeyLaws (unwrap idempotent, a ForwardRef unwraps to itself, forwardref returns a ForwardRef); corollaries "
              "lookup_stable / lookups_stable, stored_found, absent_raises_or_default; KeyLaws proved for the Lean mirror of the "
              "key family (familyLaws) and checked on the real inspection.unwrap / refs.forwardref on every run. The model is tied "
              "to /repo by a per-run differential correspondence (every enumerated and random operation sequence through the real "
              "TypeContext and through the compiled Lean model) and the property is also evaluated directly on the real class "
              "against an independent Python oracle. The forward-reference step itself — how refs.forwardref NAMES a class "
              "(qualified name, module) and what refs.evaluate finds under that name — has its own model and theorems "
              "(Model/Naming.lean, Props/Naming.lean: forwardref_roundtrip for every class of every well-formed namespace whatever "
              "its module and enclosing classes are called, forwardref_injective, text_roundtrip with its necessary hypothesis, "
              "local_class_unresolvable, found_iff_bound_at_declared), tied to /repo by harness/props/naming_corr.py on every run.")
LEVEL_NOTE = ("Trusted: Lean kernel; axioms propext, Classical.choice, Quot.sound (at most); the hand-written model Model/Ctx.lean "
              "(tied by correspondence, not verified against the Python source); the harness encoding of keys. The write-once and "
              "`in`-for-stored-keys side conditions are part of the property; each is shown necessary by a kernel-checked "
              "counterexample (write_once_needed, contains_observes_memo).")
TECHNIQUE = ("Lean 4 refinement proof (simulation invariant, induction on the operation list) over an executable model generic in the "
             "key type; bounded-exhaustive + random differential correspondence with the real TypeContext; independent Python oracle")
DESIGN_REF = "DESIGN.md §5 C16"
MODULES = ["TypelibModel.Props.C16", "TypelibModel.Props.Naming"]
TABLES = False
RULE = ("operation sequences over the closed key family (int, str, a synthesised generic dataclass Foo(Generic[T]), used unsubscripted) x {itself, NewType, TypeAliasType, "
        "string-valued TypeAliasType, Final[.], refs.forwardref(.)}: (a) ALL admissible sequences up to length L over the 6 family "
        "keys of one base type, for each base (18^n sequences of length n; quick L=4, thorough L=6); (a') ALL admissible sequences "
        "up to length X over those 6 keys plus the 3 forward references naming the NewType / alias / string alias (27^n; X=4) - "
        "without these the order 'unwrapped form before forward reference' is unobservable; (b) ALL admissible "
        "sequences up to length M over all 18 family keys (54^n; quick M=3, thorough M=4); (c) random admissible sequences of "
        "length M+1..40 over the family, the extended keys and ForwardRef('Final', module='typing'). Admissible = insertions use "
        "fresh keys, `in` only for stored keys; the op at position p stores value p+1 / passes a unique default object (random "
        "sequences also store repeated values). Enumerated sequences are nodes of a tree, hence pairwise distinct; (a') counts "
        "as distinct only sequences using an extra key, (b) only sequences touching >= 2 base types (the others are in (a)); random "
        "sequences are deduplicated by hash. A sequence is non-trivial when its last operation is a lookup ([] or get) that "
        "the reference model answers through a fallback (unwrapped form or forward reference) rather than by the key itself; for "
        "random sequences: when any of its lookups is. Each sequence runs on a fresh real TypeContext (replayed from scratch, no "
        "state copying). (d) naming: ~1300 synthesised namespaces (class trees nested up to two levels with classes named like "
        "their module / its dotted parts / ending with its name, shadowing top-level classes, same-named classes in two modules, "
        "function-local classes, NewTypes and TypeAliasTypes under their own and other names, namespaces Python does not "
        "guarantee): for every object refs.forwardref / inspection.qualname / name / refs.evaluate, and refs.forwardref(text, "
        "module=m) for every binding path bare and module-prefixed and for texts naming several module-qualified classes "
        "(`m.P | m.A.B`, `dict[str, m.P]`; evaluation against Python's own eval), against the Lean model; and for every class bound at its "
        "qualified name ctx[cls] / ctx.get(cls) with the value stored under typing.ForwardRef(__qualname__, module=__module__).")
ASSUMPTIONS = [
    "values are opaque to TypeContext (it never inspects them): distinct integers per position are the general case",
    "the dict contents are observed only through [], get and `in` on stored keys; the alias entries memoised by __missing__ are "
    "deliberately not observed (keys()/len()/in on alias keys are outside the property)",
    "ForwardRef equality is (__forward_arg__, __forward_module__): no reference of the family is ever evaluated by the check",
]
TRUSTED = ["harness/props/c16.py (key family construction, JSON key encoding, enumeration walker mirrored by Drv/Ctx.lean enumWalk)",
           "lean/TypelibModel/Drv/Ctx.lean (driver glue)",
           "hand-written model Model/Ctx.lean tied to ctx.py by this correspondence",
           "harness/props/naming_corr.py (namespace synthesis and extraction), lean/TypelibModel/Drv/Naming.lean, Model/Naming.lean"]

MODNAME = "c16_keys"
KEYS_SRC = '''
import dataclasses, typing

_T = typing.TypeVar("_T")

@dataclasses.dataclass
class Foo(typing.Generic[_T]):
    """a user class that is also an (unsubscripted) typing.Generic: names of such classes take a different path in inspection.qualname"""
    x: int = 0

IntNT = typing.NewType("IntNT", int)
StrNT = typing.NewType("StrNT", str)
FooNT = typing.NewType("FooNT", Foo)
IntAl = typing.TypeAliasType("IntAl", int)
StrAl = typing.TypeAliasType("StrAl", str)
FooAl = typing.TypeAliasType("FooAl", Foo)
IntSA = typing.TypeAliasType("IntSA", "int")
StrSA = typing.TypeAliasType("StrSA", "str")
FooSA = typing.TypeAliasType("FooSA", "Foo")
'''
BASES = ("int", "str", "Foo")
CAP = {"int": "Int", "str": "Str", "Foo": "Foo"}
SUFFIX = {"nt": "NT", "al": "Al", "sa": "SA"}
HOME = {"int": "builtins", "str": "builtins", "Foo": MODNAME}
ARGBASE = {**{b: b for b in BASES}, **{CAP[b] + sfx: b for b in BASES for sfx in SUFFIX.values()}}


class Dflt(int):
    """Default objects handed to get(): recognised by identity, never equal in type to a stored value."""


class Family:
    """The real key objects, created once per process (refs.forwardref / unwrap are cached process-wide)."""

    def __init__(self):
        core.import_typelib()
        from typelib import ctx as tctx
        from typelib.py import inspection, refs
        self.TypeContext = tctx.TypeContext
        self.unwrap = inspection.unwrap
        self.forwardref = refs.forwardref
        self.ForwardRef = refs.ForwardRef
        mod = sys.modules.get(MODNAME)
        if mod is None:
            mod = types.ModuleType(MODNAME)
            mod.__file__ = f"<{MODNAME}>"
            sys.modules[MODNAME] = mod
            exec(compile(KEYS_SRC, f"{MODNAME}.py", "exec"), mod.__dict__)
        self.mod = mod
        self.by_json = {}          # json key (tuple) -> object
        self.per_base = {}
        self.extended = {}
        for b in BASES:
            T = {"int": int, "str": str, "Foo": mod.Foo}[b]
            ks = [(("base", b), T),
                  (("nt", b), getattr(mod, CAP[b] + "NT")),
                  (("al", b), getattr(mod, CAP[b] + "Al")),
                  (("sa", b), getattr(mod, CAP[b] + "SA")),
                  (("final", b), typing.Final[T]),
                  (("ref", b, HOME[b]), typing.ForwardRef(T.__qualname__, module=HOME[b], is_class=True))]
            self.per_base[b] = [k for k, _ in ks]
            self.by_json.update(ks)
            # beyond the family: the forward references *naming* the three named wrappers (refs.forwardref(IntNT), …).
            # Only with them can "unwrapped form before forward reference" be observed at all.
            xs = [(("ref", CAP[b] + SUFFIX[w], MODNAME), typing.ForwardRef(CAP[b] + SUFFIX[w], module=MODNAME, is_class=True))
                  for w in ("nt", "al", "sa")]
            self.extended[b] = self.per_base[b] + [k for k, _ in xs]
            self.by_json.update(xs)
        self.family = [k for b in BASES for k in self.per_base[b]]
        # every Final[...] is named by the same reference ForwardRef('Final', module='typing')
        self.by_json[("ref", "Final", "typing")] = typing.ForwardRef("Final", module="typing", is_class=True)
        # the references are built independently of the library; what refs.forwardref makes of each named object is an observation
        self.naming = []
        for jk, o in list(self.by_json.items()):
            if jk[0] in ("base", "nt", "al", "sa"):
                want = ("ref", jk[1], HOME[jk[1]]) if jk[0] == "base" else ("ref", CAP[jk[1]] + SUFFIX[jk[0]], MODNAME)
                try:
                    got = refs.forwardref(o)
                    ok = got == self.by_json[want]
                    self.naming.append((jk, repr(got), ok))
                except Exception as e:  # noqa: BLE001
                    self.naming.append((jk, f"raised {type(e).__name__}: {e}"[:160], False))
        self.pool = [k for b in BASES for k in self.extended[b]] + [("ref", "Final", "typing")]

    def obj(self, jk):
        jk = tuple(jk)
        o = self.by_json.get(jk)
        if o is None and jk[0] == "ref":
            o = typing.ForwardRef(jk[1], module=jk[2], is_class=True)
        if o is None:
            raise KeyError(jk)
        return o

    def enc(self, o):
        """JSON key of a real key object (None if it is not a key of the closed family's closure)."""
        if isinstance(o, typing.ForwardRef):
            return ("ref", o.__forward_arg__, o.__forward_module__)
        for jk, x in self.by_json.items():
            if x is o:
                return jk
        for jk, x in self.by_json.items():
            if jk[0] == "final" and type(x) is type(o) and x == o:
                return jk
        return ("unknown", repr(o))


_FAMILY = None


def family():
    global _FAMILY
    if _FAMILY is None:
        _FAMILY = Family()
    return _FAMILY


# ---------------------------------------------------------------- independent oracle (symbolic keys)

def o_unwrap(k):
    tag = k[0]
    if tag in ("nt", "al", "final"):
        return ("base", k[1])
    if tag == "sa":
        return ("ref", k[1], MODNAME)          # the alias's value string, in the alias's module
    return k


def o_fwd(k):
    tag = k[0]
    if tag == "base":
        return ("ref", k[1], HOME[k[1]])
    if tag in SUFFIX:
        return ("ref", CAP[k[1]] + SUFFIX[tag], MODNAME)
    if tag == "final":
        return ("ref", "Final", "typing")
    return ("ref", k[1], "typing")


def o_lookup(S, k):
    """(value | None, how) — how in {'self','unwrap','fwd',None}."""
    if k in S:
        return S[k], "self"
    if k[0] == "ref":
        return None, None
    u = o_unwrap(k)
    if u in S:
        return S[u], "unwrap"
    f = o_fwd(k)
    if f in S:
        return S[f], "fwd"
    return None, None


def oracle_run(ops):
    """Outputs of the reference model of the statement + whether any lookup used a fallback."""
    S, outs, fallback = {}, [], False
    for op in ops:
        kind, k = op[0], tuple(op[1])
        if kind == "ins":
            S[k] = op[2]
            outs.append(None)
        elif kind == "item":
            v, how = o_lookup(S, k)
            fallback |= how in ("unwrap", "fwd")
            outs.append({"ok": v} if how else {"err": "key"})
        elif kind == "get":
            v, how = o_lookup(S, k)
            fallback |= how in ("unwrap", "fwd")
            outs.append({"ok": v} if how else {"default": op[2]})
        else:
            outs.append(k in S)
    return outs, fallback


def admissible(ops):
    S = set()
    for op in ops:
        k = tuple(op[1])
        if op[0] == "ins":
            if k in S:
                return False
            S.add(k)
        elif op[0] == "in" and k not in S:
            return False
    return True


# ---------------------------------------------------------------- the real TypeContext

def real_run(ops):
    """Run JSON ops on a fresh real TypeContext; observable outputs in the driver's format."""
    F = family()
    c = F.TypeContext()
    outs = []
    for op in ops:
        kind, k = op[0], F.obj(op[1])
        try:
            if kind == "ins":
                c[k] = op[2]
                outs.append(None)
            elif kind == "item":
                outs.append({"ok": c[k]})
            elif kind == "get":
                d = Dflt(op[2])
                r = c.get(k, d)
                outs.append({"default": int(d)} if r is d else {"ok": r})
            else:
                outs.append(bool(k in c))
        except BaseException as e:  # noqa: BLE001
            outs.append({"err": enc.err_class(e)})
    return outs


def _real_batch(batch):
    return [real_run(ops) for ops in batch]


# ---------------------------------------------------------------- enumeration (mirrors Drv/Ctx.lean enumWalk)

def _ok_code(r):
    return str(r) if type(r) is int and 0 <= r <= 9 else "#"


def _enum_real(job):
    """All admissible extensions of job['prefix'] by 1..depth ops over job['keys'], depth-first pre-order; one
    character per node = code of the output of the node's last op, on the real TypeContext (replayed from scratch)
    and on the oracle."""
    F = family()
    TC = F.TypeContext
    jkeys = [tuple(k) for k in job["keys"]]
    objs = [F.obj(k) for k in jkeys]
    nk = len(jkeys)
    base_bit = {b: 1 << i for i, b in enumerate(BASES)}
    bits = [base_bit.get(ARGBASE.get(k[1]), 0) | (8 if (k[0] == "ref" and k[1] not in BASES) else 0) for k in jkeys]
    count_rule = job.get("count", "all")      # which nodes are not already nodes of another tree
    real_out, orc_out = [], []
    stat = {"n": 0, "nt": 0}

    def replay(seq):
        c = TC()
        for kind, ki, v in seq:
            k = objs[ki]
            try:
                if kind == 0:
                    c[k] = v
                elif kind == 1:
                    c[k]
                elif kind == 2:
                    c.get(k, v)
                else:
                    k in c
            except BaseException:  # noqa: BLE001
                pass
        return c

    def apply(c, kind, k, v):
        try:
            if kind == 0:
                c[k] = v
                return "U"
            if kind == 1:
                return _ok_code(c[k])
            if kind == 2:
                r = c.get(k, v)
                return "D" if r is v else _ok_code(r)
            return "T" if (k in c) else "F"
        except KeyError:
            return "K"
        except RecursionError:
            return "R"
        except BaseException:  # noqa: BLE001
            return "X"

    def visit(seq, S, pos, remaining, mask):
        stored = [ki for ki in range(nk) if jkeys[ki] in S]
        cand = [(0, ki) for ki in range(nk) if jkeys[ki] not in S]
        cand += [(1, ki) for ki in range(nk)]
        cand += [(2, ki) for ki in range(nk)]
        cand += [(3, ki) for ki in stored]
        for kind, ki in cand:
            jk = jkeys[ki]
            v = (pos + 1) if kind == 0 else (Dflt(-(pos + 1)) if kind == 2 else None)
            c = replay(seq)
            real_out.append(apply(c, kind, objs[ki], v))
            S2 = S
            nontrivial = False
            if kind == 0:
                orc_out.append("U")
                S2 = dict(S)
                S2[jk] = v
            elif kind == 3:
                orc_out.append("T" if jk in S else "F")
            else:
                val, how = o_lookup(S, jk)
                nontrivial = how in ("unwrap", "fwd")
                orc_out.append(_ok_code(val) if how else ("K" if kind == 1 else "D"))
            m2 = mask | bits[ki]
            stat["n"] += 1
            if nontrivial and (count_rule == "all" or (count_rule == "multi_base" and m2 not in (1, 2, 4))
                               or (count_rule == "uses_extra" and m2 & 8)):
                stat["nt"] += 1
            if remaining > 1:
                visit(seq + [(kind, ki, v)], S2, pos + 1, remaining - 1, m2)

    # the prefix (explicit JSON ops) replayed symbolically
    seq, S, mask = [], {}, 0
    for p, op in enumerate(job["prefix"]):
        ki = jkeys.index(tuple(op[1]))
        kind = {"ins": 0, "item": 1, "get": 2, "in": 3}[op[0]]
        v = op[2] if kind == 0 else (Dflt(op[2]) if kind == 2 else None)
        seq.append((kind, ki, v))
        if kind == 0:
            S[jkeys[ki]] = v
        mask |= bits[ki]
    visit(seq, S, len(seq), job["depth"], mask)
    return {"real": "".join(real_out), "oracle": "".join(orc_out), "n": stat["n"], "nt": stat["nt"]}


def _sym_children(jkeys, S, pos):
    """Admissible JSON ops at a node, canonical order."""
    out = [["ins", list(k), pos + 1] for k in jkeys if k not in S]
    out += [["item", list(k)] for k in jkeys]
    out += [["get", list(k), -(pos + 1)] for k in jkeys]
    out += [["in", list(k)] for k in jkeys if k in S]
    return out


def _sequences_of_length(jkeys, n):
    """All admissible JSON op sequences of exactly n ops (canonical values)."""
    res = []

    def go(seq, S):
        if len(seq) == n:
            res.append(seq)
            return
        for op in _sym_children(jkeys, S, len(seq)):
            go(seq + [op], S | {tuple(op[1])} if op[0] == "ins" else S)
    go([], frozenset())
    return res


def _node_at(job, index):
    """The op sequence of the index-th node (pre-order) of an enumeration job."""
    jkeys = [tuple(k) for k in job["keys"]]
    S0 = frozenset(tuple(op[1]) for op in job["prefix"] if op[0] == "ins")
    counter = [0]

    def go(seq, S, remaining):
        for op in _sym_children(jkeys, S, len(seq)):
            s2 = seq + [op]
            if counter[0] == index:
                return s2
            counter[0] += 1
            if remaining > 1:
                r = go(s2, S | {tuple(op[1])} if op[0] == "ins" else S, remaining - 1)
                if r is not None:
                    return r
        return None
    return go(list(job["prefix"]), S0, job["depth"])


def _enum_jobs(jkeys, total_depth, split, **extra):
    """Jobs covering every admissible sequence of length 1..total_depth over jkeys."""
    keys = [list(k) for k in jkeys]
    split = min(split, total_depth - 1) if total_depth > 1 else 0
    if split <= 0:
        return [dict(keys=keys, prefix=[], depth=total_depth, **extra)]
    jobs = [dict(keys=keys, prefix=[], depth=split, **extra)]
    for pre in _sequences_of_length(jkeys, split):
        jobs.append(dict(keys=keys, prefix=pre, depth=total_depth - split, **extra))
    return jobs


# ---------------------------------------------------------------- key laws on the real functions

def check_key_laws(res):
    """KeyLaws of the theorem, on the real inspection.unwrap / refs.forwardref / isinstance(., ForwardRef), for every key
    of the family and of its closure under unwrap and fwd; and agreement of the Lean mirror (and of the oracle's tables)
    with the real functions on those keys."""
    F = family()
    closure, todo = {}, [F.obj(k) for k in F.family]
    for jk in F.family:
        closure[jk] = F.obj(jk)
    while todo:
        o = todo.pop()
        steps = []
        for fn in (F.unwrap, F.forwardref):
            try:
                steps.append(fn(o))
            except Exception as e:  # noqa: BLE001  (a key function that raises on a key of the family: reported, not a crash)
                res.failures.append({"what": f"{fn.__name__}({o!r}) raised {type(e).__name__}: {e}"[:220] + " on a key of the family",
                                     "input": {"naming": [repr(o)]}})
        for nxt in steps:
            jk = F.enc(nxt)
            if jk not in closure:
                closure[jk] = nxt
                todo.append(nxt)
    items = list(closure.items())

    def bad(what, jk, real, expected):
        res.count("keylaw:BROKEN")
        res.disagreements.append({"what": f"keylaw:{what}", "input": {"key": list(jk)}, "real": real, "model": expected})

    # the encoding is injective exactly where Python identifies dict keys
    for i, (ja, a) in enumerate(items):
        try:
            hash(a)
        except TypeError:
            bad("hashable", ja, "unhashable", "hashable")
            continue
        if ja[0] == "unknown":
            bad("closed-family", ja, repr(a), "a key of the family's closure")
        for jb, b in items[i + 1:]:
            same = (a == b) and hash(a) == hash(b)
            if same:
                bad("distinct-keys", ja, f"{a!r} == {b!r}", f"{list(ja)} != {list(jb)}")
    lines = [{"op": "ctx.keyops", "key": list(jk)} for jk, _ in items if jk[0] != "unknown"]
    model = lean.drive(lines)
    mi = iter(model)
    for jk, o in items:
        if jk[0] == "unknown":
            continue
        m = next(mi)
        try:
            u, f, r = F.unwrap(o), F.forwardref(o), isinstance(o, F.ForwardRef)
        except Exception as e:  # noqa: BLE001
            bad("key-function-raises", jk, f"{type(e).__name__}: {e}"[:200], m)
            continue
        ju, jf = F.enc(u), F.enc(f)
        res.count("keylaw:keys")
        if F.unwrap(u) != u:
            bad("unwrap_idem", jk, repr(F.unwrap(u)), repr(u))
        if r and u is not o and u != o:
            bad("ref_unwrap", jk, repr(u), repr(o))
        if not isinstance(f, F.ForwardRef):
            bad("fwd_ref", jk, repr(f), "a ForwardRef")
        real = {"unwrap": list(ju), "fwd": list(jf), "isRef": r}
        if "bad" in m or real != m:
            bad("lean-mirror", jk, real, m)
        orc = {"unwrap": list(o_unwrap(jk)), "fwd": list(o_fwd(jk)), "isRef": jk[0] == "ref"}
        if real != orc:
            bad("oracle-tables", jk, real, orc)
    res.extra["key_closure"] = len(items)
    return len(items)


# ---------------------------------------------------------------- random sequences

def random_ops(rng, F, min_len, max_len):
    n = rng.randint(min_len, max_len)
    mode = rng.random()
    if mode < 0.25:
        pool = list(F.per_base[rng.choice(BASES)])
    elif mode < 0.5:
        pool = list(F.extended[rng.choice(BASES)])
    elif mode < 0.7:
        bs = rng.sample(BASES, 2)
        pool = F.extended[bs[0]] + F.extended[bs[1]]
    elif mode < 0.85:
        pool = list(F.family)
    else:
        pool = list(F.pool)
    p_ins = rng.choice((0.15, 0.3, 0.5))
    small_values = rng.random() < 0.3          # repeated values: entries with equal values under different keys
    ops, stored = [], []
    for p in range(n):
        fresh = [k for k in pool if k not in stored]
        r = rng.random()
        if fresh and (r < p_ins or (not stored and r < 0.6)):
            k = rng.choice(fresh)
            ops.append(["ins", list(k), rng.randint(1, 3) if small_values else p + 1])
            stored.append(k)
        elif stored and r > 0.92:
            ops.append(["in", list(rng.choice(stored))])
        elif rng.random() < 0.5:
            ops.append(["item", list(rng.choice(pool))])
        else:
            ops.append(["get", list(rng.choice(pool)), -(p + 1)])
    return ops


# ---------------------------------------------------------------- explore

def _first_diff(a, b):
    for i, (x, y) in enumerate(zip(a, b)):
        if x != y:
            return i
    return min(len(a), len(b))


def _compare_full(res, ops, real, model, where):
    """One fully-observed sequence: correspondence with the Lean concrete model + oracle."""
    orc, _ = oracle_run(ops)
    inp = {"ops": ops}
    if "bad" in model:
        raise RuntimeError(f"driver rejected a generated sequence: {model}")
    if not model.get("valid"):
        raise RuntimeError(f"harness generated an inadmissible sequence: {ops}")
    if real == model["concrete"]:
        res.count(f"{where}:agree")
    else:
        i = _first_diff(real, model["concrete"])
        res.count(f"{where}:DISAGREE")
        res.disagreements.append({"what": f"ctx.run output #{i}", "input": inp, "real": real, "model": model["concrete"]})
    if model["spec"] != orc:
        res.count(f"{where}:ORACLE!=LEANSPEC")
        res.disagreements.append({"what": "Lean reference model vs Python oracle", "input": inp, "real": orc, "model": model["spec"]})
    if real != orc:
        i = _first_diff(real, orc)
        res.failures.append({"what": f"TypeContext disagrees with the reference model at operation #{i}: "
                                     f"{json.dumps(ops[i]) if i < len(ops) else '?'} gave {json.dumps(real[i]) if i < len(real) else '?'}, "
                                     f"reference says {json.dumps(orc[i]) if i < len(orc) else '?'}",
                             "input": inp, "real": real, "expected": orc})
    else:
        res.count(f"{where}:oracle-ok")


def _run_enum(jobs):
    """The same enumeration jobs on the real TypeContext (forked children) and on the Lean driver (4 processes)."""
    from concurrent.futures import ThreadPoolExecutor
    real = iso.map_isolated(_enum_real, jobs, timeout=900.0)
    nchunk = 4 if len(jobs) >= 8 else 1
    chunks = [jobs[i::nchunk] for i in range(nchunk)]
    with ThreadPoolExecutor(nchunk) as ex:
        parts = list(ex.map(lambda ch: lean.drive([{"op": "ctx.enum", "keys": j["keys"], "prefix": j["prefix"], "depth": j["depth"]}
                                                   for j in ch], timeout=1500) if ch else [], chunks))
    model = [None] * len(jobs)
    for ci, part in enumerate(parts):
        for j, m in zip(range(ci, len(jobs), nchunk), part):
            model[j] = m
    return real, model


# ---- wrapper chains deeper than the closed family (oracle only): "its unwrapped form" means unwrapped all the way
DEEP_SRC = """
import dataclasses, typing
@dataclasses.dataclass
class K:
    x: int = 0
A = typing.TypeAliasType("A", K)
S = typing.TypeAliasType("S", "K")
N = typing.NewType("N", K)
NA = typing.NewType("NA", A)
NS = typing.NewType("NS", S)
NN = typing.NewType("NN", N)
NNA = typing.NewType("NNA", NA)
AN = typing.TypeAliasType("AN", N)
AA = typing.TypeAliasType("AA", A)
ANA = typing.TypeAliasType("ANA", NA)
IA = typing.TypeAliasType("IA", int)
NIA = typing.NewType("NIA", IA)
@dataclasses.dataclass
class Item:
    n: int = 0
class Order:
    @dataclasses.dataclass
    class Item:
        # a class nested in a class, named like a top-level one: the reference naming it carries its QUALIFIED name
        m: int = 0
NOI = typing.NewType("NOI", Order.Item)
@typing.final
@dataclasses.dataclass
class Sealed:
    # a class marked @typing.final is an ordinary key (the decorator is not the Final[...] qualifier)
    x: int = 0
NSealed = typing.NewType("NSealed", Sealed)
ASealed = typing.TypeAliasType("ASealed", Sealed)
class _Registry(type):
    # a class object that is FALSY (an empty registry): a key like any other
    def __len__(cls):
        return 0
class Shelf(metaclass=_Registry):
    pass
class _Off(type):
    def __bool__(cls):
        return False
class Flag(metaclass=_Off):
    pass
NShelf = typing.NewType("NShelf", Shelf)
AShelf = typing.TypeAliasType("AShelf", Shelf)
FShelf = typing.TypeAliasType("FShelf", typing.Final[Shelf])
NFShelf = typing.NewType("NFShelf", typing.Final[Shelf])
Mode = typing.Literal["r", "w"]
ModeAlias = typing.TypeAliasType("ModeAlias", typing.Literal["r", "w"])
# an alias whose VALUE is a qualified type (a class-level constant given a name)
SharedInt = typing.TypeAliasType("SharedInt", typing.ClassVar[int])
SharedK = typing.TypeAliasType("SharedK", typing.ClassVar[K])
NSharedK = typing.NewType("NSharedK", SharedK)
Limit = typing.TypeAliasType("Limit", typing.Final[int])
LimitK = typing.TypeAliasType("LimitK", typing.Final[K])
NLimitK = typing.NewType("NLimitK", LimitK)
"""
# (wrapper expression, base expression, intermediate wrappers that a caller may look up in between)
DEEP_CHAINS = [("NA", "K", ["A"]), ("NN", "K", ["N"]), ("NNA", "K", ["NA", "A"]), ("AN", "K", ["N"]), ("AA", "K", ["A"]),
               ("ANA", "K", ["NA", "A"]), ("typing.Final[NA]", "K", ["NA", "A"]), ("typing.Final[AN]", "K", ["AN", "N"]),
               ("typing.ClassVar[NA]", "K", ["NA"]), ("NIA", "int", ["IA"]), ("typing.Final[NIA]", "int", ["NIA", "IA"]),
               ("Sealed", "Sealed", []), ("NSealed", "Sealed", []), ("ASealed", "Sealed", []), ("typing.Final[Sealed]", "Sealed", ["NSealed"]),
               ("typing.ClassVar[ASealed]", "Sealed", ["ASealed"]),
               # a qualified LITERAL unwraps to the literal like any other qualified type
               ("typing.ClassVar[typing.Literal['r', 'w']]", "Mode", []), ("typing.Final[typing.Literal['r', 'w']]", "Mode", []),
               ("ModeAlias", "Mode", []), ("typing.ClassVar[ModeAlias]", "Mode", ["ModeAlias"]), ("typing.Final[ModeAlias]", "Mode", ["ModeAlias"]),
               ("SharedInt", "int", []), ("SharedK", "K", ["A"]), ("NSharedK", "K", ["SharedK"]),
               ("Limit", "int", []), ("LimitK", "K", ["A"]), ("NLimitK", "K", ["LimitK"]), ("typing.ClassVar[Limit]", "int", ["Limit"]),
               # falsy class objects under every wrapper
               ("Shelf", "Shelf", []), ("NShelf", "Shelf", []), ("AShelf", "Shelf", []), ("typing.Final[Shelf]", "Shelf", []),
               ("typing.ClassVar[Shelf]", "Shelf", []), ("FShelf", "Shelf", []), ("NFShelf", "Shelf", []), ("typing.Final[NShelf]", "Shelf", ["NShelf"]),
               ("typing.ClassVar[AShelf]", "Shelf", ["AShelf"]), ("typing.Final[Flag]", "Flag", []), ("typing.ClassVar[Flag]", "Flag", []),
               ("typing.Optional[Flag]", "typing.Optional[Flag]", [])]


def _deep_child(_job):
    import warnings
    warnings.simplefilter("ignore")
    from typelib import ctx as tctx
    mod = types.ModuleType("c16_deep")
    sys.modules["c16_deep"] = mod
    ns = mod.__dict__
    exec(compile(DEEP_SRC, "c16_deep.py", "exec"), ns)
    bad = []
    v, d = object(), object()

    # (lookups go through guards: an exception other than KeyError is an observation, not a crash of the probe)
    def look(c, k):
        try:
            return c[k]
        except KeyError:
            return KeyError
        except Exception as e:  # noqa: BLE001
            return ("raised", type(e).__name__)

    def get(c, k, dflt):
        try:
            return c.get(k, dflt)
        except Exception as e:  # noqa: BLE001
            return ("raised", type(e).__name__)
    for w, b, mids in DEEP_CHAINS:
        W, B = eval(w, ns), eval(b, ns)
        c = tctx.TypeContext()
        c[B] = v
        if look(c, W) is not v:
            bad.append([w, f"ctx[{b}] = v; ctx[{w}] is {'KeyError' if look(c, W) is KeyError else 'another value'}, not v (the value stored under its unwrapped form)"])
        c = tctx.TypeContext()
        c[B] = v
        g1 = get(c, W, d)
        for m in mids:
            get(c, eval(m, ns), d)
            look(c, eval(m, ns))
        g2 = get(c, W, d)
        if g1 is not v or g2 is not v:
            bad.append([w, f"ctx[{b}] = v; get({w}, d) is {'v' if g1 is v else 'd'} before and {'v' if g2 is v else 'd'} after looking up {mids}: must be v both times"])
        c = tctx.TypeContext()
        if look(c, W) is not KeyError or get(c, W, d) is not d:
            bad.append([w, f"absent key {w}: subscription must raise KeyError and get must give the default"])
        for m in mids:
            look(c, eval(m, ns))
        if look(c, W) is not KeyError or get(c, W, d) is not d:
            bad.append([w, f"absent key {w} after looking up {mids} (all absent): must still be absent"])
    # nested classes: found under the forward reference naming them by qualified name, and only under that one
    top, nested = object(), object()
    c = tctx.TypeContext()
    c[typing.ForwardRef("Item", module="c16_deep", is_class=True)] = top
    c[typing.ForwardRef("Order.Item", module="c16_deep", is_class=True)] = nested
    for w, want, label in (("Item", top, "top"), ("Order.Item", nested, "nested")):
        got = look(c, eval(w, ns))
        if got is not want:
            bad.append([w, f"values stored under ForwardRef('Item') and ForwardRef('Order.Item'): ctx[{w}] is "
                           f"{'KeyError' if got is KeyError else ('the top-level one' if got is top else 'the nested one')}, expected the {label} one"])
    c = tctx.TypeContext()
    c[typing.ForwardRef("Item", module="c16_deep", is_class=True)] = top
    if look(c, ns["Order"].Item) is not KeyError or get(c, ns["Order"].Item, d) is not d:
        bad.append(["Order.Item", "only ForwardRef('Item') (the top-level class) is stored: ctx[Order.Item] must be absent"])
    # a string-valued alias unwraps to the reference in its value: a NewType over it finds what is stored under that reference
    r = object()
    c = tctx.TypeContext()
    c[typing.ForwardRef("K", module="c16_deep", is_class=True)] = r
    for w in ("S", "NS"):
        if look(c, eval(w, ns)) is not r:
            bad.append([w, f"ctx[ForwardRef('K', module)] = r; ctx[{w}] is not r"])
    # a string-valued alias whose text names a class that does not exist (yet) at the time of the lookup -- a forward declaration, or
    # the name of a function-local class: the key is still a key (absent: KeyError / default; found under the reference in its value)
    exec("Fwd = typing.TypeAliasType('Fwd', 'Later')\nNFwd = typing.NewType('NFwd', Fwd)\nLoc = typing.TypeAliasType('Loc', 'Local')\n"
         "AFwd = typing.TypeAliasType('AFwd', Fwd)\n"
         "def make_local():\n    @dataclasses.dataclass\n    class Local:\n        x: int = 0\n    return Local\nLocalCls = make_local()\n", ns)
    for w, text in (("Fwd", "Later"), ("NFwd", "Later"), ("AFwd", "Later"), ("typing.Final[Fwd]", "Later"), ("Loc", "Local")):
        W = eval(w, ns)
        c = tctx.TypeContext()
        if look(c, W) is not KeyError or get(c, W, d) is not d:
            bad.append([w, f"absent key {w} (a string-valued alias of the not yet defined {text!r}): subscription gives {look(c, W)!r}, "
                           f"get gives {'the default' if get(c, W, d) is d else get(c, W, d)!r}; expected KeyError and the default"])
        c[typing.ForwardRef(text, module="c16_deep", is_class=True)] = r
        if look(c, W) is not r or get(c, W, d) is not r:
            bad.append([w, f"ctx[ForwardRef({text!r}, module)] = r; ctx[{w}] gives {look(c, W)!r}, not r"])
    # a string-valued alias declared in a SUBMODULE of a package, its text the bare name or the fully qualified one: both unwrap to
    # the reference naming the class in its defining module, the key under which forwardref(Order) stores
    pkg, sub = types.ModuleType("c16_shop"), types.ModuleType("c16_shop.models")
    pkg.__path__ = []
    pkg.models = sub
    sys.modules["c16_shop"], sys.modules["c16_shop.models"] = pkg, sub
    exec(compile("import dataclasses, typing\n@dataclasses.dataclass\nclass Order:\n    n: int = 0\n"
                 "OrderShort = typing.TypeAliasType('OrderShort', 'Order')\n"
                 "OrderQualified = typing.TypeAliasType('OrderQualified', 'c16_shop.models.Order')\n"
                 "NOrderQ = typing.NewType('NOrderQ', OrderQualified)\n", "c16_shop/models.py", "exec"), sub.__dict__)
    from typelib.py import refs as trefs
    for stored, label in ((typing.ForwardRef("Order", module="c16_shop.models", is_class=True), "ForwardRef('Order', module='c16_shop.models')"),
                          (trefs.forwardref(sub.Order), "refs.forwardref(Order)")):
        for w in ("OrderShort", "OrderQualified", "NOrderQ"):
            c = tctx.TypeContext()
            W = getattr(sub, w)
            if look(c, W) is not KeyError or get(c, W, d) is not d:
                bad.append([w, f"absent key c16_shop.models.{w}: expected KeyError and the default"])
            c[stored] = r
            if look(c, W) is not r or get(c, W, d) is not r:
                bad.append([w, f"ctx[{label}] = r; ctx[{w}] (a string-valued alias declared in c16_shop.models, text "
                               f"{getattr(W, '__value__', None)!r}) gives {look(c, W)!r}, not r"])
    # a plain class is a plain key wherever it lives: a project module called `typing` (acme.typing), a class whose own name has
    # `typing.` or a bracket in it
    apkg, asub = types.ModuleType("c16_acme"), types.ModuleType("c16_acme.typing")
    apkg.__path__ = []
    apkg.typing = asub
    sys.modules["c16_acme"], sys.modules["c16_acme.typing"] = apkg, asub
    exec(compile("import dataclasses, typing\n@dataclasses.dataclass\nclass Account:\n    n: int = 0\n"
                 "NAccount = typing.NewType('NAccount', Account)\nAAccount = typing.TypeAliasType('AAccount', Account)\n",
                 "c16_acme/typing.py", "exec"), asub.__dict__)
    for w in ("Account", "NAccount", "AAccount"):
        W = getattr(asub, w)
        c = tctx.TypeContext()
        if look(c, W) is not KeyError or get(c, W, d) is not d:
            bad.append([w, f"absent key c16_acme.typing.{w}: subscription gives {look(c, W)!r}, get gives "
                           f"{'the default' if get(c, W, d) is d else get(c, W, d)!r}; expected KeyError and the default"])
        if w == "Account":          # (the reference names the KEY: the wrappers are found under the class, below)
            c[typing.ForwardRef("Account", module="c16_acme.typing", is_class=True)] = r
            if look(c, W) is not r or get(c, W, d) is not r:
                bad.append([w, f"ctx[ForwardRef('Account', module='c16_acme.typing')] = r; ctx[{w}] gives {look(c, W)!r}, not r"])
        c = tctx.TypeContext()
        c[asub.Account] = r
        if look(c, W) is not r:
            bad.append([w, f"ctx[Account] = r (a class of the module c16_acme.typing); ctx[{w}] gives {look(c, W)!r}, not r"])
    c = tctx.TypeContext()
    c[typing.ForwardRef("Later", module="c16_deep", is_class=True)] = r
    before = look(c, ns["Fwd"])
    exec("@dataclasses.dataclass\nclass Later:\n    x: int = 0\n", ns)      # the class comes into existence between two lookups
    if before is not r or look(c, ns["Fwd"]) is not r or look(c, ns["NFwd"]) is not r:
        bad.append(["Fwd", "ctx[ForwardRef('Later', module)] = r; ctx[Fwd] must be r before and after the class Later is defined"])
    # references made from a bare NAME (no module given) where the class is visible to the calling code only as a variable of a
    # function -- a plain local, a local that a nested function also uses (a cell), a free variable of the nested function that
    # makes the reference: the reference names the class's own module, so the class finds what is stored under it
    def closure_cases():
        from fractions import Fraction
        from pathlib import PurePath
        from uuid import UUID

        def uses():
            return UUID
        r1 = trefs.forwardref("UUID")

        def inner():
            return trefs.forwardref("PurePath"), PurePath
        return [("UUID (a cell variable of the caller)", r1, UUID), ("PurePath (a free variable of the nested caller)", inner()[0], PurePath),
                ("Fraction (a plain local of the caller)", trefs.forwardref("Fraction"), Fraction)]
    for label, ref, cls in closure_cases():
        c = tctx.TypeContext()
        c[ref] = r
        if look(c, cls) is not r or get(c, cls, d) is not r or ref not in c:
            bad.append([label, f"ctx[forwardref({label.split()[0]!r})] = r with the stored reference {ref!r}; ctx[{cls.__name__}] gives "
                               f"{look(c, cls)!r}, get gives {'the default' if get(c, cls, d) is d else 'r' if get(c, cls, d) is r else 'another value'}"])
    return bad


def deep_wrappers(res):
    from .. import iso
    bad = iso.map_isolated(_deep_child, [None], timeout=60.0)[0]
    if not isinstance(bad, list):
        raise RuntimeError(f"harness: deep-wrapper probe failed: {bad}")
    for w, _, _ in DEEP_CHAINS:
        res.case({"deep_wrapper": w}, True)
    for w, what in bad:
        res.failures.append({"what": what, "input": {"deep_wrapper": w}})
    if not bad:
        res.count("oracle:deep-wrapper-chains-unwrap-all-the-way", len(DEEP_CHAINS))


def explore(ctx):
    res = Result()
    res.rule = RULE
    F = family()
    quick = ctx.tier == "quick"
    L = 4 if quick else 6          # exhaustive length, the 6 family keys of one base type
    X = 4                      # exhaustive length, the 9 keys of one base type incl. the references naming its wrappers
    M = 3 if quick else 4          # exhaustive length, all 18 family keys
    if ctx.scale > 1 and quick:
        L, X, M = 5, 5, 3

    # 0. the hypotheses of the theorem, on the real key functions
    for jk, shown, ok in F.naming:
        res.case({"forwardref_of": list(jk)}, True)
        if not ok:
            res.failures.append({"what": f"refs.forwardref({list(jk)}) is {shown}: not the forward reference naming that type (the third lookup step of "
                                         "TypeContext cannot find a value stored under it)", "input": {"naming": list(jk)}})
        else:
            res.count("oracle:forwardref-names-the-type")
    check_key_laws(res)
    deep_wrappers(res)

    # 0'. the two witnesses showing why the property restricts itself (theorems write_once_needed, contains_observes_memo):
    #     outside the property, so recorded only — never an alarm (a TypeContext that did not memoise would not show them)
    W = {"stale-memo-after-reinsert": [["ins", ["base", "int"], 1], ["item", ["nt", "int"]], ["ins", ["base", "int"], 2], ["item", ["nt", "int"]]],
         "in-sees-memoised-alias": [["ins", ["base", "int"], 1], ["item", ["nt", "int"]], ["in", ["nt", "int"]]],
         "in-before-lookup": [["ins", ["base", "int"], 1], ["in", ["nt", "int"]]]}
    wm = lean.drive([{"op": "ctx.run", "ops": ops} for ops in W.values()])
    for (name, ops), m in zip(W.items(), wm):
        r = real_run(ops)
        res.count(f"outside-property:{name}:" + ("real=model" if r == m.get("concrete") else "real!=model")
                  + ("" if r != oracle_run(ops)[0] else "(=reference)"))

    # 1. bounded-exhaustive enumeration
    jobs = []
    for b in BASES:
        for j in _enum_jobs(F.per_base[b], L, 2, label=f"base:{b}"):
            jobs.append(j)
        for j in _enum_jobs(F.extended[b], X, 2 if X >= 4 else 1, label=f"extended:{b}", count="uses_extra"):
            jobs.append(j)
    jobs += _enum_jobs(F.family, M, 2 if M >= 4 else 1, label="all", count="multi_base")
    enumerated = nontrivial = 0
    per_label = {}
    mismatching = []
    # shallow part of every tree first; the deep part only if the shallow part is clean (a breaking change that already
    # shows on sequences of length <= 2 is reported at once instead of after 10^5..10^8 failing nodes)
    phases = [[j for j in jobs if not j["prefix"]], [j for j in jobs if j["prefix"]]]
    for pi, pjobs in enumerate(phases):
        if pi == 1 and mismatching:
            res.count("enum:deep-part-skipped(jobs)", len(pjobs))
            break
        if not pjobs:
            continue
        real, model = _run_enum(pjobs)
        for job, r, m in zip(pjobs, real, model):
            if not isinstance(r, dict) or "crash" in r:
                raise RuntimeError(f"harness: enumeration child failed: {r}")
            if "bad" in m:
                raise RuntimeError(f"driver: {m}")
            enumerated += r["n"]
            nontrivial += r["nt"]
            per_label[job["label"]] = per_label.get(job["label"], 0) + r["n"]
            if m["n"] != r["n"]:
                raise RuntimeError(f"harness: enumeration trees differ in size ({r['n']} vs {m['n']}) for {job['prefix']}")
            spec = m["spec"] if m.get("spec") is not None else m["concrete"]
            for what, a, b_ in (("corr", r["real"], m["concrete"]), ("oracle", r["real"], r["oracle"]),
                                ("leanspec", r["oracle"], spec)):
                if a != b_:
                    res.count(f"enum:{what}:mismatching-nodes", sum(1 for x, y in zip(a, b_) if x != y))
                    mismatching.append((job, what, _first_diff(a, b_)))
    # reproduce the first few mismatches as fully observed sequences (shortest first)
    repro = []
    for job, what, i in mismatching:
        repro.append((what, job, i, _node_at(job, i)))
    repro.sort(key=lambda t: len(t[3]))
    repro = repro[:8]
    if repro:
        fm = lean.drive([{"op": "ctx.run", "ops": ops} for _, _, _, ops in repro])
        for (what, job, i, ops), m in zip(repro, fm):
            before = len(res.disagreements) + len(res.failures)
            _compare_full(res, ops, real_run(ops), m, "enum-repro")
            if len(res.disagreements) + len(res.failures) == before:
                # the streams differ but the replay agrees: the walkers are out of step (harness defect)
                raise RuntimeError(f"harness: enumeration streams differ ({what}) at node {i} of {job['label']} "
                                   f"prefix={job['prefix']} but the sequence replays fine: {ops}")
    res.evaluations += enumerated
    res.count("enum:sequences", enumerated)
    res.count("enum:jobs", len(jobs))
    for k, v in per_label.items():
        res.count(f"enum:{k}", v)
    res.count("enum:nontrivial-distinct", nontrivial)
    # a few enumerated sequences written out
    for j in (jobs[len(jobs) // 3], jobs[-1]):
        ops = _node_at(j, min(40, j["depth"] * 7))
        if ops:
            res.samples.append({"ops": ops, "real": real_run(ops)})

    # 2. random long sequences, fully observed
    n = ctx.n(3000, 40000)
    if mismatching:
        n = min(n, 500)
    seqs = [random_ops(ctx.rng, F, M + 1, 40) for _ in range(n)]
    for d in ctx.focus:
        if isinstance(d, dict) and "ops" in d and admissible(d["ops"]):
            seqs.append(d["ops"])
    nb = max(1, min(16, len(seqs) // 200))
    batches = [seqs[i::nb] for i in range(nb)]
    rparts = iso.map_isolated(_real_batch, batches, timeout=600.0)
    real_r = [None] * len(seqs)
    for bi, part in enumerate(rparts):
        if isinstance(part, dict) and "crash" in part:
            raise RuntimeError(f"harness: {part}")
        for j, o in zip(range(bi, len(seqs), nb), part):
            real_r[j] = o
    model_r = lean.drive([{"op": "ctx.run", "ops": ops} for ops in seqs])
    keys_before = len(res.keys)
    for ops, r, m in zip(seqs, real_r, model_r):
        _, fb = oracle_run(ops)
        res.case({"ops": ops}, fb)
        res.count("random:len", len(ops))
        _compare_full(res, ops, r, m, "random")
    res.extra["distinct_nontrivial"] = nontrivial + (len(res.keys) - keys_before)
    res.extra["enumerated_sequences"] = enumerated
    res.extra["exhaustive_up_to_length"] = {"per_base_type(6 family keys)": L, "per_base_type(9 keys incl. references naming the wrappers)": X,
                                            "all_18_family_keys": M}
    res.extra["random_sequences"] = len(seqs)
    res.extra["exhaustive"] = False
    naming_correspondence(res)   # how a class is named by reference and found again: real code <-> Model/Naming.lean
    return res


def witness(fid):
    return None


def replay(failure):
    if "deep_wrapper" in failure["input"]:
        from .. import iso
        bad = iso.map_isolated(_deep_child, [None], timeout=60.0)[0]
        print(json.dumps({"wrapper chains on which TypeContext does not find the value stored under the fully unwrapped type": bad}, indent=1))
        return bool(bad)
    if "naming_layout" in failure["input"]:
        return naming_replay(failure)
    if "naming" in failure["input"]:
        F = family()
        bad = [(list(jk), shown) for jk, shown, ok in F.naming if not ok]
        print(json.dumps({"refs.forwardref of the named keys that is not the reference naming them": bad}, indent=1))
        return bool(bad)
    ops = failure["input"]["ops"]
    real = real_run(ops)
    orc, _ = oracle_run(ops)
    model = lean.drive([{"op": "ctx.run", "ops": ops}])[0]
    print(json.dumps({"ops": ops, "real TypeContext": real, "reference model (oracle)": orc,
                      "Lean concrete model": model.get("concrete"), "Lean reference model": model.get("spec")}, indent=1)[:4000])
    return real != orc
