"""C08 — Union members are tried in declared order, None always honoured."""
from __future__ import annotations

import itertools
import json

from .. import core, enc, universe
from ..runner import Result

ID = "C08"
LEVEL = "proof"
LEVEL_TEXT = ("Theorems over the executable model of both union routines (Props/C08.lean): for every member list (any length, None "
              "at any position) and every input, `um (union ms) x` is what the first member in declaration order that accepts x "
              "returns, None ↦ None whenever None is a member, ValueError iff every member rejects (whichever error it used); "
              "`mar` follows the same first-acceptor rule over the non-None members and passes None through. Tied to /repo by the "
              "correspondence on every ordered member tuple of the pool, and judged directly: the real union result is compared "
              "with the real member routines applied one by one.")
LEVEL_NOTE = ("Trusted: Lean kernel, standard axioms; model tied by correspondence. Known finding unionOrderKey: routines are "
              "memoised under order-insensitive Union equality, so in one process the first-built permutation serves all — each "
              "case runs in a fresh fork and the finding's witness is replayed.")
TECHNIQUE = "Lean 4 theorems (first-acceptor specification by induction on the member list); differential correspondence; member-by-member oracle on the real routines"
DESIGN_REF = "DESIGN.md §5 C08"
MODULES = ["TypelibModel.Props.C08", "TypelibModel.Props.Dispatch"]
TABLES = True
RULE = ("ordered member tuples of length 2-4 (permutations, None at every position, Union / Optional / X|Y spellings) over a pool of "
        "16 member types incl. int, str, float, Decimal, date, datetime, UUID, list[int], dict[str,int], a dataclass, an Enum, a "
        "Literal, and four that contain another member (dict[str, list[int]], list[list[int]], dict[str, dict[str,int]], tuple[list[int], int]); inputs from the C03 junk pool plus valid values of each member plus boundary numbers (inf, nan, Decimal Infinity, "
        "10**400, undecodable bytes) that members reject with exceptions other than ValueError/TypeError; one union per forked child")
ASSUMPTIONS = ["a member 'accepts' x when its own routine, obtained independently, returns without raising"]
TRUSTED = ["harness encoders/generators", "hand-written model tied by correspondence"]

POOL_PROG = {
    "classes": [
        {"id": 0, "name": "Color", "qualname": "Color", "module": "vm_c08_a", "kind": "enum", "mixin": "none",
         "members": [["red", 1], ["green", "g"]], "fields": [], "required": [], "defaults": []},
        {"id": 1, "name": "Point", "qualname": "Point", "module": "vm_c08_a", "kind": "dataclass", "opts": [],
         "fields": [["x", ["int"]], ["y", ["int"]]], "required": ["x", "y"], "defaults": [], "members": [], "mixin": "none"},
        # a class with a member of a type that is ALSO a member of the pool (one routine per type in a context: whichever node came first)
        {"id": 2, "name": "Account", "qualname": "Account", "module": "vm_c08_a", "kind": "dataclass", "opts": [],
         "fields": [["id", ["uuid"]], ["balance", ["int"]]], "required": ["id", "balance"], "defaults": [], "members": [], "mixin": "none"},
    ],
    "aliases": {},
}
POOL = [["int"], ["str"], ["float"], ["decimal"], ["date"], ["datetime"], ["uuid"], ["coll", "list", ["int"]],
        ["dict", ["str"], ["int"]], ["cls", 1], ["enum", 0], ["lit", [1, "a"]], ["cls", 2],
        # members that CONTAIN another member of the pool (one anonymous type at two depths of the same union)
        ["dict", ["str"], ["coll", "list", ["int"]]], ["coll", "list", ["coll", "list", ["int"]]],
        ["dict", ["str"], ["dict", ["str"], ["int"]]], ["tuple", [["coll", "list", ["int"]], ["int"]]]]
INPUTS = [None, 0, 5, True, ["f", "1.5"], "5", "abc", "1.5", "null", "2020-01-02", "2020-01-02T03:04:05+00:00", "g", "a", 1,
          "00000000-0000-0000-0000-000000000005", ["l", [1, 2]], ["l", ["1", "x"]], "[1, 2]", ["d", [["a", 1]]], '{"x": 1, "y": 2}',
          ["d", [["a", ["l", [1, "2"]]]]], ["l", [["l", ["1"]], ["l", [2, 3]]]],
          # iterables whose FIRST element is a 2-element collection (what iteritems reads as pairs): to list[int] they are two lists / two texts
          ["l", [["l", ["a", 1]], ["l", ["b", 2]]]], ["l", ["10", "20"]], ["l", [["t", ["a", "1"]]]], '[["a", 1], ["b", 2]]', ["d", [["k", ["d", [["a", "1"]]]]]], ["t", [["l", ["4"]], "5"]],
          ["d", [["x", "1"], ["y", 2]]], ["o", 1, [["x", 1], ["y", 2]]],
          ["d", [["id", "12345"], ["balance", "7"]]], ["d", [["id", "\"00000000-0000-0000-0000-000000000005\""], ["balance", 1]]],
          ["d", [["id", "00000000-0000-0000-0000-000000000005"], ["balance", "2"]]], '{"id": "12345", "balance": 3}', ["d", [["id", 7], ["balance", 0]]], ["m", 0, 0], ["dec", "2.5"], ["date", 737426],
          ["dt", 1577934245000006, 0], ["uuid", 7], ["b", "bytes", "7"], ["x", "opaque"], ["l", []], ["d", []], "", ["t", [1, 2]],
          # boundary numbers: members reject them with other exception classes (OverflowError, InvalidOperation, ...)
          ["f", "inf"], ["f", "-inf"], ["f", "nan"], ["dec", "Infinity"], ["dec", "NaN"], 10 ** 400, -(10 ** 400), "inf", "1e999",
          ["b", "bytes", "\u00ff\u00fe"], ["l", [["f", "inf"]]], ["d", [["x", ["f", "inf"]], ["y", 1]]],
          # bytes that are not text (a raw digest): no member reads them as None; oracle only (the model has no such value)
          ["x", "binary"], ["x", "binary"],
          # every text carrier, hashable or not (bytearray and a writable memoryview are not): the same text, the same member
          ["b", "bytearray", "1"], ["b", "mviewW", "a"], ["b", "mview", "1"], ["b", "bytearray", "a"], ["b", "bytearray", "5"],
          ["b", "mviewW", "abc"], ["b", "bytearray", "[1, 2]"], ["b", "mviewW", "2020-01-02"], ["b", "bytearray", "g"]]


REC_SRC = """
from __future__ import annotations
import dataclasses, typing
@dataclasses.dataclass
class Tree:
    value: int
    child: typing.Union[Tree, int] = 0
@dataclasses.dataclass
class Link:
    n: int
    nxt: typing.Union[None, Link, str] = None
"""
REC_INPUTS = ["5", "'7'", "{'value': '1'}", "{'value': 1, 'child': {'value': '2', 'child': 3}}", "'{\"value\": 4}'", "[1]", "'abc'", "None",
              "{'value': 1, 'child': None}", "{'n': 1, 'nxt': None}", "{'n': 1, 'nxt': {'n': '2'}}", "{'n': 1, 'nxt': 'tail'}"]


def _rec_child(_job):
    import sys
    import types
    import typing
    import warnings
    warnings.simplefilter("ignore")
    import typelib
    mod = types.ModuleType("vm_c08_rec")
    sys.modules["vm_c08_rec"] = mod
    ns = mod.__dict__
    exec(REC_SRC, ns)
    Tree, Link = ns["Tree"], ns["Link"]
    bad = []

    def run(t, x):
        try:
            return ("ok", repr(typelib.unmarshal(t, x)))
        except Exception as e:  # noqa: BLE001
            return ("rejected", "ValueError" if isinstance(e, ValueError) else type(e).__name__)
    n = 0
    for union, members in ((typing.Union[Tree, int], [Tree, int]), (typing.Union[None, Link, str], [type(None), Link, str])):
        for src in REC_INPUTS:
            x = eval(src)
            got = run(union, x)
            if type(None) in members and x is None:
                want = ("ok", "None")
            else:
                want = next((r for r in (run(m, x) for m in members if m is not type(None)) if r[0] == "ok"), ("rejected", "ValueError"))
            n += 1
            if got != want and not (got[0] == want[0] == "rejected"):
                bad.append(f"unmarshal({union}, {src}) -> {got}; first accepting member gives {want}"[:300])
    # the same unions as FIELDS of the recursive class (where the member is a delayed routine)
    for t, x, ok in ((Tree, {"value": 1, "child": None}, False), (Tree, {"value": 1, "child": {"value": 2}}, True), (Link, {"n": 1, "nxt": None}, True)):
        got = run(t, x)
        n += 1
        if (got[0] == "ok") != ok:
            bad.append(f"unmarshal({t.__name__}, {x}) -> {got}; the union field {'accepts' if ok else 'rejects'} this by its members")
    return {"bad": bad, "n": n}


def recursive_member_probe(res):
    from .. import iso
    o = iso.map_isolated(_rec_child, [None], timeout=60.0)[0]
    if not isinstance(o, dict) or "bad" not in o:
        raise RuntimeError(f"harness: recursive member probe failed: {o}")
    res.case({"family": "recursive-class-member"}, True)
    for b in o["bad"]:
        res.failures.append({"what": b, "input": {"rec_member": True}})
    if not o["bad"]:
        res.count("oracle:recursive-member-first-acceptor", o["n"])


# ---- a member that names None through a NewType / a type alias is a None member like the plain one, at every position
def _named_none_child(_job):
    import datetime
    import itertools
    import typing
    import warnings
    warnings.simplefilter("ignore")
    import typelib
    Null = typing.NewType("Null", None)
    Nil = typing.TypeAliasType("Nil", None)
    NNil = typing.NewType("NNil", Nil)
    bad = []

    def run(fn):
        try:
            r = fn()
            return ("ok", type(r).__name__, repr(r))
        except ValueError:
            return ("rejected", "ValueError")
        except Exception as e:  # noqa: BLE001
            return ("raised", type(e).__name__, str(e)[:80])
    inputs = [None, 5, "5", "abc", "null", "2020-01-02", 1.5, datetime.date(2020, 1, 2), b"null", [1]]
    n = 0
    for others in ([int], [str], [int, str], [datetime.date, int], [float, str], [typing.Literal["a", 1], int]):
        for named in (Null, Nil, NNil):
            for pos in range(len(others) + 1):
                ms_named = others[:pos] + [named] + others[pos:]
                ms_plain = others[:pos] + [None] + others[pos:]
                u_named, u_plain = typing.Union[tuple(ms_named)], typing.Union[tuple(ms_plain)]
                for x in inputs:
                    n += 1
                    a, b = run(lambda: typelib.unmarshal(u_named, x)), run(lambda: typelib.unmarshal(u_plain, x))
                    if x is None and a != ("ok", "NoneType", "None"):
                        bad.append(f"unmarshal({u_named}, None) -> {a}: None is not honoured")
                    elif a != b:
                        bad.append(f"unmarshal({u_named}, {x!r}) -> {a}; with the plain None member in the same place -> {b}")
                    a, b = run(lambda: typelib.marshal(x, t=u_named)), run(lambda: typelib.marshal(x, t=u_plain))
                    if a != b:
                        bad.append(f"marshal({x!r}, t={u_named}) -> {a}; with the plain None member in the same place -> {b}")
        for named in (Null, Nil):
            n += 1
            a = run(lambda: typelib.unmarshal(named, None))
            if a != ("ok", "NoneType", "None"):
                bad.append(f"unmarshal({named}, None) -> {a}")
    return {"bad": bad[:40], "n": n}


def named_none_probe(res):
    from .. import iso
    o = iso.map_isolated(_named_none_child, [None], timeout=120.0)[0]
    if not isinstance(o, dict) or "bad" not in o:
        raise RuntimeError(f"harness: named-None probe failed: {o}")
    res.case({"family": "named-none-member"}, True)
    for b in o["bad"]:
        res.failures.append({"what": b[:400], "input": {"named_none": True}})
    if not o["bad"]:
        res.count("oracle:named-none-member-as-plain-none", o["n"])


def explore(ctx):
    res = Result()
    res.rule = RULE
    r = ctx.rng
    n = ctx.n(350, 6000)
    jobs = []
    for i in range(n):
        k = r.choice([2, 2, 3, 3, 4])
        ms = r.sample(POOL, k)
        if r.random() < 0.5:
            ms = list(ms)
            ms.insert(r.randint(0, len(ms)), ["none"])
            ms = ms[:4] if len(ms) > 4 else ms
        if len(ms) == 2 and ms[1] == ["none"]:
            sp = r.choice(["optional", "typing", "pipe"])
        else:
            sp = r.choice(["typing", "pipe"])
        ts = ["union", ms, {"sp": sp}]
        xs = r.sample(INPUTS, 10)
        if any(m == ["none"] for m in ms) and None not in xs:
            xs[0] = None               # "None always honoured": every union with a None member is asked for None
        ops = [{"op": "union", "ty": ts, "val": x, "members": ms} for x in xs]
        # the marshal direction against the model as well (the member-by-member oracle asks the LIVE members: a member that starts
        # to accept what it used to reject takes the oracle with it)
        ops += [{"op": "mar", "ty": ts, "val": o_["val"], "members": ms} for o_ in ops[:10]]
        jobs.append({"prog": POOL_PROG, "ops": ops})
    real, model = core.run_jobs(jobs)
    res.programs = len(jobs)
    for job, op, r_, m_ in core.iter_results(jobs, real, model):
        ms = op["members"]
        case = {"ann": enc.pyexpr(op["ty"], job["prog"]), "input": op["val"]}
        res.case(case, True)
        inp = {"prog": job["prog"], "ty": op["ty"], "val": op["val"], "members": ms, **case}
        if op["op"] == "mar":
            if op["val"] == ["x", "binary"] or _nonfinite(op["val"]) or _nonfinite(r_.get("ok")):
                res.count("mar:correspondence-skipped")
            else:
                core.compare(res, "mar", inp, r_, m_)
            continue
        if op["val"] == ["x", "binary"]:
            res.count("um:correspondence-skipped-binary-bytes")
        elif _nonfinite(op["val"]) or _nonfinite(r_["union"].get("ok")):
            # non-finite floats are outside U (the model has no inf / nan); the member-by-member oracle below still judges them
            res.count("um:correspondence-skipped-nonfinite")
        else:
            core.compare(res, "um", inp, r_["union"], m_)
        # ---- oracle: first acceptor in declaration order, None honoured
        has_none = any(m == ["none"] for m in ms)
        if has_none and op["val"] is None:
            exp = {"ok": None}
        else:
            exp = next((o for o in r_["members"] if "ok" in o), {"err": "value"})
        got = r_["union"]
        ok = ("ok" in exp and "ok" in got and enc.canon(exp["ok"]) == enc.canon(got["ok"])) or ("err" in exp and got.get("err") == "value")
        if not ok:
            res.failures.append({"what": "unmarshal(Union[...], x) is not the first accepting member's result", "input": inp,
                                 "real": {"union": _b(got), "members": [_b(o) for o in r_["members"]]}})
        else:
            res.count("oracle:um-first-acceptor")
        # marshal: None passes through for optional unions; otherwise first accepting non-None member
        if has_none and op["val"] is None:
            mexp = {"ok": None}
        else:
            cands = [o for m, o in zip(ms, r_["mmembers"]) if m != ["none"]]
            mexp = next((o for o in cands if "ok" in o), {"err": "value"})
        mgot = r_["munion"]
        mok = ("ok" in mexp and "ok" in mgot and enc.canon(mexp["ok"]) == enc.canon(mgot["ok"])) or ("err" in mexp and mgot.get("err") == "value")
        if not mok:
            res.failures.append({"what": "marshal(x, t=Union[...]) is not the first accepting member's result", "input": inp,
                                 "real": {"union": _b(mgot), "members": [_b(o) for o in r_["mmembers"]]}})
        else:
            res.count("oracle:mar-first-acceptor")
    recursive_member_probe(res)
    named_none_probe(res)
    return res


def _nonfinite(v):
    t = json.dumps(v)
    return any(k in t for k in ('"inf"', '"-inf"', '"nan"', "nonfinite-float", '"Infinity"', '"NaN"', '"-Infinity"'))


def _b(o):
    return {k: o[k] for k in o if k in ("ok", "err", "msg")}


def witness(fid):
    if fid == "unionOrderKey":
        import typing
        core.import_typelib()
        import typelib
        a = typelib.unmarshal(typing.Union[int, str], "5")
        b = typelib.unmarshal(typing.Union[str, int], "5")      # served by the routine built for Union[int, str]
        return a == 5 and b == 5
    return None


def replay(failure):
    inp = failure["input"]
    if "named_none" in inp:
        from .. import iso
        o = iso.map_isolated(_named_none_child, [None], timeout=120.0)[0]
        print(json.dumps(o, indent=1)[:3000])
        return bool(o.get("bad")) if isinstance(o, dict) else True
    if "rec_member" in inp:
        from .. import iso
        o = iso.map_isolated(_rec_child, [None], timeout=60.0)[0]
        print(json.dumps(o, indent=1, default=str)[:3000])
        return bool(o.get("bad")) if isinstance(o, dict) else True
    job = {"prog": inp["prog"], "ops": [{"op": "union", "ty": inp["ty"], "val": inp["val"], "members": inp["members"]}]}
    real, model = core.run_jobs([job])
    print(json.dumps({"annotation": inp["ann"], "input": inp["val"], "real": real[0][0], "model": model[0][0]}, indent=1)[:3000])
    return True
