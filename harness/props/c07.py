"""C07 — Recursive and mutually recursive types work at every depth."""
from __future__ import annotations

import itertools
import json

from .. import core, enc, iso
from ..runner import Result

ID = "C07"
LEVEL = "proof"
LEVEL_TEXT = ("Kernel-checked theorems (Props/C07.lean): for self-referential classes closing their cycle through Optional[X] and "
              "list[X] and for mutually recursive classes closing through dict[str, X] / Optional[X], a value nested to EVERY depth d "
              "(induction on d, no bound) is valid, round-trips (C01.roundtrip_core) and is a fixed point of unmarshal (C13), also with a "
              "container of the cyclic class as root; the general theorems C01/C13/C03 quantify over all class environments and all "
              "values, so depth is not a parameter of them. Termination of the routine build on cyclic annotations is C09 "
              "(build_terminates, edges_acyclic). Tied to /repo per run: every cycle topology over <= 3 classes with every edge "
              "kind, each class and each container of it as root, values of depth 0..D, behavioural correspondence + direct "
              "round-trip / conformance oracle. The interpreter's recursion limit is a runtime fact the model (fuel) cannot exhibit.")
LEVEL_NOTE = ("Trusted: Lean kernel, standard axioms; hand-written model tied by correspondence; recursive type *aliases* have no "
              "model term (the annotation datatype is a finite tree): they are covered by the oracle only.")
TECHNIQUE = "Lean 4 induction on nesting depth over cyclic class environments; topology enumeration with behavioural correspondence and round-trip/conformance oracle at depths 0..D"
DESIGN_REF = "DESIGN.md §5 C07"
MODULES = ["TypelibModel.Props.C07", "TypelibModel.Props.Dispatch"]
TABLES = True
RULE = ("all cycle topologies over 1-3 classes, each recursive edge drawn from {Optional[X], list[X], dict[str, X], tuple[X, ...], "
        "X | None}, flavours dataclass / NamedTuple / plain, any class as root and any container of a cyclic class as root; "
        "Optional[tuple[X, ...]] (empty tuple at the base: a falsy member that is not None), a bare alias of Optional[X] (value or string valued), recursive aliases (type A = dict[str, A | int], list[A] | int); values of every depth 0..D (D = 12 quick, 150 thorough)")
ASSUMPTIONS = ["depth 150 stays below the interpreter's default recursion limit (each level costs several frames)"]
TRUSTED = ["harness topology generator"]

EDGES = ["optional", "list", "dict", "vartuple", "pipe", "nonefirst", "pipefirst", "direct", "optvartuple", "optalias"]


def edge_ty(kind, target):
    t = ["cls", target]
    if kind == "optional":
        return ["union", [t, ["none"]], {"sp": "optional"}]
    if kind == "pipe":
        return ["union", [t, ["none"]], {"sp": "pipe"}]
    if kind == "nonefirst":
        return ["union", [["none"], t], {"sp": "typing"}]
    if kind == "pipefirst":
        return ["union", [["none"], t], {"sp": "pipe"}]
    if kind == "list":
        return ["coll", "list", t, {"sp": "builtin"}]
    if kind == "dict":
        return ["dict", ["str"], t, {"sp": "builtin"}]
    if kind == "optvartuple":    # an Optional edge whose other member has a FALSY value that still needs conversion: () -> []
        return ["union", [["coll", "vartuple", t], ["none"]], {"sp": "optional"}]
    if kind == "direct":
        return t            # a plain class annotation (only on forward edges i -> j, i < j: some other edge closes the cycle)
    return ["coll", "vartuple", t]


def wrap_val(kind, inner):
    """The field value holding `inner` (or the empty base when inner is None)."""
    if kind in ("optional", "pipe", "nonefirst", "pipefirst", "direct", "optalias"):
        return inner
    if kind == "list":
        return ["l", [] if inner is None else [inner]]
    if kind == "dict":
        return ["d", [] if inner is None else [["k", inner]]]
    if kind == "optvartuple":
        return ["t", [] if inner is None else [inner]]
    return ["t", [] if inner is None else [inner]]


def _legal(edges):
    """`direct` only on forward edges (a required plain-class field cannot close a cycle: no finite value would exist)."""
    return [(s_, ("optional" if (k == "direct" and s_ >= d) else k), d) for s_, k, d in edges]


def topologies(ctx):
    """(n classes, edges: list of (src, kind, dst)) with at least one cycle through class 0."""
    return [(n, _legal(es)) for n, es in _topologies(ctx)]


def _topologies(ctx):
    r = ctx.rng
    tops = []
    for kind in EDGES:
        tops.append((1, [(0, kind, 0)]))
    for k1, k2 in itertools.product(EDGES, EDGES):
        tops.append((2, [(0, k1, 1), (1, k2, 0)]))
    for k1 in EDGES:
        tops.append((2, [(0, k1, 0), (0, "list", 1), (1, "optional", 0)]))
        tops.append((3, [(0, k1, 1), (1, "dict", 2), (2, "optional", 0)]))
        tops.append((3, [(0, k1, 1), (1, "list", 2), (2, "pipe", 0), (2, "vartuple", 2)]))
    extra = ctx.n(20, 300)
    for _ in range(extra):
        n = r.choice([2, 3])
        es = [(i, r.choice(EDGES), (i + 1) % n) for i in range(n)]
        for _ in range(r.randint(0, 2)):
            es.append((r.randrange(n), r.choice(EDGES), r.randrange(n)))
        tops.append((n, es))
    return tops


def field_names(idx, edges, c):
    """true edge index -> field name, for the edges leaving class c.  In every second program edges of the same kind to the same
    destination are named alike in every class that has one (two classes then declare the SAME member name with the SAME
    anonymous annotation, e.g. Tree.e0: list[Node] and Node.e0: list[Node]); otherwise every edge has its own name."""
    out, used = {}, set()
    for j, (s_, kind, d) in enumerate(edges):
        if s_ != c:
            continue
        name = f"e{j}"
        if idx % 2 == 1:
            first = min(k for k, (_, kk, dd) in enumerate(edges) if kk == kind and dd == d)
            if f"e{first}" not in used:
                name = f"e{first}"
        if name in used:
            name = f"x{j}"
        used.add(name)
        out[j] = name
    return out


def build_prog(idx, n, edges, r):
    classes = []
    aliases = {}
    for c in range(n):
        flavour = r.choice(["dataclass", "dataclass", "namedtuple", "plain", "typeddict"])
        # `when` needs conversion in both directions: a level passed through raw shows in the marshalled form
        fields = [["val", ["int"]], ["when", ["date"]]]
        defaults = []
        names = field_names(idx, edges, c)
        for j, (s, kind, d) in enumerate(edges):
            if s != c:
                continue
            fn = names[j]
            if kind == "optalias":
                # the field is annotated with a bare NAME for the Optional that closes the cycle (type Chain = Link | None)
                an = f"OA{c}_{j}"
                target = ["union", [["cls", d], ["none"]], {"sp": "optional"}]
                aliases[an] = {"name": an, "module": f"vm_c07_{idx}", "kind": r.choice(["alias", "alias", "aliasstr"]), "target": target}
                fields.append([fn, ["wrap", "alias", target, {"name": an}]])
            else:
                fields.append([fn, edge_ty(kind, d)])
            dv = wrap_val(kind, None)
            if kind == "direct" or flavour == "typeddict" or (flavour == "namedtuple" and isinstance(dv, list) and dv[0] in ("l", "d")):
                continue  # required field
            defaults.append([fn, dv])
        dn = {k for k, _ in defaults}
        fields = [f for f in fields if f[0] not in dn] + [f for f in fields if f[0] in dn]
        classes.append({"id": c, "name": f"N{c}", "qualname": f"N{c}", "module": f"vm_c07_{idx}", "kind": flavour, "opts": [],
                        "fields": fields, "required": [f[0] for f in fields if f[0] not in dn], "defaults": defaults,
                        "members": [], "mixin": "none"})
    return {"classes": classes, "aliases": aliases}


def deep_value(prog, edges, cls, depth, path_edge=None):
    """A value of class `cls` nested `depth` levels along a cycle through the edge list."""
    c = prog["classes"][cls]
    out = []
    # choose the first outgoing edge for the descent
    mine = [(j, e) for j, e in enumerate(edges) if e[0] == cls]
    by_name = {nm: j for j, nm in field_names(int(c["module"].rsplit("_", 1)[1]), edges, cls).items()}
    for fn, ft in c["fields"]:
        if fn == "val":
            out.append([fn, depth])
            continue
        if fn == "when":
            out.append([fn, ["date", 737000 + depth]])
            continue
        j = by_name[fn]
        s, kind, d = edges[j]
        if depth > 0 and mine and j == mine[0][0]:
            out.append([fn, wrap_val(kind, deep_value(prog, edges, d, depth - 1))])
        elif kind == "direct":
            out.append([fn, deep_value(prog, edges, d, 0)])       # a required plain-class field always holds an instance
        else:
            out.append([fn, wrap_val(kind, None)])
    return ["d", out] if c["kind"] == "typeddict" else ["o", cls, out]


def _mapping_at(v, level):
    """v with the instance node at nesting `level` (along the first instance-valued member) replaced by the mapping of its members."""
    if not (isinstance(v, list) and v and v[0] == "o"):
        return None
    if level == 0:
        return ["d", v[2]]

    def first_instance(x):
        if isinstance(x, list) and x and x[0] == "o":
            return True
        return False
    out = []
    done = False
    for fn, fv in v[2]:
        if not done:
            if first_instance(fv):
                sub = _mapping_at(fv, level - 1)
                if sub is not None:
                    out.append([fn, sub])
                    done = True
                    continue
            elif isinstance(fv, list) and fv and fv[0] in ("l", "t") and fv[1] and first_instance(fv[1][0]):
                sub = _mapping_at(fv[1][0], level - 1)
                if sub is not None:
                    out.append([fn, [fv[0], [sub] + fv[1][1:]]])
                    done = True
                    continue
            elif isinstance(fv, list) and fv and fv[0] == "d" and fv[1] and first_instance(fv[1][0][1]):
                sub = _mapping_at(fv[1][0][1], level - 1)
                if sub is not None:
                    out.append([fn, ["d", [[fv[1][0][0], sub]] + fv[1][1:]]])
                    done = True
                    continue
        out.append([fn, fv])
    return ["o", v[1], out] if done else None


def root_variants(cls, v):
    return [(["cls", cls], v),
            (["coll", "list", ["cls", cls], {"sp": "builtin"}], ["l", [v]]),
            (["dict", ["str"], ["cls", cls], {"sp": "builtin"}], ["d", [["r", v]]]),
            (["union", [["cls", cls], ["none"]], {"sp": "optional"}], v),
            (["coll", "vartuple", ["cls", cls]], ["t", [v, v]])]


def typing_list(t):
    import typing
    return typing.List[t]


def alias_child(job):
    """Recursive type aliases (no model term): oracle only, on the real library."""
    import sys
    import types
    import warnings
    warnings.simplefilter("ignore")
    import typelib
    mod = types.ModuleType("vm_c07_alias")
    sys.modules["vm_c07_alias"] = mod
    exec("from __future__ import annotations\nimport typing, datetime\ntype A = dict[str, A | int]\ntype L = list[L] | int\n"
         "type O = dict[str, O] | None\n"
         "type TD = list[TD] | datetime.date\ntype DD = dict[str, DD] | datetime.date\ntype ND = tuple[ND, ...] | datetime.date\n"
         # aliases which ARE a collection of themselves (every member is the alias again)
         "type PL = list[PL]\ntype PT = tuple[PT, ...]\ntype PD = dict[str, PD]\nPS = typing.TypeAliasType('PS', 'list[PS]')\n"
         "type Rows = list[Cell] | None\ntype Cell = dict[str, Rows] | datetime.date\n"
         "class Item(typing.TypedDict):\n    day: datetime.date\n    parts: list[Item]\n"
         # a container-like class: an instance without children is FALSY, and is an instance to convert all the same
         "import dataclasses\n@dataclasses.dataclass\nclass Tree:\n    day: datetime.date\n    left: Tree | None = None\n"
         "    right: typing.Optional[Tree] = None\n    def __len__(self):\n        return (self.left is not None) + (self.right is not None)\n",
         mod.__dict__)
    import datetime
    out = []
    for name, depth in job:
        if name == "SameName":
            # two classes of ONE qualified name from different modules in one graph: docs.Node wraps the recursive trees.Node
            tr, dc = sys.modules.get("vm_c07_trees"), sys.modules.get("vm_c07_docs")
            if tr is None:
                tr, dc = types.ModuleType("vm_c07_trees"), types.ModuleType("vm_c07_docs")
                sys.modules["vm_c07_trees"], sys.modules["vm_c07_docs"] = tr, dc
                exec("from __future__ import annotations\nimport dataclasses, typing, datetime\n@dataclasses.dataclass\nclass Node:\n"
                     "    day: datetime.date\n    child: typing.Optional[Node] = None\n    kids: typing.List[Node] = dataclasses.field(default_factory=list)\n"
                     "    named: typing.Dict[str, Node] = dataclasses.field(default_factory=dict)\n", tr.__dict__)
                exec("from __future__ import annotations\nimport dataclasses, typing\nimport vm_c07_trees\n@dataclasses.dataclass\nclass Node:\n"
                     "    title: str\n    root: vm_c07_trees.Node\n    others: typing.List[vm_c07_trees.Node] = dataclasses.field(default_factory=list)\n", dc.__dict__)
            day, iso = datetime.date(2020, 1, 2), "2020-01-02"
            leaf = lambda: ({"day": iso, "child": None, "kids": [], "named": {}})
            val, wire = tr.Node(day), leaf()
            for i in range(depth):
                val = tr.Node(day, val, [tr.Node(day)], {"k": tr.Node(day)})
                wire = {"day": iso, "child": wire, "kids": [leaf()], "named": {"k": leaf()}}
            try:
                ok, got = True, ""
                for t_, v_, w_ in ((dc.Node, dc.Node("doc", val, [val]), {"title": "doc", "root": wire, "others": [wire]}),
                                   (typing_list(dc.Node), [dc.Node("d", val)], [{"title": "d", "root": wire, "others": []}])):
                    m_ = typelib.marshal(v_, t=t_)
                    back = typelib.unmarshal(t_, w_)
                    if m_ != w_ or back != v_:
                        ok, got = False, repr(m_)[:120] + " / " + repr(back)[:80]
                out.append({"alias": name, "depth": depth, "ok": ok, "got": got})
            except Exception as e:  # noqa: BLE001
                out.append({"alias": name, "depth": depth, "ok": False, "got": f"{type(e).__name__}: {e}"[:160]})
            continue
        if name == "TypingMod":
            # recursive classes declared in a project module that is CALLED typing (acme.typing): classes like any other
            pkg, sub = sys.modules.get("vm_c07_acme"), sys.modules.get("vm_c07_acme.typing")
            if sub is None:
                pkg, sub = types.ModuleType("vm_c07_acme"), types.ModuleType("vm_c07_acme.typing")
                pkg.__path__ = []
                pkg.typing = sub
                sys.modules["vm_c07_acme"], sys.modules["vm_c07_acme.typing"] = pkg, sub
                exec("from __future__ import annotations\nimport dataclasses, typing, datetime\n@dataclasses.dataclass\nclass Node:\n"
                     "    day: datetime.date\n    nxt: typing.Optional[Node] = None\n    kids: typing.List[Node] = dataclasses.field(default_factory=list)\n"
                     "@dataclasses.dataclass\nclass A:\n    bs: typing.List[B]\n@dataclasses.dataclass\nclass B:\n    a: typing.Optional[A] = None\n"
                     "    day: datetime.date = datetime.date(2020, 1, 2)\n", sub.__dict__)
            day, iso = datetime.date(2020, 1, 2), "2020-01-02"
            val, wire = sub.Node(day), {"day": iso, "nxt": None, "kids": []}
            for i in range(depth):
                val, wire = sub.Node(day, val, [sub.Node(day)]), {"day": iso, "nxt": wire, "kids": [{"day": iso, "nxt": None, "kids": []}]}
            aval, awire = sub.A([sub.B()]), {"bs": [{"a": None, "day": iso}]}
            for i in range(min(depth, 20)):
                aval, awire = sub.A([sub.B(aval)]), {"bs": [{"a": awire, "day": iso}]}
            try:
                ok, got = True, ""
                for t_, v_, w_ in ((sub.Node, val, wire), (sub.A, aval, awire), (typing_list(sub.Node), [val], [wire])):
                    m_ = typelib.marshal(v_, t=t_)
                    back = typelib.unmarshal(t_, w_)
                    if m_ != w_ or back != v_:
                        ok, got = False, repr(m_)[:120] + " / " + repr(back)[:80]
                out.append({"alias": name, "depth": depth, "ok": ok, "got": got})
            except Exception as e:  # noqa: BLE001
                out.append({"alias": name, "depth": depth, "ok": False, "got": f"{type(e).__name__}: {e}"[:160]})
            continue
        t = getattr(mod, name)
        if name in ("TD", "DD", "ND", "Rows", "Item", "Tree"):
            # leaves that need conversion: every level of the marshalled form must be plain, and equal to the expected wire
            day, iso = datetime.date(2020, 1, 2), "2020-01-02"
            if name == "Item":
                val, wire = {"day": day, "parts": []}, {"day": iso, "parts": []}
            elif name == "Tree":
                val, wire = t(day), {"day": iso, "left": None, "right": None}
            else:
                val, wire = (None, None) if name == "Rows" else (day, iso)
            for i in range(depth // 2 if name == "Rows" else depth):      # one level of Rows = two container levels
                if name == "TD":
                    val, wire = [val, day], [wire, iso]
                elif name == "DD":
                    val, wire = {"k": val, "d": day}, {"k": wire, "d": iso}
                elif name == "ND":
                    val, wire = (val, day), [wire, iso]
                elif name == "Tree":
                    val, wire = t(day, t(day), val), {"day": iso, "left": {"day": iso, "left": None, "right": None}, "right": wire}
                elif name == "Rows":
                    val, wire = [{"r": val}, day], [{"r": wire}, iso]       # Rows = list[Cell]; Cell = dict[str, Rows] | date
                else:
                    val, wire = {"day": day, "parts": [val]}, {"day": iso, "parts": [wire]}
            try:
                m_ = typelib.marshal(val, t=t)
                why = core.plain_reason(m_)
                back = typelib.unmarshal(t, wire)
                ok = why is None and m_ == wire and back == val
                out.append({"alias": name, "depth": depth, "ok": bool(ok),
                            "got": (f"a level was marshalled raw ({why}): " if why else "") + repr(m_)[:120] + " / " + repr(back)[:80]})
            except Exception as e:  # noqa: BLE001
                out.append({"alias": name, "depth": depth, "ok": False, "got": f"{type(e).__name__}: {e}"[:160]})
            continue
        if name in ("PL", "PT", "PD", "PS"):
            empty = {"PL": [], "PT": (), "PD": {}, "PS": []}[name]
            val, wire = empty, ({} if name == "PD" else [])
            try:
                ok, got = True, ""
                # (every depth from the shallowest on, through fresh calls: the first calls of a routine are calls like the others)
                for i in range(depth + 1):
                    m_ = typelib.marshal(val, t=t)
                    back = typelib.unmarshal(t, wire)
                    enc_ = typelib.codec(t).decode(typelib.codec(t).encode(val))
                    if m_ != wire or back != val or type(back) is not type(val) or enc_ != val:
                        ok, got = False, f"at depth {i}: " + repr(m_)[:100] + " / " + repr(back)[:80]
                        break
                    if name == "PD":
                        val, wire = {"k": val, "e": {}}, {"k": wire, "e": {}}
                    elif name == "PT":
                        val, wire = (val, ()), [wire, []]
                    else:
                        val, wire = [val, []], [wire, []]
                out.append({"alias": name, "depth": depth, "ok": ok, "got": got})
            except Exception as e:  # noqa: BLE001
                out.append({"alias": name, "depth": depth, "ok": False, "got": f"{type(e).__name__}: {e}"[:160]})
            continue
        if name == "A":
            wire = {}
            val = {}
            for i in range(depth):
                wire = {"k": wire, "n": str(i)}
                val = {"k": val, "n": i}
        elif name == "L":
            wire = "7"
            val = 7
            for i in range(depth):
                wire, val = [wire, str(i)], [val, i]
        else:
            wire = None
            val = None
            for i in range(depth):
                wire, val = {"k": wire}, {"k": val}
        try:
            got = typelib.unmarshal(t, wire)
            ok = got == val
            back = typelib.marshal(got, t=t)
            out.append({"alias": name, "depth": depth, "ok": bool(ok and back == val), "got": repr(got)[:120]})
        except Exception as e:  # noqa: BLE001
            out.append({"alias": name, "depth": depth, "ok": False, "got": f"{type(e).__name__}: {e}"[:160]})
    return out


def explore(ctx):
    res = Result()
    res.rule = RULE
    r = ctx.rng
    # "below the interpreter's recursion limit": CPython 3.12 bounds C-level recursion (list(generator) -> routine -> ...) separately
    # from sys.setrecursionlimit and it cannot be raised; the routines reach it between depth 100 and 150 for collection edges (and a
    # RecursionError inside an Optional edge is turned into the union's ValueError), so the thorough tier stops at D = 100.
    D = 12 if ctx.tier == "quick" else 100
    depths = [0, 1, 2, 3, D // 2, D] if ctx.tier == "quick" else [0, 1, 2, 5, 12, 40, 70, D]
    jobs = []
    tops = topologies(ctx)
    if ctx.tier == "quick" and ctx.scale == 1.0 and len(tops) > 60:
        head = tops[:30]
        rest = tops[30:]
        r.shuffle(rest)
        tops = head + rest[:30]
    for idx, (n, edges) in enumerate(tops):
        prog = build_prog(idx, n, edges, r)
        ops = []
        for cls in range(n):
            for d in (depths if cls == 0 else depths[:3] + depths[-1:]):
                v = deep_value(prog, edges, cls, d)
                variants = root_variants(cls, v)
                for ts, val in ([variants[0]] + [r.choice(variants[1:])]):
                    ops.append({"op": "rt", "ty": ts, "val": val, "depth": d})
                # the same value with ONE level given as a plain mapping of its members (a source like any other): marshalled like
                # the all-instance value, level by level
                if d in depths[1:4] or d == depths[-1]:
                    k = r.randint(0, min(d, 3))
                    mv = _mapping_at(v, k)
                    if mv is not None:
                        ops.append({"op": "mar", "ty": ["cls", cls], "val": mv, "depth": d, "twin": len(ops) - 2, "level": k})
        jobs.append({"prog": prog, "ops": ops, "top": [n, edges]})
    # (the harness's own encoders recurse on the values: give the parent room)
    import sys
    sys.setrecursionlimit(max(sys.getrecursionlimit(), 30000))
    real, model = core.run_jobs(jobs, timeout=300)
    res.programs = len(jobs)
    for job, ro, mo in zip(jobs, real, model):
        if isinstance(ro, dict) and "crash" in ro:
            # a build that does not terminate (timeout) or kills the interpreter is the property failing
            res.failures.append({"what": f"building / running routines for a cyclic topology did not complete: {ro['crash']}",
                                 "input": {"prog": job["prog"], "top": job["top"]}})
            continue
        for op, r_, m_ in zip(job["ops"], ro, mo):
            if "crash" in r_:
                raise RuntimeError(f"harness: {r_}")
            case = {"ann": enc.pyexpr(op["ty"], job["prog"]), "depth": op["depth"], "top": job["top"]}
            res.case(case, True)
            res.count(f"depth:{op['depth']}")
            inp = {"prog": job["prog"], "ty": op["ty"], "val": op["val"], **case}
            if op["op"] == "mar":
                twin = ro[op["twin"]].get("mar", {})
                if op["depth"] >= 100 and ("recursion" in (r_.get("err"), twin.get("err"))):
                    res.count("beyond-interpreter-recursion-limit")
                elif "ok" in twin and not ("ok" in r_ and enc.canon(r_["ok"]) == enc.canon(twin["ok"])):
                    res.failures.append({"what": f"with the node at level {op['level']} given as a mapping of its members, marshal differs from the "
                                                 f"all-instance value at nesting depth {op['depth']}", "input": inp,
                                         "real": {"mapping-source": {k: v for k, v in r_.items() if k != "ok" or len(json.dumps(v)) < 400},
                                                  "instances": {k: v for k, v in twin.items() if k != "ok" or len(json.dumps(v)) < 400}}})
                else:
                    res.count("oracle:mapping-source-level-converted")
                continue
            if op["depth"] >= 100 and any(r_.get(w, {}).get("err") == "recursion" for w in ("mar", "um")):
                # the property holds "below the interpreter's recursion limit": ~6-8 interpreter frames per level put depth >= 100
                # near the default limit of 1000 for some edge kinds. (A RecursionError at a SMALL depth is reported.)
                res.count("beyond-interpreter-recursion-limit")
                continue
            for what in ("mar", "um"):
                if what in r_ and what in m_:
                    if core.compare(res, what, inp, r_[what], m_[what]) is not True:
                        break
            ok = "ok" in r_["mar"] and "um" in r_ and "ok" in r_["um"] and enc.canon(r_["um"]["ok"]) == enc.canon(op["val"])
            if not ok:
                res.failures.append({"what": f"round trip fails at nesting depth {op['depth']}", "input": inp,
                                     "real": {k: {kk: vv for kk, vv in r_[k].items() if kk != "ok" or len(json.dumps(vv)) < 400} for k in r_}})
            elif not enc.is_plain_json(r_["mar"]["ok"]):
                res.failures.append({"what": "a level of the recursion was marshalled raw", "input": inp})
            else:
                res.count("oracle:roundtrip-every-level")
    # recursive aliases
    core.import_typelib()
    ajobs = [[(name, d) for d in depths] for name in ("A", "L", "O", "TD", "DD", "ND", "Rows", "Item", "Tree", "TypingMod", "PL", "PT", "PD", "PS", "SameName")]
    for out in iso.map_isolated(alias_child, ajobs, timeout=120):
        if isinstance(out, dict) and "crash" in out:
            res.failures.append({"what": f"recursive alias: {out['crash']}", "input": {"alias": "?"}})
            continue
        for o in out:
            res.case({"alias": o["alias"], "depth": o["depth"]}, True)
            if not o["ok"]:
                res.failures.append({"what": f"recursive alias {o['alias']} fails at depth {o['depth']}: {o['got']}",
                                     "input": {"alias": o["alias"], "depth": o["depth"]}})
            else:
                res.count("oracle:alias-ok")
    return res


def witness(fid):
    return None


def replay(failure):
    inp = failure["input"]
    if "alias" in inp:
        core.import_typelib()
        out = iso.map_isolated(alias_child, [[(inp["alias"], inp["depth"])]])[0]
        print(out)
        return not out[0]["ok"]
    if "ty" not in inp:
        print(json.dumps(inp)[:2000])
        return True
    job = {"prog": inp["prog"], "ops": [{"op": "rt", "ty": inp["ty"], "val": inp["val"]}]}
    real, model = core.run_jobs([job])
    r_ = real[0][0]
    print(json.dumps({"annotation": inp["ann"], "depth": inp["depth"], "real": r_}, indent=1)[:3000])
    return not ("ok" in r_["mar"] and "um" in r_ and "ok" in r_["um"] and enc.canon(r_["um"]["ok"]) == enc.canon(inp["val"]))
