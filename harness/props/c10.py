"""C10 — Bound callables get every argument converted per its own parameter.

Real side: synthesised callables (functions, bound methods, callable instances, classes) whose parameter `p`
is annotated with its own fresh `class Tag_p(str)`, so `type(x).__name__` of what the callable receives names
the routine that converted it.  Three observations per call: `bind(f)(*a, **k)`, `wrap(f)(*a, **k)` (end to
end, public API) and `bind(f).binding(a, k)` (the binder's own output, also for calls Python rejects).

  * correspondence: each observation vs the Lean driver op `binding.apply` (Model/Binding.lean);
  * oracle (independent of the model): `inspect.signature(f).bind(*a, **k)` — every bound argument converted
    by its own parameter's annotation, unannotated ones passed through by identity, defaults untouched,
    positions / keyword order preserved, f's result returned, rejected calls raise TypeError, `wrap` keeps the
    metadata.
"""
from __future__ import annotations

import itertools
import json

from .. import core, enc, iso, lean
from ..runner import Result

ID = "C10"
LEVEL = "proof"
LEVEL_TEXT = ("Kernel-checked theorems C10.bind_correct / bind_correct_pointwise / wrap_correct: for every signature (any number of "
              "parameters of the five kinds) and every call Python accepts, the binder the live _BINDING_CLS_MATRIX selects hands f "
              "each argument converted by the routine of the parameter Python binds it to, same positions and keyword names, "
              "unannotated parameters untouched (bind_values), f's result returned. Obtained from mode_sound (general soundness of a "
              "closed adequacy formula, by induction over the argument lists; adequate_exact: the formula is also exact) and "
              "matrix_adequate (`decide` over the 32 rows of the table regenerated from the working tree on every run). "
              "rejected_stays_rejected / shape_preserved: any binder class on any call either raises TypeError itself or keeps the "
              "number of positionals and the keyword names, so calls Python rejects still raise. Model tied to /repo per run by a "
              "differential correspondence (binder output, bind() and wrap() end to end, all 32 rows) and an independent "
              "inspect.Signature.bind oracle on the real library.")
LEVEL_NOTE = ("Trusted: Lean kernel; axioms propext, Classical.choice, Quot.sound; the hand-written model Model/Binding.lean (tied by "
              "correspondence, not verified); the harness; CPython's own call protocol (acceptance is modelled with every parameter "
              "omissible); functools.wraps metadata and the __init__ patch of wrap(cls) are observed by the oracle, not proved; the "
              "routines themselves are abstract tags (their semantics is C01..C08).")
TECHNIQUE = ("Lean 4 proof over an executable model (registration loop + 16 binder classes + Python's binding as spec): general "
             "soundness lemma by list induction, regenerated dispatch matrix re-decided; differential correspondence + "
             "inspect.Signature.bind oracle with tagging annotations")
DESIGN_REF = "DESIGN.md §5 C10"
MODULES = ["TypelibModel.Props.C10"]
TABLES = True
RULE = ("enumeration + sampling: every composition (n_po, n_pk, *args?, n_ko, **kwargs?) with at most 5 parameters (146 shapes, all 32 "
        "presence rows) x random unannotated / default patterns x callable kind (function, bound method, callable instance, class); "
        "per signature the product of: number of positionals 0..N+2, each remaining positional-or-keyword parameter by keyword or "
        "omitted (or passed both ways), each keyword-only parameter passed or omitted, 0-2 extra keywords drawn from fresh names and "
        "the names of the positional-only / *args / **kwargs parameters, shuffled keyword order (sampled down to a cap, rejected "
        "shapes included); every callable is a fresh object with fresh Tag classes, chunks run in forked children; a case is "
        "non-trivial when the call passes at least one argument; distinct = distinct (signature, kind, call)")
ASSUMPTIONS = [
    "Python's acceptance of a call is modelled with every parameter omissible; missing-required rejections are covered by "
    "shape_preserved and checked directly by the oracle",
    "parameter names of a signature are pairwise distinct (guaranteed by Python), so a routine is identified by its parameter",
    "unmarshal(Tag_p, s) for `class Tag_p(str)` returns a Tag_p instance and the routine of an unannotated parameter returns its "
    "argument itself (observed on every run; this is what makes the converting routine visible)",
]
TRUSTED = ["harness/props/c10.py (generators, tagging, oracle)", "lean/TypelibModel/Drv/Binding.lean (driver glue)",
           "hand-written model Model/Binding.lean tied to binding.py by this correspondence"]

KINDS = ["function", "method", "callable", "class"]


# ----------------------------------------------------------------------------------------------- signatures

def shapes():
    """Every (n_po, n_pk, has_va, n_ko, has_vk) with at most 5 parameters."""
    out = []
    for va in (0, 1):
        for vk in (0, 1):
            for npo in range(6):
                for npk in range(6):
                    for nko in range(6):
                        if npo + npk + nko + va + vk <= 5:
                            out.append((npo, npk, va, nko, vk))
    return out


def names_of(spec):
    return spec["po"] + spec["pk"] + ([spec["va"]] if spec["va"] else []) + spec["ko"] + ([spec["vk"]] if spec["vk"] else [])


def make_spec(shape, rng, kind):
    npo, npk, va, nko, vk = shape
    spec = {"po": [f"a{i}" for i in range(npo)], "pk": [f"b{i}" for i in range(npk)], "va": "c" if va else None,
            "ko": [f"d{i}" for i in range(nko)], "vk": "k" if vk else None, "kind": kind}
    allp = names_of(spec)
    spec["unann"] = [p for p in allp if rng.random() < 0.25]
    pospk = spec["po"] + spec["pk"]
    ndef = rng.randint(0, len(pospk)) if rng.random() < 0.75 else 0
    spec["defaults"] = pospk[len(pospk) - ndef:] + [p for p in spec["ko"] if rng.random() < 0.5]
    return spec


def row_of(spec):
    return [bool(spec["po"]), bool(spec["ko"]), bool(spec["va"]), bool(spec["vk"]), bool(spec["pk"])]


def param_src(spec, with_self):
    def one(p, star=""):
        s = star + p
        if p not in spec["unann"]:
            s += f": T_{p}"
        if p in spec["defaults"]:
            s += f" = D_{p}"
        return s
    parts = ["self"] if with_self else []
    parts += [one(p) for p in spec["po"]]
    if spec["po"]:
        parts.append("/")
    parts += [one(p) for p in spec["pk"]]
    if spec["va"]:
        parts.append(one(spec["va"], "*"))
    elif spec["ko"]:
        parts.append("*")
    parts += [one(p) for p in spec["ko"]]
    if spec["vk"]:
        parts.append(one(spec["vk"], "**"))
    return ", ".join(parts)


def sig_text(spec):
    return f"{spec['kind']}({param_src(spec, spec['kind'] != 'function')})"


def model_sig(spec, with_self=False):
    """The signature as the Lean model takes it; `with_self`: the `__init__` function `wrap(cls)` patches."""
    s = {"po": list(spec["po"]), "pk": list(spec["pk"]), "va": spec["va"], "ko": list(spec["ko"]), "vk": spec["vk"],
         "unann": list(spec["unann"])}
    if with_self:
        (s["po"] if s["po"] else s["pk"]).insert(0, "self")
        s["unann"].append("self")
    return s


def plausible(spec, n, kw):
    """Would Python accept n positionals and these keywords?  (Sampling bias only.)"""
    po, pk, ko = spec["po"], spec["pk"], spec["ko"]
    N = len(po) + len(pk)
    if n > N and not spec["va"]:
        return False
    filled = (po + pk)[:n]
    for k in kw:
        if k in filled and k in pk:
            return False
        if k not in pk and k not in ko and not spec["vk"]:
            return False
    given = set(filled) | {k for k in kw if k in pk or k in ko}
    return all(p in given or p in spec["defaults"] for p in po + pk + ko)


def calls_for(spec, rng, cap):
    """Call shapes: {"n": number of positionals, "kw": [keyword names in call order]}; accepted and rejected alike."""
    po, pk, ko = spec["po"], spec["pk"], spec["ko"]
    N = len(po) + len(pk)
    # "self", "args", "__binding": names the binding machinery itself might use for its own parameters -- to the caller they
    # are ordinary keywords of the wrapped callable
    extra_pool = (["zz", "yy"] + po[:1] + ([spec["va"]] if spec["va"] else []) + ([spec["vk"]] if spec["vk"] else [])
                  + [rng.choice((["self", "self"] if spec["kind"] == "function" else []) + ["args", "kwargs", "__binding", "obj", "call"])])
    extra_opts = [[]] + [[e] for e in extra_pool] + [list(t) for t in itertools.combinations(extra_pool, 2)]
    out = []
    for n in range(0, N + 3):
        filled_pk = max(0, min(n, N) - len(po))
        rest_pk = pk[filled_pk:]
        pk_opts = [list(t) for r in range(len(rest_pk) + 1) for t in itertools.combinations(rest_pk, r)]
        if filled_pk:                                   # also: a parameter passed both ways
            pk_opts.append([pk[filled_pk - 1]] + rest_pk)
        ko_opts = [list(t) for r in range(len(ko) + 1) for t in itertools.combinations(ko, r)]
        for a in pk_opts:
            for b in ko_opts:
                for c in extra_opts:
                    out.append((n, a + b + c))
    if len(out) > cap:
        # keep mostly calls Python accepts (the generator's own estimate; the oracle decides by itself)
        legal = [x for x in out if plausible(spec, x[0], x[1])]
        illegal = [x for x in out if not plausible(spec, x[0], x[1])]
        n_legal = min(len(legal), max(cap - len(illegal), (cap * 2) // 3))
        out = rng.sample(legal, n_legal) + rng.sample(illegal, min(len(illegal), cap - n_legal))
    calls = []
    for n, kw in out:
        kw = list(kw)
        rng.shuffle(kw)
        calls.append({"n": n, "kw": kw})
    return calls


# ----------------------------------------------------------------------------------------------- real side (child)

def _exec(src, ns):
    # this module has `from __future__ import annotations`; the synthesised code must not inherit it
    # (annotations have to be the Tag classes themselves, not strings)
    exec(compile(src, "<c10-synth>", "exec", flags=0, dont_inherit=True), ns)


def materialise(spec):
    """A fresh callable for the spec, with fresh Tag classes; returns (target, get_rec, info)."""
    ns, tags, defaults, last = {}, {}, {}, []
    for p in names_of(spec):
        if p not in spec["unann"]:
            tags[p] = type("Tag_" + p, (str,), {})
            ns["T_" + p] = tags[p]
    for p in spec["defaults"]:
        defaults[p] = "".join(["dflt_", p])
        ns["D_" + p] = defaults[p]

    class Rec:
        def __init__(self, d):
            self.d = d

    def REC(d):
        r = Rec(d)
        last.append(r)
        return r

    ns["REC"] = REC
    ns["__name__"] = "c10_synth"
    names = names_of(spec)
    body = "{" + ", ".join(f"{p!r}: {p}" for p in names) + "}"
    kind = spec["kind"]
    # the class of a callable instance / a wrapped class also annotates ATTRIBUTES named like parameters, with other types (state
    # kept under the parameter's name after conversion): a parameter is converted by ITS annotation, not by the attribute's
    ns["T_attr"] = type("Tag_attr", (str,), {})
    attr_ann = "".join(f"    {p}: T_attr\n" for p in names if p not in (spec["va"], spec["vk"]))
    if kind == "function":
        _exec(f"def f({param_src(spec, False)}):\n    'doc of f'\n    return REC({body})\n", ns)
        target = ns["f"]
    elif kind == "method":
        _exec(f"class K:\n    'doc of K'\n    def m({param_src(spec, True)}):\n        'doc of m'\n        return REC({body})\n", ns)
        target = ns["K"]().m
    elif kind == "callable":
        _exec(f"class K:\n    'doc of K'\n{attr_ann}    def __call__({param_src(spec, True)}):\n        'doc of call'\n"
             f"        return REC({body})\n", ns)
        target = ns["K"]()
    else:
        # every second class has its __init__ under an ordinary metadata-preserving decorator (functools.wraps: tracing, retry, ...):
        # inspect.signature follows __wrapped__, the class is wrapped like any other
        import functools

        def traced(fn):
            @functools.wraps(fn)
            def inner(*a, **k):
                return fn(*a, **k)
            return inner
        ns["traced"] = traced
        deco = "    @traced\n" if len(names) % 2 == 1 else ""
        _exec(f"class K:\n    'doc of K'\n{attr_ann}{deco}    def __init__({param_src(spec, True)}):\n        'doc of init'\n"
             f"        self.rec = REC({body})\n", ns)
        target = ns["K"]

    def get_rec(ret):
        """(dict of what the callable received, was `ret` the callable's own result?)"""
        if not last:
            return None, False
        if kind == "class":
            return last[-1].d, isinstance(ret, target) and getattr(ret, "rec", None) is last[-1]
        return last[-1].d, ret is last[-1]

    return target, get_rec, {"tags": tags, "defaults": defaults, "last": last}


def desc(x, orig):
    return [type(x).__name__, x if isinstance(x, str) else None, x is orig]


class Bound:
    """Python's own binding of a call, read off a direct call of an unbound twin of the callable."""
    def __init__(self, arguments):
        self.arguments = arguments


def py_binding(raw, get_rec, info, sig, args, kwargs):
    """Ground truth: call an untouched twin of the callable directly with the same argument objects.
    Returns (binding | None, {"ok": per call argument the parameter it binds to} | {"err": msg}, inspect's verdict).
    (`inspect.Signature.bind` is only recorded: on CPython 3.12 it wrongly rejects a keyword named like a
    positional-only parameter when the signature has a `**kwargs`.)"""
    import inspect
    try:
        sig.bind(*args, **kwargs)
        insp = True
    except TypeError:
        insp = False
    del info["last"][:]
    try:
        ret = raw(*args, **kwargs)
    except TypeError as e:
        return None, {"err": str(e)[:200]}, insp
    rec, _ = get_rec(ret)
    arguments, where = {}, {}
    for pname, param in sig.parameters.items():
        val = rec[pname]
        if param.kind == inspect.Parameter.VAR_POSITIONAL:
            if val:
                arguments[pname] = val
                for v in val:
                    where[id(v)] = pname
        elif param.kind == inspect.Parameter.VAR_KEYWORD:
            if val:
                arguments[pname] = val
                for v in val.values():
                    where[id(v)] = pname
        elif pname in info["defaults"] and val is info["defaults"][pname]:
            continue
        else:
            arguments[pname] = val
            where[id(val)] = pname
    return (Bound(arguments),
            {"ok": {"pos": [where.get(id(a)) for a in args], "kw": [[k, where.get(id(v))] for k, v in kwargs.items()]}}, insp)


def oracle(sig, ba, rec, info, spec):
    """The property itself, on what the callable received."""
    import inspect
    bad = []
    tags, defaults = info["tags"], info["defaults"]

    def check(got, orig, p, where):
        if p in tags:
            if type(got) is not tags[p] or str(got) != str(orig):
                bad.append(f"{where}: expected Tag_{p}({orig!r}), received {type(got).__name__}({got!r})")
        elif got is not orig:
            bad.append(f"{where}: unannotated parameter {p} received {type(got).__name__}({got!r}) instead of the argument itself")

    for p, param in sig.parameters.items():
        got = rec.get(p)
        if p not in ba.arguments:
            if param.kind == inspect.Parameter.VAR_POSITIONAL:
                if got != ():
                    bad.append(f"*{p}: expected (), received {got!r}")
            elif param.kind == inspect.Parameter.VAR_KEYWORD:
                if got != {}:
                    bad.append(f"**{p}: expected {{}}, received {got!r}")
            elif got is not defaults.get(p):
                bad.append(f"{p}: omitted, expected its default object, received {type(got).__name__}({got!r})")
            continue
        val = ba.arguments[p]
        if param.kind == inspect.Parameter.VAR_POSITIONAL:
            if not isinstance(got, tuple) or len(got) != len(val):
                bad.append(f"*{p}: expected {len(val)} values, received {got!r}")
            else:
                for i, (g, o) in enumerate(zip(got, val)):
                    check(g, o, p, f"*{p}[{i}]")
        elif param.kind == inspect.Parameter.VAR_KEYWORD:
            if not isinstance(got, dict) or list(got) != list(val):
                bad.append(f"**{p}: expected keys {list(val)}, received {got!r}")
            else:
                for k in val:
                    check(got[k], val[k], p, f"**{p}[{k!r}]")
        else:
            check(got, val, p, p)
    return bad


def view_from_rec(sig, ba, rec, args, kwargs):
    """What the callable received, in call order (to compare with the model's output)."""
    import inspect
    got = {}
    for p, val in ba.arguments.items():
        kind = sig.parameters[p].kind
        r = rec.get(p)
        if kind == inspect.Parameter.VAR_POSITIONAL:
            if isinstance(r, tuple) and len(r) == len(val):
                for g, o in zip(r, val):
                    got[id(o)] = g
        elif kind == inspect.Parameter.VAR_KEYWORD:
            if isinstance(r, dict):
                for k, o in val.items():
                    if k in r:
                        got[id(o)] = r[k]
        else:
            got[id(val)] = r
    miss = object()
    return {"args": [desc(got.get(id(a), miss), a) for a in args],
            "kwargs": [[k, desc(got.get(id(v), miss), v)] for k, v in kwargs.items()]}


def end_to_end(callable_, get_rec, sig, ba, info, spec, args, kwargs):
    last = info["last"]
    del last[:]
    try:
        ret = callable_(*args, **kwargs)
    except BaseException as e:  # noqa: BLE001
        return {"err": type(e).__name__, "msg": str(e)[:160]}
    rec, own = get_rec(ret)
    if rec is None:
        return {"err": "no-call", "msg": "the callable was not invoked"}
    out = {"ok": True, "ret_own": own}
    if ba is not None:
        out["oracle"] = oracle(sig, ba, rec, info, spec)
        out["view"] = view_from_rec(sig, ba, rec, args, kwargs)
    return out


def meta_check(orig, wrapped, kind, orig_init):
    import functools
    import inspect
    bad = []
    if kind == "class":
        if wrapped is not orig:
            bad.append("wrap(cls) did not return the class")
        init = orig.__dict__.get("__init__")
        if getattr(init, "__wrapped__", None) is not orig_init:
            bad.append("cls.__init__.__wrapped__ is not the original __init__")
        for a in ("__name__", "__qualname__", "__doc__", "__module__"):
            if getattr(init, a, None) != getattr(orig_init, a, None):
                bad.append(f"__init__.{a}: {getattr(init, a, None)!r} != {getattr(orig_init, a, None)!r}")
        return bad
    if getattr(wrapped, "__wrapped__", None) is not orig and getattr(wrapped, "__wrapped__", None) != orig:
        bad.append("__wrapped__ is not the original callable")
    for a in functools.WRAPPER_ASSIGNMENTS:
        if hasattr(orig, a):
            try:
                same = getattr(wrapped, a) == getattr(orig, a)
            except AttributeError:
                same = False
            if not same:
                bad.append(f"{a}: {getattr(wrapped, a, None)!r} != {getattr(orig, a)!r}")
    try:
        if inspect.signature(wrapped) != inspect.signature(orig):
            bad.append(f"signature: {inspect.signature(wrapped)} != {inspect.signature(orig)}")
    except (TypeError, ValueError) as e:
        bad.append(f"signature of the wrapper: {type(e).__name__}: {e}")
    return bad


def run_spec(job):
    """Child: one signature, all its calls, on the real library."""
    import inspect
    import warnings
    warnings.simplefilter("ignore")
    from typelib import binding
    spec = job["spec"]
    # two fresh callables: `wrap(cls)` mutates the class, binding objects are cached per callable
    tb, recb, infob = materialise(spec)
    tw, recw, infow = materialise(spec)
    t0, rec0, info0 = materialise(spec)          # never bound nor wrapped: Python's own binding of each call
    sigb, sigw, sig0 = inspect.signature(tb), inspect.signature(tw), inspect.signature(t0)
    out = {"calls": []}
    try:
        bound = binding.bind(tb)
        out["cls"] = type(bound.binding).__name__
    except BaseException as e:  # noqa: BLE001
        return {"setup_err": f"bind: {type(e).__name__}: {e}"}
    try:
        orig_init = tw.__dict__.get("__init__") if spec["kind"] == "class" else None
        wrapped = binding.wrap(tw)
        out["meta"] = meta_check(tw, wrapped, spec["kind"], orig_init)
        if spec["kind"] == "class":
            out["cls_init"] = type(binding._get_binding(orig_init)).__name__
    except BaseException as e:  # noqa: BLE001
        return {"setup_err": f"wrap: {type(e).__name__}: {e}"}
    for call in job["calls"]:
        res = {}
        for mode in ("bind", "wrap"):
            args = ["".join(["p", str(i)]) for i in range(call["n"])]
            kwargs = {k: "".join(["v_", k]) for k in call["kw"]}
            if mode == "bind":
                ba, py, insp = py_binding(t0, rec0, info0, sig0, args, kwargs)
                res["py"] = py
                res["inspect_agrees"] = insp == ("ok" in py)
                res["bind"] = end_to_end(bound, recb, sigb, ba, infob, spec, args, kwargs)
                # the binder's own output, also for calls Python rejects
                try:
                    ua, uk = bound.binding(tuple(args), dict(kwargs))
                    res["direct"] = {"ok": {
                        "args": [desc(x, args[i] if i < len(args) else None) for i, x in enumerate(ua)],
                        "kwargs": [[k, desc(v, kwargs.get(k))] for k, v in uk.items()]}}
                except BaseException as e:  # noqa: BLE001
                    res["direct"] = {"err": type(e).__name__, "msg": str(e)[:160]}
            else:
                ba, py, _ = py_binding(t0, rec0, info0, sig0, args, kwargs)
                res["wrap"] = end_to_end(wrapped, recw, sigw, ba, infow, spec, args, kwargs)
        out["calls"].append(res)
    return out


def run_chunk(jobs):
    return [run_spec(j) for j in jobs]


# ----------------------------------------------------------------------------------------------- comparison (parent)

def obs_of(d, key, sig):
    """[typename, value, identical-to-the-argument] -> the model's observation alphabet."""
    tn, val, same = d
    names = sig["po"] + sig["pk"] + ([sig["va"]] if sig["va"] else []) + sig["ko"] + ([sig["vk"]] if sig["vk"] else [])
    if same:
        return [None, val]
    if tn.startswith("Tag_"):
        p = tn[4:]
        if p == sig["va"]:
            return ["varpos", val]
        if p == sig["vk"]:
            return ["varkwd", val]
        return [names.index(p) if p in names else "?" + p, val]
    if tn == "str" and key is not None and val == key:
        return ["key", val]
    return ["?" + tn, val]


def real_view(v, sig, self_cell=False):
    args = [obs_of(d, None, sig) for d in v["args"]]
    if self_cell:
        args = [[None, "<self>"]] + args
    return {"args": args, "kwargs": [[k] + obs_of(d, k, sig) for k, d in v["kwargs"]]}


def model_ops(spec, call):
    args = [f"p{i}" for i in range(call["n"])]
    kwargs = [[k, f"v_{k}"] for k in call["kw"]]
    ops = [{"op": "binding.apply", "sig": model_sig(spec), "args": args, "kwargs": kwargs}]
    if spec["kind"] == "class":
        ops.append({"op": "binding.apply", "sig": model_sig(spec, True), "args": ["<self>"] + args, "kwargs": kwargs})
    return ops


def judge(res, spec, call, real, models):
    """Compare one call's real observations with the model (correspondence) and with the oracle (property)."""
    m = models[0]
    mw = models[1] if spec["kind"] == "class" else m
    inp = {"spec": spec, "call": call, "signature": sig_text(spec)}
    py_ok = "ok" in real["py"]
    res.count("python:" + ("accepts" if py_ok else "rejects"))
    res.count("inspect.Signature.bind:" + ("same verdict" if real.get("inspect_agrees") else "differs from the interpreter"))
    # ---------------- oracle on the real library (independent of the model)
    for mode in ("bind", "wrap"):
        r = real[mode]
        if py_ok:
            if "err" in r:
                res.failures.append({"what": f"{mode}(f)(*a, **k) raised {r['err']} on a call Python accepts", "input": inp,
                                     "mode": mode, "real": r})
            else:
                if r.get("oracle"):
                    res.failures.append({"what": f"{mode}(f): an argument was not converted by its own parameter's routine",
                                         "input": inp, "mode": mode, "violations": r["oracle"][:6]})
                if not r.get("ret_own"):
                    res.failures.append({"what": f"{mode}(f) did not return f's own result", "input": inp, "mode": mode})
                if not r.get("oracle") and r.get("ret_own"):
                    res.count(f"oracle:{mode}:ok")
        else:
            if r.get("err") != "TypeError":
                res.failures.append({"what": f"{mode}(f)(*a, **k) did not raise TypeError on a call Python rejects",
                                     "input": inp, "mode": mode, "real": {k: v for k, v in r.items() if k != "view"},
                                     "python": real["py"]})
            else:
                res.count(f"oracle:{mode}:rejected-stays-rejected")
    # ---------------- correspondence with the Lean model
    if core.model_skips(m) or core.model_skips(mw):
        res.skipped += 1
        res.count("model-unsupported")
        return
    sig0, sigw = model_sig(spec), model_sig(spec, spec["kind"] == "class")

    def disagree(what, realv, modelv):
        res.count("DISAGREE:" + what)
        res.disagreements.append({"what": what, "input": inp, "real": realv, "model": modelv})

    # acceptance: Python accepts => model accepts; Python rejects while the model accepts => a missing required argument
    if py_ok and not m["accepted"]:
        disagree("accepted", real["py"], {"accepted": m["accepted"]})
    elif not py_ok and m["accepted"] and "missing" not in real["py"]["err"]:
        disagree("accepted", real["py"], {"accepted": m["accepted"]})
    else:
        res.count("agree:accepted")
    # the binder's own output
    d = real["direct"]
    if "ok" in d:
        rv = real_view(d["ok"], sig0)
        if m["out"] == "raise" or rv != m["out"]:
            disagree("binder output", rv, m["out"])
        else:
            res.count("agree:binder-output")
            if any(c[1] == "key" for c in m["out"]["kwargs"]):
                res.count("agree:else-k-slip")
    elif d["err"] == "TypeError" and m["out"] == "raise":
        res.count("agree:binder-raises")
    else:
        disagree("binder output", d, m["out"])
    # end to end, accepted calls: what f received, in call order
    if py_ok:
        for mode, mm, sg, selfc in (("bind", m, sig0, False), ("wrap", mw, sigw, spec["kind"] == "class")):
            r = real[mode]
            if "view" not in r:
                disagree(f"{mode} end-to-end", {k: v for k, v in r.items()}, mm["out"])
                continue
            rv = real_view(r["view"], sg, selfc)
            if rv != mm["out"] or rv != mm["expected"]:
                disagree(f"{mode} end-to-end", rv, {"out": mm["out"], "expected": mm["expected"]})
            else:
                res.count(f"agree:{mode}-end-to-end")


def build_jobs(ctx):
    shp = shapes()
    n_specs = ctx.n(3 * len(shp), 16 * len(shp))
    cap = 36 if ctx.tier == "quick" else 120
    jobs = []
    for i in range(n_specs):
        shape = shp[i % len(shp)]
        kind = KINDS[(i // len(shp) + i) % 4] if i >= len(shp) else ("function" if i % 2 == 0 else ctx.rng.choice(KINDS[1:]))
        spec = make_spec(shape, ctx.rng, kind)
        jobs.append({"spec": spec, "calls": calls_for(spec, ctx.rng, cap)})
    return jobs


def evaluate(jobs, res):
    core.import_typelib()
    nchunk = max(1, min(32, len(jobs) // 8))
    chunks = [jobs[i::nchunk] for i in range(nchunk)]
    chunk_out = iso.map_isolated(run_chunk, chunks, timeout=240.0)
    real = [None] * len(jobs)
    for ci, (chunk, outs) in enumerate(zip(chunks, chunk_out)):
        if isinstance(outs, dict) and "crash" in outs:
            raise RuntimeError(f"harness: child crashed: {outs}")
        for k, o in enumerate(outs):
            real[ci + k * nchunk] = o
    lines, index = [], []
    for ji, job in enumerate(jobs):
        for ci, call in enumerate(job["calls"]):
            ops = model_ops(job["spec"], call)
            lines += ops
            index.append((ji, ci, len(ops)))
    answers = lean.drive(lines) if lines else []
    pos = 0
    res.programs += len(jobs)
    for ji, ci, n in index:
        job, call = jobs[ji], jobs[ji]["calls"][ci]
        spec = job["spec"]
        models = answers[pos:pos + n]
        pos += n
        ro = real[ji]
        if "setup_err" in ro:
            if ci == 0:
                res.failures.append({"what": "bind()/wrap() of a valid callable raised", "input": {"spec": spec, "call": call,
                                     "signature": sig_text(spec)}, "real": ro})
            continue
        for mo in models:
            if isinstance(mo, dict) and "bad" in mo:
                raise RuntimeError(f"harness: driver rejected the op: {mo}")
        case = {"sig": sig_text(spec), "n": call["n"], "kw": call["kw"]}
        res.case(case, call["n"] + len(call["kw"]) > 0)
        if ci == 0:
            row = "".join("1" if b else "0" for b in row_of(spec))
            res.count(f"row:{row}:{ro['cls']}")
            res.count("kind:" + spec["kind"])
            inp = {"spec": spec, "call": None, "signature": sig_text(spec)}
            if ro.get("meta"):
                res.failures.append({"what": "wrap() does not preserve the callable's metadata", "input": inp, "mode": "meta",
                                     "violations": ro["meta"]})
            else:
                res.count("oracle:wrap-metadata-ok")
            if not core.model_skips(models[0]) and models[0].get("cls") != ro["cls"]:
                res.disagreements.append({"what": "selected class", "input": inp, "real": ro["cls"], "model": models[0].get("cls")})
            if spec["kind"] == "class" and not core.model_skips(models[1]) and models[1].get("cls") != ro.get("cls_init"):
                res.disagreements.append({"what": "selected class (__init__)", "input": inp, "real": ro.get("cls_init"),
                                          "model": models[1].get("cls")})
        judge(res, spec, call, ro["calls"][ci], models)


# ---- callables whose own signature is not that of a plain `def` (oracle only): methods without a named self, class / static
# methods, partials, functions with __wrapped__ / __signature__; the reference is Python's own binding + typelib.unmarshal
ODD_SRC = """
import decimal, functools, inspect
class Registry:
    def selfless(*args: int, **kw: float):
        return ("selfless", args[1:], kw)
    @classmethod
    def clsless(*args: int, **kw: float):
        return ("clsless", args[1:], kw)
    def selfless_kwonly(*args: decimal.Decimal, flag: int, **kw: float):
        return ("selfless_kwonly", args[1:], flag, kw)
    @classmethod
    def cm(cls, a: int, /, b: float = 1.0, *rest: str, k: int = 0):
        return ("cm", a, b, rest, k)
    @staticmethod
    def sm(a: int, *rest: float, **kw: str):
        return ("sm", a, rest, kw)
    def plain(self, a: int, b: decimal.Decimal = decimal.Decimal(1), *, k: float = 0.0):
        return ("plain", a, b, k)
def base(a: int, b: float, *rest: int, k: str = "k", **kw: int):
    return ("base", a, b, rest, k, kw)
part = functools.partial(base, 1)
def deco(f):
    @functools.wraps(f)
    def inner(*a, **k):
        return f(*a, **k)
    return inner
wrapped = deco(base)
def factory(t):
    def setter(value: t, *more: t, **named: t):
        return ("setter", value, more, named)
    return setter
set_int, set_dec = factory(int), factory(decimal.Decimal)
reg = Registry()
def unann(a: int, b=3, *rest, sep=",", strict=False, ratio=1.5, tags=(), **kw):
    return ("unann", a, b, rest, sep, strict, ratio, tags, kw)
class Unann:
    def __init__(self, a: int, b=3, *, title="x"):
        self.state = ("Unann", a, b, title)
    def m(self, a, b=0.5, name="n"):
        return ("m", a, b, name)
    def __repr__(self):
        return repr(self.state)
una = Unann("1")
"""
ODD_CALLS = [
    ("reg.selfless", ("1", "2"), {"x": "3.5"}), ("reg.selfless", ("7",), {}), ("Registry.clsless", ("8", "9"), {"z": "1"}),
    ("reg.selfless_kwonly", ("1.10",), {"flag": "7", "y": "2"}), ("reg.cm", ("1", "2", 3, 4), {"k": "5"}), ("Registry.cm", ("1",), {}),
    ("reg.sm", ("1", "2", "3"), {"q": 4}), ("Registry.sm", ("1",), {}), ("reg.plain", ("1", "2.5"), {"k": "3"}), ("reg.plain", ("1",), {"b": "7"}),
    ("Registry.plain", (None, "1", "2"), {}), ("base", ("1", "2", "3", "4"), {"k": 5, "z": "6"}), ("wrapped", ("1", "2"), {"k": 5}),
    ("set_int", ("1", "2"), {"x": "3"}), ("set_dec", ("1.50", "2.25"), {"x": "3"}), ("set_int", ("4",), {}),
    # parameters WITHOUT annotation are untouched whatever their default is
    ("unann", ("1", "2.5", "x", 7), {"sep": 0, "strict": "no", "ratio": "3", "tags": "ab", "extra": "1"}), ("unann", ("1", 2.5), {}),
    ("unann", ("1",), {"b": "7", "strict": 1}), ("Unann", ("1", "120"), {"title": 7}), ("una.m", ("1", "2"), {"name": 5}),
    ("reg.selfless_kwonly", ("1",), {}),       # Python rejects: missing keyword-only argument
]


def _odd_child(_job):
    import inspect
    import sys
    import types
    import warnings
    warnings.simplefilter("ignore")
    import typelib
    from typelib import binding
    mod = types.ModuleType("vm_c10_odd")
    sys.modules["vm_c10_odd"] = mod
    exec(ODD_SRC, mod.__dict__)
    out = []

    def conv(ann, v):
        return v if ann is inspect.Parameter.empty else typelib.unmarshal(ann, v)
    for expr, args, kwargs in ODD_CALLS:
        f = eval(expr, mod.__dict__)
        rec = {"callable": expr, "args": repr(args), "kwargs": repr(kwargs)}
        try:
            sig = inspect.signature(f)
            ba = sig.bind(*args, **kwargs)
            for name, val in list(ba.arguments.items()):
                p = sig.parameters[name]
                if p.kind is p.VAR_POSITIONAL:
                    ba.arguments[name] = tuple(conv(p.annotation, x) for x in val)
                elif p.kind is p.VAR_KEYWORD:
                    ba.arguments[name] = {k: conv(p.annotation, x) for k, x in val.items()}
                else:
                    ba.arguments[name] = conv(p.annotation, val)
            exp = ("ok", repr(f(*ba.args, **ba.kwargs)))
        except TypeError:
            exp = ("err", "type")
        except Exception as e:  # noqa: BLE001
            exp = ("err", enc.err_class(e))
        for how, g in (("bind", lambda: binding.bind(f)), ("wrap", lambda: binding.wrap(f))):
            try:
                got = ("ok", repr(g()(*args, **kwargs)))
            except TypeError:
                got = ("err", "type")
            except Exception as e:  # noqa: BLE001
                got = ("err", enc.err_class(e))
            rec[how] = got
        rec["expected"] = exp
        out.append(rec)
    return out


def odd_callables_probe(res):
    from .. import core, iso
    core.import_typelib()
    out = iso.map_isolated(_odd_child, [None], timeout=120)[0]
    if not isinstance(out, list):
        raise RuntimeError(f"harness: odd-callables probe failed: {out}")
    for rec in out:
        res.case({"callable": rec["callable"], "args": rec["args"], "kwargs": rec["kwargs"]}, True)
        for how in ("bind", "wrap"):
            if rec[how] != rec["expected"]:
                res.failures.append({"what": f"{how}({rec['callable']})(*{rec['args']}, **{rec['kwargs']}) gave {rec[how]}; every argument converted "
                                             f"per the parameter it binds to gives {rec['expected']}",
                                     "input": {"odd_callable": rec["callable"], "args": rec["args"], "kwargs": rec["kwargs"]}})
            else:
                res.count("oracle:odd-callable-ok")


# ---- parameters annotated with builtin / standard-library types, arguments of every class incl. SUBCLASS instances (a datetime for
# a date parameter, a bool for an int one): the argument the callable receives is unmarshal(annotation, argument), nothing less
STD_ANNOTS = ["int", "float", "str", "bytes", "bool", "datetime.date", "datetime.datetime", "datetime.time", "datetime.timedelta",
              "decimal.Decimal", "fractions.Fraction", "uuid.UUID", "pathlib.PurePosixPath", "list[int]", "dict[str, int]", "tuple[int, str]",
              "typing.Optional[datetime.date]", "typing.Union[int, str]", "set[int]", "typing.List[datetime.date]", "Level", "typing.Literal[1, 'a']"]
STD_VALUES = ["DT", "datetime.date(2021, 2, 3)", "'2020-01-02'", "5", "True", "'5'", "1.5", "decimal.Decimal('1.50')", "Level.LOW", "S('ab')", "b'7'",
              "None", "[1, '2']", "(1, 'x')", "{'a': '1'}", "collections.OrderedDict(a=True)", "collections.deque([True, 2])",
              "uuid.UUID(int=7)", "pathlib.PurePosixPath('a/b')", "datetime.time(1, 2, tzinfo=datetime.timezone.utc)",
              "datetime.timedelta(seconds=90)", "fractions.Fraction(1, 2)", "[DT, '2020-01-02']", "MyList([True])", "bytearray(b'8')"]
STD_SRC = """
import collections, datetime, decimal, enum, fractions, pathlib, typing, uuid
class Level(enum.IntEnum):
    LOW = 1
class S(str):
    pass
class MyList(list):
    pass
DT = datetime.datetime(2020, 1, 2, 3, 4, 5, tzinfo=datetime.timezone.utc)
def make(A):
    def f(a: A, /, b: A, *rest: A, k: A, **kw: A):
        return (a, b, rest, k, kw)
    class C:
        def m(self, a: A, b: A = None, *rest: A, **kw: A):
            return (a, b, rest, kw)
    return f, C().m
"""


def _std_child(ann):
    import sys
    import types
    import warnings
    warnings.simplefilter("ignore")
    import typelib
    from typelib import binding
    mod = types.ModuleType("vm_c10_std")
    sys.modules["vm_c10_std"] = mod
    ns = mod.__dict__
    _exec(STD_SRC, ns)          # (compiled without this file's `from __future__ import annotations`: the annotation is the local A)
    A = eval(ann, ns)
    f, m = ns["make"](A)

    def show(x):
        if isinstance(x, dict):
            return ["dict", [[show(k), show(v)] for k, v in x.items()]]
        if isinstance(x, (set, frozenset)):
            return [type(x).__name__, sorted(repr(show(e)) for e in x)]
        if isinstance(x, (list, tuple)):
            return [type(x).__name__] + [show(e) for e in x]
        return f"{type(x).__name__}:{x!r}"
    out = []
    for src in STD_VALUES:
        v = eval(src, ns)
        try:
            c = typelib.unmarshal(A, v)
            c2 = typelib.unmarshal(A, eval(src, ns))
            exp_f, exp_m = ("ok", show((c, c, (c2,), c, {"x": c2}))), ("ok", show((c, c2, (c,), {"x": c2})))
        except Exception as e:  # noqa: BLE001
            exp_f = exp_m = ("err", enc.err_class(e))
        for label, fn, call, exp in (("f", f, lambda g: g(v, v, eval(src, ns), k=v, x=eval(src, ns)), exp_f),
                                     ("method", m, lambda g: g(v, eval(src, ns), v, x=eval(src, ns)), exp_m)):
            for how, mk in (("bind", binding.bind), ("wrap", binding.wrap)):
                try:
                    got = ("ok", show(call(mk(fn))))
                except Exception as e:  # noqa: BLE001
                    got = ("err", enc.err_class(e))
                out.append([src, f"{how}({label})", got == exp, repr(got)[:200], repr(exp)[:200]])
    return out


def std_annotations_probe(res):
    from .. import core, iso
    core.import_typelib()
    outs = iso.map_isolated(_std_child, STD_ANNOTS, timeout=120)
    for ann, o in zip(STD_ANNOTS, outs):
        if not isinstance(o, list):
            raise RuntimeError(f"harness: std-annotation probe failed: {ann}: {o}")
        for src, how, ok, got, exp in o:
            res.case({"annotation": ann, "argument": src, "how": how}, True)
            if ok:
                res.count("oracle:std-annotated-parameter-ok")
            else:
                res.failures.append({"what": f"{how} with every parameter annotated {ann}, argument {src} at every position: the callable received {got}; "
                                             f"unmarshal({ann}, argument) per parameter gives {exp}", "input": {"std_annotation": ann, "argument": src}})


# ---- callables that compare EQUAL and are different objects (value-like strategy instances, keyed handlers): the callable that is
# bound / wrapped is the one that is called
EQUAL_SRC = """
import dataclasses, decimal, typing, typelib
@dataclasses.dataclass(frozen=True)
class Pricer:
    key: str
    label: str = dataclasses.field(default='', compare=False, repr=False)
    seen: list = dataclasses.field(default_factory=list, compare=False, repr=False)
    def __call__(self, qty: int, price: decimal.Decimal = decimal.Decimal(1)) -> tuple:
        self.seen.append(qty)
        return (self.label, qty, price)
class Keyed:
    def __init__(self, key, label):
        self.key, self.label, self.calls = key, label, 0
    def __eq__(self, other):
        return isinstance(other, Keyed) and other.key == self.key
    def __hash__(self):
        return hash(self.key)
    def __call__(self, n: int):
        self.calls += 1
        return (self.label, n)
"""


def _equal_child(_job):
    import decimal
    import warnings
    warnings.simplefilter("ignore")
    ns = {}
    _exec(EQUAL_SRC, ns)
    import typelib
    bad = []
    for how in ("bind", "wrap"):
        from typelib import binding as _b
        mk = _b.bind if how == "bind" else _b.wrap
        for order in ((0, 1), (1, 0)):
            ps = [ns["Pricer"]("k", "first"), ns["Pricer"]("k", "second")]
            ks = [ns["Keyed"]("k", "first"), ns["Keyed"]("k", "second")]
            for objs, args, want in ((ps, ("3", "2.50"), lambda o: (o.label, 3, decimal.Decimal("2.50"))), (ks, ("4",), lambda o: (o.label, 4))):
                try:
                    bound = {i: mk(objs[i]) for i in order}
                    for i in order:
                        got = bound[i](*args)
                        if got != want(objs[i]):
                            bad.append(f"{how}({type(objs[i]).__name__} {objs[i].label!r}) called with {args}: got {got!r}, the callable itself gives "
                                       f"{want(objs[i])!r} (an equal callable was {how}-ed {'before' if i == order[1] else 'after'} it)")
                    counts = [len(o.seen) if hasattr(o, "seen") else o.calls for o in objs]
                    if counts != [1, 1]:
                        bad.append(f"{how}: two equal {type(objs[0]).__name__} callables, each called once through its own routine: calls received {counts}")
                except Exception as e:  # noqa: BLE001
                    bad.append(f"{how}({type(objs[0]).__name__}) raised {type(e).__name__}: {e}"[:200])
    return bad


# ---- known findings unhashableCallable / bracketReprCallable: callable INSTANCES that cannot be bound at all on the pinned tree
INSTANCE_SRC = """
import dataclasses
@dataclasses.dataclass
class Unhashable:
    # eq=True without frozen: instances are unhashable
    seen: tuple = ()
    def __call__(self, n: int):
        return ("u", n)
class Bracket:
    def __repr__(self):
        return "Bracket[1]"
    def __call__(self, n: int):
        return ("b", n)
class Plain:
    def __call__(self, n: int):
        return ("p", n)
"""


def _instance_child(_job):
    import warnings
    warnings.simplefilter("ignore")
    ns = {}
    _exec(INSTANCE_SRC, ns)
    from typelib import binding as _b
    out = []
    for cls, tag in (("Plain", "p"), ("Unhashable", "u"), ("Bracket", "b")):
        for how in ("bind", "wrap"):
            try:
                got = getattr(_b, how)(ns[cls]())("3")
                out.append([cls, how, got == (tag, 3), repr(got)])
            except Exception as e:  # noqa: BLE001
                out.append([cls, how, False, f"{type(e).__name__}: {e}"[:120]])
    return out


def callable_instances_probe(res):
    from .. import core, iso
    core.import_typelib()
    out = iso.map_isolated(_instance_child, [None], timeout=60)[0]
    if not isinstance(out, list):
        raise RuntimeError(f"harness: callable-instance probe failed: {out}")
    known = {"Unhashable": ("unhashableCallable", "TypeError: unhashable type"), "Bracket": ("bracketReprCallable", "TypeError: issubclass() arg 1 must be a class")}
    for cls, how, ok, got in out:
        res.case({"family": "callable-instance", "class": cls, "how": how}, True)
        if ok:
            res.count("oracle:callable-instance-bound")
            continue
        f = {"what": f"{how}({cls}())('3') -> {got}; the callable itself gives ({cls[0].lower()!r}, 3)", "input": {"callable_instance": [cls, how]}}
        if cls in known and got.startswith(known[cls][1]):
            f["finding"] = known[cls][0]
        res.failures.append(f)


def equal_callables_probe(res):
    from .. import core, iso
    core.import_typelib()
    bad = iso.map_isolated(_equal_child, [None], timeout=60)[0]
    if not isinstance(bad, list):
        raise RuntimeError(f"harness: equal-callables probe failed: {bad}")
    res.case({"family": "equal-but-distinct-callables"}, True)
    for b in bad:
        res.failures.append({"what": b[:400], "input": {"equal_callables": True}})
    if not bad:
        res.count("oracle:equal-callables-each-called-itself", 16)


def explore(ctx):
    res = Result()
    res.rule = RULE
    jobs = build_jobs(ctx)
    evaluate(jobs, res)
    odd_callables_probe(res)
    std_annotations_probe(res)
    equal_callables_probe(res)
    callable_instances_probe(res)
    rows = {k.split(":")[1] for k in res.stats if k.startswith("row:")}
    res.extra["presence_rows_covered"] = len(rows)
    return res


def witness(fid):
    return None


def replay(failure):
    inp = failure["input"]
    if "callable_instance" in inp:
        from .. import core, iso
        core.import_typelib()
        out = iso.map_isolated(_instance_child, [None], timeout=60)[0]
        mine = [r for r in out if r[:2] == inp["callable_instance"]] if isinstance(out, list) else out
        print(json.dumps(mine, indent=1)[:2000])
        return not isinstance(out, list) or any(not r[2] for r in mine)
    if "equal_callables" in inp:
        from .. import core, iso
        core.import_typelib()
        bad = iso.map_isolated(_equal_child, [None], timeout=60)[0]
        print(json.dumps(bad, indent=1)[:3000])
        return bool(bad)
    if "std_annotation" in inp:
        from .. import core, iso
        core.import_typelib()
        out = iso.map_isolated(_std_child, [inp["std_annotation"]], timeout=120)[0]
        bad = [r for r in out if not r[2]] if isinstance(out, list) else out
        print(json.dumps(bad, indent=1)[:3000])
        return bool(bad)
    if "odd_callable" in inp:
        from .. import core, iso
        core.import_typelib()
        out = iso.map_isolated(_odd_child, [None], timeout=120)[0]
        bad = [r for r in out if r["callable"] == inp["odd_callable"] and (r["bind"] != r["expected"] or r["wrap"] != r["expected"])]
        print(json.dumps(bad, indent=1))
        return bool(bad)
    spec = inp["spec"]
    call = inp.get("call") or {"n": 0, "kw": []}
    res = Result()
    evaluate([{"spec": spec, "calls": [call]}], res)
    print(json.dumps({"signature": inp.get("signature"), "call": call, "failures": res.failures[:4],
                      "disagreements": res.disagreements[:4]}, indent=1, default=str)[:4000])
    return bool(res.failures)
