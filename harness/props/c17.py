"""C17 — Type predicates agree with Python's own type semantics (typelib.py.inspection).

Before the Lean build: `harness/_extract_inspect.py` regenerates `Gen/Lattice.lean` (the runtime's class lattice +
typelib's tables over it); the adequacy `decide`s of Props/C17.lean are re-checked against it by the runner's build.

explore():
  * real side: every public predicate / accessor on every catalogue object and on generated annotations (both spellings
    of every generic, NewType / TypeAliasType chains, Final / ClassVar, unions in the three spellings, Literal, TypeVars,
    Callable, Any, ForwardRef), each asked twice, in forked children (the predicates are functools.cache'd by `==`);
    equal-but-distinct spellings are asked in both orders in separate children;
  * correspondence: the same annotations through the Lean driver op `inspect.eval` (Model/Inspect.lean over Gen.lattice);
  * oracle (independent of model and typelib): issubclass / typing.get_origin / get_args / dataclasses / inspect on the
    class the annotation resolves to; never raises in the domain; stable; spelling-independent; origin() instantiable;
  * signature helpers and instance predicates against inspect / typing / isinstance (oracle only).
"""
from __future__ import annotations

import collections
import collections.abc as cabc
import dataclasses
import datetime
import decimal
import enum
import fractions
import functools
import inspect
import json
import numbers
import operator
import os
import pathlib
import re
import sqlite3
import subprocess
import sys
import types
import typing
import uuid

from .. import _extract_inspect as cat
from .. import core, iso, lean
from ..runner import Result
from .hints_corr import hints_correspondence, hints_replay

ID = "C17"
LEVEL = "proof"
LEVEL_TEXT = ("Kernel-checked theorems (Props/C17.lean) over an executable model of inspection.py's origin / resolve_supertype / "
              "unwrap / the is*type family on an inductive annotation syntax (NewType / TypeAliasType / ClassVar / Final / TypeVar "
              "wrappers of ANY depth, both spellings of every generic, the three union spellings). The runtime's class lattice is "
              "DATA: Gen/Lattice.lean is regenerated on every run from the running interpreter (issubclass of each of 166 catalogue "
              "objects against each ABC / base the predicates test, typing.get_origin, str/__qualname__, instantiability) together "
              "with typelib's live tables (GENERIC_TYPE_MAP, _COLLECTIONS, _MAPPING_TYPES, _UNRESOLVABLE, BUILTIN_TYPES, STDLIB_TYPES), "
              "and the decidable predicate `adequate` is re-decided against it (lattice_adequate, lattice_ordinary). The theorems are "
              "about wrappers and spellings over ANY adequate table: predA_agrees + isdatetype_agrees ... ismappingtype_agrees and "
              "predB_agrees + isenumtype_agrees ... ispathtype_agrees (all 22 class-valued predicates never raise and equal the "
              "runtime's issubclass on the resolved class for chains of NewTypes and aliases of any length in any interleaving, either "
              "spelling; issequencetype under the decidable hypothesis seqConsistent); predA_unwrapped_agrees / predA_unwrapped_chain / "
              "predB_unwrapped_agrees + is*_unwrapped_agrees (the same after unwrap, with Final / ClassVar / TypeVar-bound on top); "
              "predA_spelling_invariant, predB_spelling_invariant and the *_spelling_invariant theorems of the special-form predicates "
              "(the answer depends only on the erased annotation); unwrap_strips, unwrap_idem, core_not_wrapper; origin_instantiable + "
              "origin_mapped_same_kind (mapped ABCs and concrete classes); syntactic specifications isuniontype_spec, "
              "isoptionaltype_spec, isliteral_spec, isfinal_spec, isclassvartype_spec, isnonetype_spec, isforwardref_spec, "
              "isunresolvable_resolved, issubscriptedgeneric_spec_partial, isfixedtupletype_spec. Where the code does not meet the full "
              "statement (the four known findings) the weaker theorem carries an explicit decidable hypothesis and the negation is "
              "proved at a concrete witness of the regenerated table (issequencetype_disagrees_witness, origin_not_instantiable_witness, "
              "issubscriptedgeneric_pipe_witness, classvar_optional_witness). "
              "NOT covered by a theorem, checked by the runtime oracle only: the signature helpers (signature, get_type_hints, "
              "typed_dict_signature, tuple_signature, safe_get_params, simple_attributes), name / qualname / args on composite "
              "annotations, isstdlibtype / isstructuredtype / isgeneric, and the instance predicates (ishashable, isproperty, "
              "isdescriptor, isbuiltininstance, isstdlibinstance, issimpleattribute). "
              "How the MEMBER HINTS of a class or callable are obtained — get_type_hints(obj, exhaustive), _hints_from_signature, "
              "signature with typed_dict_signature / tuple_signature / the named-tuple exception, cached_type_hints / cached_signature, "
              "and which annotation the binder takes per parameter — has its own model (Model/Hints.lean: the class as its MRO of "
              "(module, own namespace, own annotations, own constructor), the interpreter's module namespaces, CPython's "
              "typing.get_type_hints walk) and theorems (Props/Hints.lean: hints_mro_modules, non_exhaustive_never_signature, "
              "hints_stateless, namedtuple_keeps_signature, callable_params_by_own_annotation, kw_only_dropped, "
              "typeddict_signature_spec, tuple_signature_spec, each with a `_needed` counter-model taken from a seeded regression), "
              "tied to /repo by harness/props/hints_corr.py on every run.")
LEVEL_NOTE = ("Trusted: Lean kernel; axioms propext, Classical.choice, Quot.sound; the hand-written model Model/Inspect.lean (tied by "
              "the per-run correspondence, not verified); harness/_extract_inspect.py (the table IS the runtime's answer for the "
              "catalogue; objects outside the catalogue are covered only through the adequacy hypothesis); the harness oracle; names of "
              "synthesised NewType / alias / TypeVar objects are assumed not to be Union / UnionType / Optional / Literal.")
TECHNIQUE = ("Lean 4 proof over an executable model parameterised by a table of runtime facts: induction over wrapper chains, "
             "decidable table adequacy re-decided on the regenerated lattice; differential correspondence through the native driver; "
             "independent runtime oracle (issubclass / typing / inspect / dataclasses) in forked children")
DESIGN_REF = "DESIGN.md §5 C17"
MODULES = ["TypelibModel.Props.C17", "TypelibModel.Props.Hints"]
TABLES = False          # this module regenerates its own table (Gen/Lattice.lean) at import time, before the runner builds
RULE = ("catalogue-driven enumeration + sampling: every base object of the catalogue (builtins, stdlib types the library names, every "
        "collections.abc ABC and typing alias, synthesised user classes of each flavour) x every subscriptable generic in both spellings "
        "x NewType / TypeAliasType chains of length <= 3 (all 14 shapes on a rotating subset of cores, length <= 2 on all) x Final / ClassVar "
        "x unions in typing / Optional / pipe spelling over sampled member sets (both orders, separate children) x Literal, TypeVars "
        "(free, bound, constrained), Callable, ForwardRef; every predicate on every annotation, twice; a case = (annotation, predicate); "
        "non-trivial when the annotation is not a bare builtin; distinct = distinct (annotation, predicate). "
        "Member hints (hints_corr.py): a fixed grid of synthesised classes (plain / dataclass / TypedDict / NamedTuple / "
        "collections.namedtuple / tuple subclass / annotated on __init__ only / unresolvable annotations) x alone | subclass in the same | "
        "in the OTHER of two modules binding the same names differently x postponed | evaluated annotations x subclass overriding "
        "__init__, plus functions, methods, callable instances and tuple aliases; every group twice, visited base first and subclass "
        "first in one process and revisited; a case = (object, question)")
ASSUMPTIONS = [
    "the catalogue is the universe: the theorems hold for any table passing `adequate`; for objects outside the catalogue the table "
    "facts are a hypothesis",
    "the documented abstract-to-builtin mapping is GENERIC_TYPE_MAP as imported (checked against the harness's own copy of the "
    "documented pairs and, in Lean, for kind preservation: issubclass(value, key) per the runtime)",
    "issequencetype's oracle is its docstring (Collection-like membership), ismappingtype's oracle admits the library's named "
    "mapping-like classes (_MAPPING_TYPES: sqlite3.Row is not a collections.abc.Mapping)",
    "class-valued predicates applied to special forms (unions, Literal, Final, ClassVar, TypeVar, ForwardRef, None, Callable[...], "
    "type[...] and metaclasses, which origin() maps to typing.Callable) "
    "are outside the domain: compared with the model only",
]
TRUSTED = ["harness/props/c17.py (generators, materialiser, oracle)", "harness/_extract_inspect.py (catalogue + table extraction)",
           "lean/TypelibModel/Drv/Inspect.lean (driver glue)",
           "harness/props/hints_corr.py (class synthesis, description extraction), lean/TypelibModel/Drv/Hints.lean, Model/Hints.lean",
           "hand-written model Model/Inspect.lean tied to inspection.py by this correspondence"]

SRC = os.environ.get("TYPELIB_SRC", "/repo/src")


# ----------------------------------------------------------------------------------------------- table regeneration

def regenerate():
    """Run the extractor child on the tree under test; rewrite Gen/Lattice.lean if it changed (under the project lock)."""
    with lean.Lock():
        p = subprocess.run([sys.executable, os.path.join(lean.ROOT, "harness", "_extract_inspect.py"), SRC],
                           capture_output=True, text=True, timeout=300)
    if p.returncode != 0:
        raise RuntimeError("lattice extraction failed: " + p.stderr[-2000:])
    return json.loads(p.stdout.strip().split("\n")[-1])


try:
    TABLE_INFO = regenerate()
    TABLE_ERR = None
except Exception as _e:  # noqa: BLE001
    TABLE_INFO, TABLE_ERR = {}, f"{type(_e).__name__}: {_e}"


# ----------------------------------------------------------------------------------------------- predicates

GROUP_A = {  # origin-based, unguarded issubclass: name -> ABC / base of the runtime oracle
    "isdatetype": datetime.date, "isdatetimetype": datetime.datetime, "istimetype": datetime.time,
    "istimedeltatype": datetime.timedelta, "isdecimaltype": decimal.Decimal, "isfractiontype": fractions.Fraction,
    "isuuidtype": uuid.UUID, "isiterabletype": cabc.Iterable, "isiteratortype": cabc.Iterator, "istupletype": tuple,
    "issequencetype": cabc.Collection,        # documented meaning (docstring): Collection-like
    "iscollectiontype": cabc.Collection, "ismappingtype": cabc.Mapping,
}
GROUP_B = {  # _safe_issubclass on the object itself
    "isenumtype": enum.Enum, "istexttype": (str, bytes, bytearray, memoryview), "isstringtype": str,
    "isbytestype": (bytes, bytearray, memoryview), "isnumbertype": numbers.Number, "isintegertype": int,
    "isfloattype": float, "ispatterntype": re.Pattern, "ispathtype": pathlib.PurePath,
}
SPECIAL = ["isoptionaltype", "isuniontype", "isliteral", "isfinal", "isclassvartype", "should_unwrap", "isunresolvable",
           "isnonetype", "isforwardref", "istypealiastype", "isgeneric", "issubscriptedgeneric", "isfixedtupletype",
           "istypeddict", "isnamedtuple", "istypedtuple", "iscallable", "isbuiltintype", "isbuiltinsubtype", "isstdlibsubtype",
           "issubscriptedcollectiontype"]
ORACLE_ONLY = ["isstdlibtype", "isstructuredtype", "isfromdictclass", "isfrozendataclass", "isabstract"]
ACCESSORS = ["origin", "unwrap", "resolve_supertype", "name", "qualname", "args"]
MODELLED = list(GROUP_A) + list(GROUP_B) + SPECIAL + ["origin", "unwrap", "resolve_supertype", "name", "qualname"]
ALL_PREDS = list(GROUP_A) + list(GROUP_B) + SPECIAL + ORACLE_ONLY + ACCESSORS
# predicates whose answer must not depend on the spelling of a generic / union
SPELLING_INVARIANT = (list(GROUP_A) + list(GROUP_B) +
                      ["isoptionaltype", "isuniontype", "isliteral", "isfinal", "isclassvartype", "should_unwrap", "isunresolvable",
                       "isnonetype", "isforwardref", "issubscriptedgeneric", "isfixedtupletype", "istypeddict", "isnamedtuple",
                       "istypedtuple", "iscallable", "isbuiltintype", "isstdlibtype", "isstructuredtype"])

# the documented abstract -> builtin pairs (the harness's own copy; compared with the live GENERIC_TYPE_MAP)
DOC_MAP = {cabc.Sequence: list, cabc.MutableSequence: list, cabc.Collection: list, cabc.Iterable: list, cabc.Set: set,
           cabc.MutableSet: set, cabc.Mapping: dict, cabc.MutableMapping: dict, cabc.Hashable: str}
DOC_MAPPING_EXTRA = (dict, sqlite3.Row, types.MappingProxyType)
DOC_BUILTINS = (int, bool, float, str, bytes, bytearray, list, set, frozenset, tuple, dict, type(None))

# triage identifiers of behaviours of the unchanged tree that contradict the statement (reported, not hidden)
F_SEQ = "sequenceNotCollection"
F_ABSTRACT = "originAbstractABC"
F_REPR = "reprBasedGenericDetection"
F_CVLIT = "classVarLookThrough"
BARE_SPECIAL = {"typing.Union", "types.UnionType", "typing.Optional", "typing.Literal", "typing.Final", "typing.ClassVar",
                "typing.Generic"}
# not modelled: `types.UnionType.__args__` is a member descriptor, iterating it raises
UNMODELLED = {("types.UnionType", "isoptionaltype"), ("types.UnionType", "isfixedtupletype")}


# ----------------------------------------------------------------------------------------------- annotations: specs and objects

class Env:
    """Materialises annotation specs (the JSON encoding of Drv/Inspect.lean) into real objects."""

    def __init__(self, inspection=None):
        self.bases = cat.catalogue(inspection)
        self.by_name = dict(self.bases)
        self.name_of = {id(o): n for n, o in self.bases}
        self.made = {}
        self.keep = []
        self.n = 0

    def fresh(self, p):
        self.n += 1
        return f"{p}{self.n}"

    def mat(self, s):
        k = s[0]
        if k == "b":
            return self.by_name[s[1]]
        if k == "s":
            g = self.by_name[s[1]]
            args = [self.mat(x) for x in s[2]]
            og = typing.get_origin(g) or g
            if og is cabc.Callable:
                return g[[*args[:-1]], args[-1]]
            if not args:
                return g[()]
            return g[tuple(args)] if len(args) > 1 else g[args[0]]
        if k == "u":
            ms = [self.mat(x) for x in s[2]]
            if s[1] == "typing":
                return typing.Union[tuple(ms)]
            if s[1] == "optional":
                return typing.Optional[typing.Union[tuple(ms)]]
            return functools.reduce(operator.or_, ms)
        if k == "l":
            return typing.Literal[1, None] if s[1] else typing.Literal[1, "a"]
        if k == "F":
            return typing.Final[self.mat(s[1])]
        if k == "C":
            return typing.ClassVar[self.mat(s[1])]
        if k == "N":
            o = typing.NewType(self.fresh("NewT"), self.mat(s[1]))
        elif k == "A":
            o = typing.TypeAliasType(self.fresh("AliasT"), self.mat(s[1]))
        elif k == "tb":
            o = typing.TypeVar(self.fresh("TV"), bound=self.mat(s[1]))
        elif k == "tc":
            o = typing.TypeVar(self.fresh("TV"), *[self.mat(x) for x in s[1]])
        elif k == "tf":
            o = typing.TypeVar(self.fresh("TV"))
        elif k == "r":
            o = typing.ForwardRef(("Literal[1]" if s[2] else "Literal") if s[1] else ("List[int]" if s[2] else "int"))
        else:
            raise ValueError(f"bad spec {s}")
        self.made[id(o)] = s
        self.keep.append(o)
        return o

    def dec(self, o):
        """Object -> spec (what `origin` / `unwrap` returned)."""
        try:
            if id(o) in self.name_of:
                return ["b", self.name_of[id(o)]]
            if id(o) in self.made:
                return self.made[id(o)]
            if isinstance(o, types.UnionType):
                return ["u", "pipe", [self.dec(x) for x in typing.get_args(o)]]
            og = typing.get_origin(o)
            if og is typing.Union:
                return ["u", "typing", [self.dec(x) for x in typing.get_args(o)]]
            if og is typing.Literal:
                return ["l", None in typing.get_args(o)]
            if og is typing.Final:
                return ["F", self.dec(typing.get_args(o)[0])]
            if og is typing.ClassVar:
                return ["C", self.dec(typing.get_args(o)[0])]
            if og is not None:
                if isinstance(o, types.GenericAlias):
                    g = og
                else:
                    g = getattr(typing, getattr(o, "_name", "") or "", None)
                    if g is None or typing.get_origin(g) is not og:
                        g = og
                args = typing.get_args(o)
                if og is cabc.Callable and args and isinstance(args[0], list):
                    args = (*args[0], *args[1:])
                if id(g) in self.name_of:
                    return ["s", self.name_of[id(g)], [self.dec(x) for x in args]]
        except Exception:  # noqa: BLE001
            pass
        return ["?", repr(o)[:80]]


def canon(s):
    """Spec up to what Python itself identifies: Optional[...] IS Union[..., None]; the members of a union are compared
    as a set (typing's own subscription cache is keyed by an order-insensitive ==, so `Optional[Union[a, b]]` may come
    back with the member order of an earlier `Optional[Union[b, a]]`)."""
    if not isinstance(s, list) or not s:
        return s
    k = s[0]
    if k == "u":
        ms = [canon(x) for x in s[2]]
        if s[1] == "optional":
            return ["u", "typing", sorted(ms + [["b", "NoneType"]], key=json.dumps)]
        return ["u", s[1], sorted(ms, key=json.dumps)]
    if k in ("s",):
        return ["s", s[1], [canon(x) for x in s[2]]]
    if k in ("F", "C", "N", "A", "tb"):
        return [k, canon(s[1])]
    if k == "tc":
        return ["tc", [canon(x) for x in s[1]]]
    return s


def show(s):
    """Readable form of a spec."""
    k = s[0]
    if k == "b":
        return s[1]
    if k == "s":
        return f"{s[1]}[{', '.join(show(x) for x in s[2])}]"
    if k == "u":
        ms = [show(x) for x in s[2]]
        return {"typing": f"Union[{', '.join(ms)}]", "optional": f"Optional[{', '.join(ms)}]", "pipe": " | ".join(ms)}[s[1]]
    if k == "l":
        return "Literal[1, None]" if s[1] else "Literal[1, 'a']"
    if k in ("F", "C", "N", "A"):
        return {"F": "Final", "C": "ClassVar", "N": "NewType", "A": "Alias"}[k] + f"({show(s[1])})"
    if k == "tb":
        return f"TypeVar(bound={show(s[1])})"
    if k == "tc":
        return f"TypeVar({', '.join(show(x) for x in s[1])})"
    if k == "tf":
        return "TypeVar()"
    if k == "r":
        return "ForwardRef(%r)" % (("Literal[1]" if s[2] else "Literal") if s[1] else ("List[int]" if s[2] else "int"))
    return str(s)


# ----------------------------------------------------------------------------------------------- generation (parent)

def subscript_args(env, name, obj):
    """Default argument lists with which the generic `obj` can be subscripted (specs)."""
    I, S, NT, E = ["b", "int"], ["b", "str"], ["b", "NoneType"], ["b", "Ellipsis"]
    og = typing.get_origin(obj) or obj
    if og is tuple:
        # ... and fixed tuples whose LAST member is an open position (Any, a free TypeVar): still fixed
        return [[I, S], [I, E], [I], [], [I, ["b", "typing.Any"]], [S, I, ["tf"]]]
    if og is cabc.Callable:
        return [[I, S]]
    if name.startswith(("typing.Union", "typing.Optional", "typing.Literal", "typing.Final", "typing.ClassVar", "typing.Generic",
                        "typing.Any", "types.")):
        return []
    outs = []
    for args in ([I], [S, I], [I, NT, NT], [I, S, NT, NT]):
        try:
            env.mat(["s", name, args])
            outs.append(args)
            break
        except Exception:  # noqa: BLE001
            continue
    return outs


CHAINS = [c for n in (1, 2, 3) for c in __import__("itertools").product("NA", repeat=n)]


def wrap(core_spec, chain):
    s = core_spec
    for w in reversed(chain):
        s = [w, s]
    return s


def build_annotations(ctx, env):
    """-> (bulk: list of (spelling_key, spec), union_families: list of [spec per spelling])."""
    rng = ctx.rng
    bulk = []
    cores = [["b", n] for n, _ in env.bases]
    subs = []
    for n, o in env.bases:
        for args in subscript_args(env, n, o):
            subs.append(["s", n, args])
    # richer argument shapes on a sample
    pool = [["b", "int"], ["b", "str"], ["b", "NoneType"], ["s", "list", [["b", "int"]]], ["u", "optional", [["b", "int"]]],
            ["b", "user.DC"], ["tf"], ["b", "typing.Any"], ["s", "typing.Dict", [["b", "str"], ["b", "int"]]]]
    for s in rng.sample(subs, min(len(subs), ctx.n(30, 120))):
        if s[2]:
            t = ["s", s[1], [rng.choice(pool) for _ in s[2]]]
            try:
                env.mat(t)
                subs.append(t)
            except Exception:  # noqa: BLE001
                pass
    specials = [["l", False], ["l", True], ["tf"], ["tb", ["b", "int"]], ["tb", ["b", "user.DC"]],
                ["tb", ["s", "list", [["b", "int"]]]], ["tc", [["b", "int"], ["b", "str"]]], ["r", False, False], ["r", True, True], ["r", False, True]]
    plain = cores + subs
    for s in plain + specials:
        bulk.append(s)
    # wrapper chains: length <= 2 on every class-like core, all 14 shapes on a rotating sample
    short = [c for c in CHAINS if len(c) <= 2]
    long_sample = set(map(json.dumps, rng.sample(plain, min(len(plain), ctx.n(60, 400)))))
    for s in plain:
        for c in (CHAINS if json.dumps(s) in long_sample else short):
            bulk.append(wrap(s, c))
    for s in specials + [["u", "typing", [["b", "int"], ["b", "str"]]], ["u", "optional", [["b", "int"]]],
                         ["u", "pipe", [["b", "int"], ["b", "NoneType"]]]]:
        for c in short:
            bulk.append(wrap(s, c))
    # Final / ClassVar where legal: outermost, over plain and wrapped annotations; TypeVars bound to wrappers
    for s in rng.sample(plain, min(len(plain), ctx.n(80, 400))) + specials[:2]:
        ch = rng.choice([()] + CHAINS)
        bulk.append(["F", wrap(s, ch)])
        bulk.append(["C", wrap(s, ch)])
        bulk.append(["tb", wrap(s, ch)])
    for t in (["u", "typing", [["b", "int"], ["A", ["b", "NoneType"]]]], ["u", "typing", [["b", "int"], ["N", ["A", ["b", "NoneType"]]]]],
              ["u", "typing", [["b", "str"], ["A", ["A", ["b", "int"]]]]], ["C", ["tf"]], ["C", ["tb", ["b", "int"]]], ["F", ["tc", [["b", "int"], ["b", "str"]]]],
              ["C", ["u", "optional", [["b", "int"]]]], ["F", ["u", "pipe", [["b", "int"], ["b", "NoneType"]]]]):
        bulk.append(t)
    # unions: member sets x the three spellings
    members = [[["b", "int"], ["b", "str"]], [["b", "int"]], [["b", "user.DC"], ["b", "str"]],
               [["s", "list", [["b", "int"]]]], [["s", "typing.List", [["b", "int"]]], ["b", "str"]],
               [["b", "datetime.date"], ["b", "int"]], [["b", "user.Color"]], [["s", "dict", [["b", "str"], ["b", "int"]]]],
               [["b", "bytes"], ["b", "str"], ["b", "int"]], [["l", False]], [["b", "user.TD"]], [["s", "tuple", [["b", "int"], ["b", "str"]]]]]
    extra_pool = [["b", n] for n in ("float", "bytes", "decimal.Decimal", "uuid.UUID", "user.NT", "user.Plain", "list", "dict",
                                     "collections.abc.Sequence", "re.Pattern")]
    for _ in range(ctx.n(10, 60)):
        k = rng.randint(1, 3)
        members.append(rng.sample(extra_pool, k))
    fams = []
    NT = ["b", "NoneType"]
    for ms in members:
        fam = []
        # optional family: Optional[Union[ms]] == Union[ms, None] == m1 | ... | None
        for sp, mm in (("optional", ms), ("typing", ms + [NT]), ("pipe", ms + [NT])):
            fam.append(real_spelling(env, ["u", sp, mm]))
        fams.append(fam)
        if len(ms) >= 2:
            fam2 = [real_spelling(env, ["u", "typing", ms]), real_spelling(env, ["u", "pipe", ms]),
                    real_spelling(env, ["u", "typing", list(reversed(ms))])]
            fams.append(fam2)
    return [s for s in bulk if s is not None], fams


def real_spelling(env, s):
    """`a | b` over typing objects yields a typing.Union: tag the spec with what Python really built."""
    try:
        o = env.mat(s)
    except Exception:  # noqa: BLE001
        return None
    if s[0] == "u":
        is_pipe = isinstance(o, types.UnionType)
        if s[1] == "pipe" and not is_pipe:
            return ["u", "typing", s[2]]
    return s


# ----------------------------------------------------------------------------------------------- real side (child)

def enc_result(env, pred, v):
    if isinstance(v, bool):
        return v
    if pred in ("origin", "unwrap", "resolve_supertype"):
        return canon(env.dec(v))
    if pred == "args":
        return [canon(env.dec(x)) for x in v]
    if isinstance(v, str):
        return v
    return ["?", repr(v)[:80]]


def ask(fn, o):
    try:
        return {"ok": fn(o)}
    except BaseException as e:  # noqa: BLE001
        return {"err": type(e).__name__}


def run_specs(job):
    """Child: evaluate every predicate on every spec, in order, twice; plus the independent oracle."""
    import warnings
    warnings.simplefilter("ignore")
    from typelib.py import inspection
    env = Env(inspection)
    out = []
    for s in job["specs"]:
        o = env.mat(s)
        row = {}
        for p in job.get("preds") or ALL_PREDS:
            fn = getattr(inspection, p)
            r1, r2 = ask(fn, o), ask(fn, o)
            a1 = enc_result(env, p, r1["ok"]) if "ok" in r1 else "raise:" + r1["err"]
            a2 = enc_result(env, p, r2["ok"]) if "ok" in r2 else "raise:" + r2["err"]
            row[p] = a1 if a1 == a2 else {"unstable": [a1, a2]}
        row["__oracle__"] = oracle(env, inspection, o, s)
        out.append(row)
    return out


# ----------------------------------------------------------------------------------------------- the independent oracle (child)

def o_strip(o):
    for _ in range(64):
        if hasattr(o, "__supertype__"):
            o = o.__supertype__
        elif isinstance(o, typing.TypeAliasType):
            o = o.__value__
        else:
            return o
    return o


def o_unwrap(o):
    """All wrappers: Final / ClassVar / NewType / alias / TypeVar."""
    for _ in range(64):
        og = typing.get_origin(o)
        if og in (typing.Final, typing.ClassVar) and typing.get_args(o):
            o = typing.get_args(o)[0]
        elif hasattr(o, "__supertype__"):
            o = o.__supertype__
        elif isinstance(o, typing.TypeAliasType):
            o = o.__value__
        elif isinstance(o, typing.TypeVar):
            if o.__bound__ is not None:
                o = o.__bound__
            elif o.__constraints__:
                return typing.Union[o.__constraints__]
            else:
                return typing.Any
        else:
            return o
    return o


def o_hashable(o):
    try:
        hash(o)
        return True
    except TypeError:
        return False


def oracle(env, inspection, o, spec):
    """Everything the runtime says about `o`, computed without typelib's predicates."""
    s = o_strip(o)
    tyo = typing.get_origin(s) or s
    resolved = DOC_MAP.get(tyo, tyo) if o_hashable(tyo) else tyo
    R = {}
    cls_valued = isinstance(resolved, type) and isinstance(tyo, type) and not isinstance(s, types.UnionType)
    # Callable[...], type[...] and metaclasses are the special form typing.Callable for the library
    special_callable = cls_valued and (tyo is cabc.Callable or issubclass(tyo, type))
    R["domain"] = bool(cls_valued and not special_callable)
    R["callable_class"] = bool(cls_valued and not special_callable and issubclass(tyo, cabc.Callable))
    R["resolved"] = env.name_of.get(id(resolved)) if cls_valued else None
    R["wrapped"] = s is not o
    q = typing.get_origin(o)
    if q in (typing.Final, typing.ClassVar) and typing.get_args(o):
        inner = typing.get_args(o)[0]
        si = o_strip(inner)
        ti = typing.get_origin(si) or si
        R["inner_class_valued"] = bool(isinstance(ti, type) and not isinstance(si, types.UnionType))
        R["inner_plain"] = si is inner
    R["generic_or_mapped"] = (typing.get_origin(s) is not None) or (resolved is not tyo) or not isinstance(s, type)
    if cls_valued:
        exp = {}
        for p, x in GROUP_A.items():
            exp[p] = issubclass(resolved, x)
        exp["ismappingtype"] = issubclass(resolved, cabc.Mapping) or issubclass(resolved, DOC_MAPPING_EXTRA)
        for p, x in GROUP_B.items():
            exp[p] = issubclass(resolved, x)
        R["expected"] = exp
        # origin(): a concrete instantiable class of that kind
        if cat.std_collection(tyo):
            R["std_collection"] = {"is_collection": issubclass(tyo, cabc.Collection), "mapped": tyo in DOC_MAP,
                                   "concrete": cat.instantiable(tyo)}
            try:
                og = inspection.origin(o)
                ok_cls = isinstance(og, type)
                R["std_collection"].update({"origin": repr(og), "instantiable": bool(ok_cls and cat.instantiable(og)),
                                            "same_kind": bool(ok_cls and issubclass(og, tyo))})
            except BaseException as e:  # noqa: BLE001
                R["std_collection"].update({"origin": "raise:" + type(e).__name__, "instantiable": False, "same_kind": False})
    # special forms: judged on the object itself (typing.get_origin / get_args)
    og, ar = typing.get_origin(o), typing.get_args(o)
    sf = {}
    sf["isuniontype"] = og is typing.Union or og is types.UnionType
    sf["isoptionaltype"] = ((sf["isuniontype"] and any(o_unwrap(x) in (None, type(None)) for x in ar))
                            or (og is typing.Literal and None in ar) or o is typing.Optional)
    sf["isliteral"] = og is typing.Literal or (isinstance(o, typing.ForwardRef) and o.__forward_arg__.startswith("Literal"))
    if og is typing.ClassVar and ar and not isinstance(ar[0], typing.TypeVar):
        # `origin()` documents that it looks through ClassVar: these three are judged on the qualified annotation
        ig, ia = typing.get_origin(ar[0]), typing.get_args(ar[0])
        sf["isuniontype"] = ig is typing.Union or ig is types.UnionType
        sf["isoptionaltype"] = ((sf["isuniontype"] and any(o_unwrap(x) in (None, type(None)) for x in ia))
                                or (ig is typing.Literal and None in ia))
        sf["isliteral"] = ig is typing.Literal
    sf["isfinal"] = og is typing.Final or o is typing.Final
    sf["isclassvartype"] = og is typing.ClassVar or o is typing.ClassVar
    sf["should_unwrap"] = sf["isfinal"] or sf["isclassvartype"]
    sf["isnonetype"] = o is None or o is type(None)
    sf["isforwardref"] = isinstance(o, typing.ForwardRef)
    sf["istypealiastype"] = isinstance(o, typing.TypeAliasType)
    sf["issubscriptedgeneric"] = og is not None and not isinstance(o, typing._SpecialGenericAlias)
    sf["isfixedtupletype"] = bool(isinstance(og, type) and issubclass(og, tuple) and ar and ar[-1] is not Ellipsis)
    sf["istypeddict"] = bool(__import__("typing_extensions").is_typeddict(o))     # knows typing's and the backport's classes
    sf["isnamedtuple"] = bool(isinstance(o, type) and issubclass(o, tuple) and hasattr(o, "_fields"))
    sf["istypedtuple"] = bool(sf["isnamedtuple"] and getattr(o, "__annotations__", None))
    sf["isfrozendataclass"] = bool(dataclasses.is_dataclass(o) and isinstance(o, type) and o.__dataclass_params__.frozen)
    sf["isfromdictclass"] = bool(isinstance(o, type) and hasattr(o, "from_dict"))
    nt = o
    while hasattr(nt, "__supertype__"):
        nt = nt.__supertype__
    if o_hashable(nt):
        sf["isbuiltintype"] = nt in DOC_BUILTINS or type(o) in DOC_BUILTINS
    if isinstance(nt, type):
        sf["isbuiltinsubtype"] = issubclass(nt, DOC_BUILTINS)
    R["special"] = sf
    # unwrap: all wrappers gone, the very object that was wrapped
    R["unwrap"] = canon(env.dec(o_unwrap(o)))
    R["args"] = [canon(env.dec(typing.Any if (isinstance(x, typing.TypeVar) and x.__bound__ is None and not x.__constraints__)
                               else (x.__bound__ if isinstance(x, typing.TypeVar) and x.__bound__ is not None
                                     else (typing.Union[x.__constraints__] if isinstance(x, typing.TypeVar) else x))))
                 for x in ar]
    return R


# ----------------------------------------------------------------------------------------------- legality / domains of specs

def inner_has_qualifier(s):
    """Final / ClassVar below the top level, or a NewType / alias / TypeVar bound over one: not legal typing."""
    k = s[0]
    if k in ("N", "A", "tb", "F", "C"):
        return s[1][0] in ("F", "C") or inner_has_qualifier(s[1])
    return False


def chain_shape(s):
    """Leading NewType / alias letters, and what they wrap."""
    out = ""
    while s[0] in ("N", "A"):
        out += s[0]
        s = s[1]
    return out, s


def direct_ok(shape):
    """The chains `origin()` resolves by itself: NewType / alias chains of any length, in any interleaving."""
    return re.fullmatch(r"[NA]*", shape) is not None


def erase_py(env, s):
    """Spelling erasure, independent of the Lean `erase`: generics on their runtime origin class, unions canonical."""
    k = s[0]
    if k == "s":
        g = env.by_name[s[1]]
        og = typing.get_origin(g) or g
        return ["s", env.name_of.get(id(og), s[1]), [erase_py(env, x) for x in s[2]]]
    if k == "u":
        ms = [erase_py(env, x) for x in s[2]]
        if s[1] == "optional":
            ms = ms + [["b", "NoneType"]]
        return ["u", "any", sorted(ms, key=json.dumps)]
    if k in ("F", "C", "N", "A", "tb"):
        return [k, erase_py(env, s[1])]
    if k == "tc":
        return ["tc", [erase_py(env, x) for x in s[1]]]
    return s


# ----------------------------------------------------------------------------------------------- judging (parent)

class Judge:
    def __init__(self, res):
        self.res = res
        self.per_kind = {}

    def fail(self, kind, what, spec, pred, real, expected, finding=None, **kw):
        self.res.count(("FINDING:" + finding if finding else "FAIL:" + kind) + ":" + pred)
        key = (kind if not finding else "", pred if not finding else "", finding)
        self.per_kind[key] = self.per_kind.get(key, 0) + 1
        if self.per_kind[key] > (3 if finding else 4):
            return
        f = {"what": what, "input": {"ann": spec, "shown": show(spec), "pred": pred}, "real": real, "expected": expected,
             "kind": kind}
        f.update(kw)
        if finding:
            f["finding"] = finding
        self.res.failures.append(f)

    def disagree(self, what, spec, pred, real, model):
        self.res.count("DISAGREE:" + pred)
        if len(self.res.disagreements) < 400:
            self.res.disagreements.append({"what": what, "input": {"ann": spec, "shown": show(spec), "pred": pred},
                                           "real": real, "model": model})


def model_answer(m, pred):
    v = m["model"].get(pred)
    if pred in ("origin", "unwrap", "resolve_supertype") and isinstance(v, list):
        return canon(v)
    return v


def real_norm(a):
    """Exceptions: the model only says 'raises' (TypeError from issubclass / AttributeError in unwrap)."""
    if isinstance(a, str) and a.startswith("raise:"):
        return "raise"
    return a


def is_bare_special(spec):
    """A bare special form (typing.Union, typing.Final, ...) — no annotation — possibly under wrappers."""
    while spec[0] in ("N", "A", "tb", "F", "C"):
        spec = spec[1]
    return spec[0] == "b" and spec[1] in BARE_SPECIAL


def judge_one(J, env, spec, real, m):
    res = J.res
    O = real["__oracle__"]
    shape, _core = chain_shape(spec)
    legal = not inner_has_qualifier(spec)
    for p in ALL_PREDS:
        a = real[p]
        res.case({"ann": show(spec), "pred": p}, spec[0] != "b" or "." in spec[1])
        if isinstance(a, dict) and "unstable" in a:
            J.fail("unstable", f"{p} gave two different answers to two consecutive calls", spec, p, a["unstable"], "equal answers")
            continue
        # ---- correspondence
        if p in MODELLED and m is not None:
            mv = model_answer(m, p)
            if mv is None or (spec[0] == "b" and (spec[1], p) in UNMODELLED):
                res.skipped += 1
            elif real_norm(a) != mv:
                J.disagree("model vs real", spec, p, a, mv)
            else:
                res.count("agree:" + ("raise" if mv == "raise" else "value"))
    if not legal:
        res.count("outside:illegal-qualifier-nesting")
        return
    # ---- cross-check of the Lean oracle with the Python oracle (the spec itself must be the runtime's answer)
    if m is not None and O["domain"]:
        if m["spec"].get("resolved") != O["resolved"]:
            J.disagree("Lean resolvedClass vs the harness's runtime resolution", spec, "resolved", O["resolved"], m["spec"].get("resolved"))
        for p in list(GROUP_A) + list(GROUP_B):
            if p in m["spec"] and m["spec"][p] is not None and m["spec"][p] != O["expected"][p]:
                J.disagree("Lean spec vs the harness's runtime oracle", spec, p, O["expected"][p], m["spec"][p])
    # ---- class-valued predicates against the runtime
    if O["domain"]:
        for p in list(GROUP_A) + list(GROUP_B):
            a, e = real[p], O["expected"][p]
            if a == e:
                res.count("oracle:class-valued:ok")
                continue
            finding = None
            if p == "issequencetype" and isinstance(a, bool):
                finding = F_SEQ
            J.fail("class-valued", f"{p} disagrees with issubclass on the class the annotation resolves to ({O['resolved']})",
                   spec, p, a, e, finding)
        sc = O.get("std_collection")
        if sc:
            if sc["instantiable"] and sc["same_kind"]:
                res.count("oracle:origin-instantiable:ok")
            else:
                fin = F_ABSTRACT if (not sc["mapped"] and not sc["concrete"]) else None
                J.fail("origin-instantiable", "origin() of a collection annotation is not a concrete instantiable class of that kind",
                       spec, "origin", sc, "instantiable subclass of the annotation's origin", fin)
    else:
        res.count("outside:class-valued-on-special-form")
    # ---- special-form predicates, judged on the object itself; domain: class-valued annotations and the special forms
    #      themselves (not NewType / alias wrappers around special forms; not the bare special forms, which are no annotations)
    k = spec[0]
    plain = k in ("b", "s", "u", "l", "tf", "tc", "r")
    qualified = k in ("F", "C") and (O.get("inner_class_valued") or O.get("inner_plain"))
    sf_domain = (O["domain"] or plain or qualified or k == "tb") and not is_bare_special(spec)
    if sf_domain:
        for p, e in O["special"].items():
            a = real[p]
            if a == e:
                res.count("oracle:special:ok")
                continue
            finding = None
            if p in ("issubscriptedgeneric", "isgeneric") and ((k == "u" and spec[1] == "pipe") or k == "r"):
                finding = F_REPR
            elif k == "C" and p == "isoptionaltype" and a is False:
                finding = F_CVLIT
            J.fail("special-form", f"{p} disagrees with typing.get_origin/get_args on the object", spec, p, a, e, finding)
        # unwrap: strips every wrapper and returns the wrapped annotation itself
        if real["unwrap"] == O["unwrap"]:
            res.count("oracle:unwrap:ok")
        else:
            J.fail("unwrap", "unwrap() did not return the wrapped annotation itself", spec, "unwrap", real["unwrap"], O["unwrap"])
        if spec[0] in ("s", "u", "l", "F", "C"):
            if real["args"] == O["args"]:
                res.count("oracle:args:ok")
            else:
                J.fail("args", "args() differs from typing.get_args with TypeVars normalised", spec, "args", real["args"], O["args"])
    else:
        res.count("outside:special-form-predicate-on-wrapped-special-form")



# ----------------------------------------------------------------------------------------------- signature helpers, instance predicates (oracle only)

DOC_STDLIB = DOC_BUILTINS + (datetime.datetime, datetime.date, datetime.timedelta, datetime.time, decimal.Decimal,
                             __import__("ipaddress").IPv4Address, __import__("ipaddress").IPv6Address, pathlib.Path, uuid.UUID,
                             collections.defaultdict, collections.deque, types.MappingProxyType)
DESCRIPTOR_METHODS = ("__get__", "__set__", "__delete__", "__set_name__")


def sig_view(sig):
    return [[n, p.kind.name, repr(p.annotation), repr(p.default)] for n, p in sig.parameters.items()]


def run_helpers(job):
    """Child: signature helpers on the synthesised classes, instance predicates on instances."""
    import warnings
    warnings.simplefilter("ignore")
    from typelib.py import inspection
    um = cat.user_module()
    bad, n = [], 0

    def check(what, got, exp, subject):
        nonlocal n
        n += 1
        if got != exp:
            bad.append({"what": what, "subject": subject, "real": got if isinstance(got, (bool, str, list)) else repr(got)[:200],
                        "expected": exp if isinstance(exp, (bool, str, list)) else repr(exp)[:200]})

    def attempt(f, *a, **k):
        try:
            return f(*a, **k)
        except BaseException as e:  # noqa: BLE001
            return "raise:" + type(e).__name__

    def fn(a, b: int = 1, *c: str, d: "int", **e) -> None: ...
    classes = [um.DC, um.FrozenDC, um.DCSub, um.NT, um.NTc, um.NTSub, um.Plain, um.PlainSub, um.Slotted, um.Gen, um.GenSub,
               um.MyList, um.MyStr, um.MyMapping, um.Color, um.WithProps]
    # signature(): inspect.signature for everything but TypedDicts and non-named tuples
    for c in classes + [fn, um.Plain(1).__init__, lambda x, y=2: x]:
        s = attempt(inspection.signature, c)
        e = attempt(inspect.signature, c)
        check("signature == inspect.signature", sig_view(s) if not isinstance(s, str) else s,
              sig_view(e) if not isinstance(e, str) else e, repr(c))
    for td in (um.TD, um.TDPartial):
        hints = typing.get_type_hints(td)
        for name, f in (("signature", inspection.signature), ("typed_dict_signature", inspection.typed_dict_signature)):
            s = attempt(f, td)
            if isinstance(s, str):
                check(name + "(TypedDict)", s, "a signature", repr(td))
                continue
            check(name + "(TypedDict): one keyword-only parameter per hint, in order, annotated with the hint",
                  [[n_, p.kind.name, p.annotation] for n_, p in s.parameters.items()],
                  [[k, "KEYWORD_ONLY", v] for k, v in hints.items()], repr(td))
            check(name + "(TypedDict): a key is required iff it is in __required_keys__",
                  [p.default is inspect.Parameter.empty for p in s.parameters.values()], [k in td.__required_keys__ for k in hints], repr(td))
    for t, exp in ((tuple[int, str], [["arg0", "POSITIONAL_ONLY", int], ["arg1", "POSITIONAL_ONLY", str]]),
                   (typing.Tuple[int, str], [["arg0", "POSITIONAL_ONLY", int], ["arg1", "POSITIONAL_ONLY", str]]),
                   (tuple[int, ...], [["args", "VAR_POSITIONAL", int]]), (typing.Tuple[int, ...], [["args", "VAR_POSITIONAL", int]]),
                   (tuple, [["args", "VAR_POSITIONAL", typing.Any]]), (um.MyTuple, [["args", "VAR_POSITIONAL", typing.Any]])):
        for name, f in (("signature", inspection.signature), ("tuple_signature", inspection.tuple_signature)):
            s = attempt(f, t)
            check(name + "(tuple type): one parameter per typing.get_args member",
                  [[n_, p.kind.name, p.annotation] for n_, p in s.parameters.items()] if not isinstance(s, str) else s, exp, repr(t))
    # get_type_hints: typing.get_type_hints when there are hints, else the signature's parameters
    for c in classes + [um.TD, fn]:
        e = attempt(typing.get_type_hints, c)
        g = attempt(inspection.get_type_hints, c)
        if isinstance(e, dict) and e:
            check("get_type_hints == typing.get_type_hints", g, e, repr(c))
        elif isinstance(e, dict):
            sg = attempt(inspect.signature, c)
            if not isinstance(sg, str) and isinstance(g, dict):
                check("get_type_hints falls back on the signature's parameter names", list(g), list(sg.parameters), repr(c))
            check("get_type_hints(exhaustive=False) is empty without hints", attempt(inspection.get_type_hints, c, exhaustive=False), {},
                  repr(c))
    # safe_get_params
    for c in classes:
        g = attempt(inspection.safe_get_params, c)
        if issubclass(c, cabc.Mapping):
            check("safe_get_params(mapping class) is empty", dict(g) if not isinstance(g, str) else g, {}, repr(c))
        else:
            e = attempt(inspect.signature, c)
            check("safe_get_params == inspect.signature(...).parameters", list(g) if not isinstance(g, str) else g,
                  list(e.parameters) if not isinstance(e, str) else [], repr(c))
    check("safe_get_params(TypedDict)", list(attempt(inspection.safe_get_params, um.TD)), list(typing.get_type_hints(um.TD)), "TD")
    # simple_attributes: public static data attributes
    def simple_expected(t):
        if getattr(t, "__slots__", None):
            return sorted(f for f in t.__slots__ if not f.startswith("_"))
        out = []
        for n_, v in inspect.getmembers(t):
            if n_.startswith("_") or inspect.isclass(v) or inspect.isroutine(v):
                continue
            if isinstance(v, (property, functools.cached_property)) or any(hasattr(v, m) for m in DESCRIPTOR_METHODS):
                continue
            out.append(n_)
        return sorted(out)
    for c in (um.Slotted, um.WithProps, um.Plain, um.DC, um.Color):
        g = attempt(inspection.simple_attributes, c)
        check("simple_attributes: the public, static data attributes", sorted(g) if not isinstance(g, str) else g, simple_expected(c), repr(c))
    # name / qualname
    for c in classes + [int, dict, datetime.date, cabc.Sequence]:
        check("name(cls) == cls.__name__", attempt(inspection.name, c), c.__name__, repr(c))
        check("qualname(cls) == cls.__qualname__", attempt(inspection.qualname, c), c.__qualname__.replace("<locals>.", ""), repr(c))
    for g_, nm in ((typing.Dict[str, int], "Dict"), (dict[str, int], "dict"), (typing.List[int], "List"), (list[int], "list"),
                   (cabc.Sequence[int], "Sequence"), (typing.Sequence[int], "Sequence"), (typing.Optional[int], "Optional"),
                   (typing.Union[int, str], "Union"), (typing.Any, "Any"), (um.Gen[int], "Gen")):
        check("name(X[...]) is the unsubscripted name", attempt(inspection.name, g_), nm, repr(g_))
        check("name(X[...]) == name(X)", attempt(inspection.name, g_),
              attempt(inspection.name, typing.get_origin(g_) if isinstance(g_, types.GenericAlias) else
                      getattr(typing, getattr(g_, "_name", "") or "", g_)) if nm not in ("Optional", "Union", "Any", "Gen") else nm,
              repr(g_))
    # instance predicates
    class Desc:
        def __get__(self, i, o):
            return 1
    class Holder:
        d = Desc()
        @property
        def p(self):
            return 1
        @functools.cached_property
        def cp(self):
            return 2
        def m(self):
            return 3
    instances = [1, True, 1.5, "s", b"b", bytearray(b"x"), None, [], [1], {}, {"a": 1}, set(), frozenset(), (), (1, 2), um.DC(1),
                 um.FrozenDC(1), um.NT(1), um.Plain(1), um.Color.red, um.StrE.a, um.IntE.one, datetime.date(2020, 1, 2),
                 datetime.datetime(2020, 1, 2), datetime.time(1), datetime.timedelta(1), decimal.Decimal("1"),
                 fractions.Fraction(1, 2), uuid.UUID(int=1), pathlib.PurePosixPath("a"), pathlib.Path("a"), collections.deque(),
                 collections.defaultdict(int), collections.OrderedDict(), types.MappingProxyType({}), re.compile("a"),
                 um.MyList(), um.MyDict(), um.MyStr("x"), um.MyInt(1), um.MyMapping(), um.MyIter(), lambda: 1, len, int, um.DC, Desc(),
                 Desc, Holder.__dict__["p"], Holder.__dict__["cp"], Holder.m, Holder().m, Holder.__dict__["d"], slice(1), object(),
                 range(3), iter([]), typing.Any, typing.List[int], Ellipsis, NotImplemented, 1j, memoryview(b"")]
    for o in instances:
        r = repr(o)[:60]
        check("ishashable(o) == isinstance(o, Hashable)", attempt(inspection.ishashable, o), isinstance(o, cabc.Hashable), r)
        check("isproperty(o) == isinstance(o, (property, cached_property))", attempt(inspection.isproperty, o),
              isinstance(o, (property, functools.cached_property)), r)
        if not isinstance(o, types.MethodType):      # a bound method forwards attribute access to its function
            check("isdescriptor(o) == has one of __get__/__set__/__delete__/__set_name__", attempt(inspection.isdescriptor, o),
                  any(hasattr(o, m) for m in DESCRIPTOR_METHODS), r)
        check("isbuiltininstance(o) == isinstance(o, documented builtins)", attempt(inspection.isbuiltininstance, o),
              isinstance(o, DOC_BUILTINS), r)
        check("isstdlibinstance(o) == isinstance(o, documented stdlib types)", attempt(inspection.isstdlibinstance, o),
              isinstance(o, DOC_STDLIB), r)
        exp = not (inspect.isclass(o) or inspect.isroutine(o) or isinstance(o, (property, functools.cached_property))
                   or (any(hasattr(o, m) for m in DESCRIPTOR_METHODS) and not isinstance(o, types.MethodType)))
        check("issimpleattribute(o) == not class / routine / property / descriptor", attempt(inspection.issimpleattribute, o), exp, r)
    return {"n": n, "bad": bad}


def evaluate_helpers(res):
    core.import_typelib()
    out = iso.map_isolated(run_helpers, [{}], timeout=120.0)[0]
    if isinstance(out, dict) and "crash" in out:
        raise RuntimeError(f"harness: helper child crashed: {out}")
    res.programs += 1
    for _ in range(out["n"]):
        res.evaluations += 1
    res.count("oracle:helpers-and-instance-predicates:checks", out["n"])
    for b in out["bad"]:
        f = {"what": b["what"], "input": {"ann": None, "shown": b["subject"], "pred": b["what"].split("(")[0].split(" ")[0]},
             "real": b["real"], "expected": b["expected"], "kind": "helpers"}
        res.count(("FINDING:" + f["finding"] if "finding" in f else "FAIL:helpers") + ":" + f["input"]["pred"])
        res.failures.append(f)


# ----------------------------------------------------------------------------------------------- evaluation

def evaluate(ctx, res, env, bulk, fams):
    core.import_typelib()
    J = Judge(res)

    def legal(s):
        # an expression Python itself refuses (e.g. a bare typing.Optional as a type argument) is not an annotation: skipped
        try:
            env.mat(s)
            return True
        except Exception:  # noqa: BLE001
            res.count("skipped-illegal-annotation")
            return False
    bulk = [s for s in bulk if legal(s)]
    fams = [[s if (s is None or legal(s)) else None for s in fam] for fam in fams]
    # spelled variants never share a child: typing / builtin spellings go to different buckets
    buckets = {}
    for s in bulk:
        txt = json.dumps(s)
        # (`resolve_supertype` is cached by ==, so `Alias(int | None)` after `Alias(Optional[int])` would see the latter's value)
        sp = "P" if '"pipe"' in txt else ("T" if ("typing." in txt or '"typing"' in txt or '"optional"' in txt) else "B")
        key = (sp, sum(map(ord, txt)) % 12)
        buckets.setdefault(key, []).append(s)
    jobs = [{"specs": v} for v in buckets.values()]
    # union families: cold per spelling, and both orders
    fam_jobs = []
    fams = [[s for s in fam if s is not None] for fam in fams]
    for fi, fam in enumerate(fams):
        for i, s in enumerate(fam):
            fam_jobs.append(({"specs": [s]}, (fi, "cold", i)))
        for i in range(len(fam)):
            for j in range(len(fam)):
                if i != j:
                    fam_jobs.append(({"specs": [fam[i], fam[j]]}, (fi, "order", (i, j))))
    all_jobs = jobs + [j for j, _ in fam_jobs]
    outs = iso.map_isolated(run_specs, all_jobs, timeout=240.0)
    for o in outs:
        if isinstance(o, dict) and "crash" in o:
            raise RuntimeError(f"harness: child crashed: {o}")
    res.programs += len(all_jobs)
    # the model, once per distinct spec
    specs, seen = [], {}
    for j in all_jobs:
        for s in j["specs"]:
            t = json.dumps(s)
            if t not in seen:
                seen[t] = len(specs)
                specs.append(s)
    answers = lean.drive([{"op": "inspect.eval", "ann": s} for s in specs]) if specs else []
    for s, a in zip(specs, answers):
        if "bad" in a:
            raise RuntimeError(f"harness: driver rejected {s}: {a}")
    model = {json.dumps(s): a for s, a in zip(specs, answers)}
    groups = {}
    for j, o in zip(jobs, outs[:len(jobs)]):
        for s, real in zip(j["specs"], o):
            judge_one(J, env, s, real, model[json.dumps(s)])
            if direct_ok(chain_shape(s)[0]) and not inner_has_qualifier(s):
                groups.setdefault(json.dumps(erase_py(env, s)), []).append((s, real))
    # spelling invariance over generics: typing alias vs class vs ABC spelling of the same annotation
    for key, members in groups.items():
        if len(members) < 2:
            continue
        dom = members[0][1]["__oracle__"]["domain"]
        for p in SPELLING_INVARIANT:
            if (p in GROUP_A or p in GROUP_B) and not dom:
                continue
            vals = [r[p] for _, r in members]
            if all(v == vals[0] for v in vals):
                res.count("oracle:spelling-invariant:ok")
            else:
                J.fail("spelling", f"{p} depends on the spelling of the same annotation", members[0][0], p,
                       {show(s): r[p] for s, r in members}, "one answer", None)
    # union families
    cold = {}
    fouts = outs[len(jobs):]
    for (j, tag), o in zip(fam_jobs, fouts):
        if tag[1] == "cold":
            cold[(tag[0], tag[2])] = o[0]
            judge_one(J, env, j["specs"][0], o[0], model[json.dumps(j["specs"][0])])
    class_valued = set(GROUP_A) | set(GROUP_B) | {"issubscriptedcollectiontype", "isbuiltinsubtype", "isstdlibsubtype"}
    for fi, fam in enumerate(fams):
        for p in SPELLING_INVARIANT:
            if p in class_valued:
                continue            # class-valued predicates on a union: outside the domain
            vals = [cold[(fi, i)][p] for i in range(len(fam))]
            if all(v == vals[0] for v in vals):
                res.count("oracle:spelling-invariant:ok")
            else:
                fin = F_REPR if p == "issubscriptedgeneric" else None
                J.fail("spelling", f"{p} depends on the spelling of the same union", fam[0], p,
                       {show(s): v for s, v in zip(fam, vals)}, "one answer", fin)
    for (j, tag), o in zip(fam_jobs, fouts):
        if tag[1] != "order":
            continue
        fi, (i, k) = tag[0], tag[2]
        second = o[1]
        for p in ALL_PREDS:
            if p in ("origin", "unwrap", "resolve_supertype", "args") or p in class_valued:
                continue
            c = cold[(fi, k)][p]
            if second[p] == c:
                res.count("oracle:history-independent:ok")
            else:
                fin = F_REPR if p in ("isgeneric", "issubscriptedgeneric", "name", "qualname") else None
                J.fail("history", f"{p}: the answer for one spelling changes after the equal-but-distinct spelling was asked",
                       j["specs"][1], p, second[p], c, fin, asked_first=show(j["specs"][0]))
    return J


# ---- ==-equal twins asked in one process (history independence of every accessor / special-form predicate) ----------------
TWINS = [
    ("typing.Union[int, str]", "typing.Union[str, int]"),
    ("typing.Optional[bytes]", "typing.Union[None, bytes]"),
    ("float | None", "None | float"),
    ("int | str", "typing.Union[int, str]"),
    ("int | None", "typing.Optional[int]"),
    ("typing.Literal['a', 'b']", "typing.Literal['b', 'a']"),
    ("typing.Literal[1, None]", "typing.Literal[None, 1]"),
    ("typing.Union[int, str, None]", "typing.Optional[typing.Union[str, int]]"),
    ("list[typing.Union[int, str]]", "list[typing.Union[str, int]]"),
    ("dict[str, int | None]", "dict[str, typing.Optional[int]]"),
    ("tuple[typing.Union[int, str], ...]", "tuple[typing.Union[str, int], ...]"),
]   # (no typing.X[Union[..]] twins: typing's own _tp_cache returns the SAME object for both spellings -- CPython, not typelib)
# functions whose documented domain contains unions / literals / generics (class-valued predicates applied to special forms are
# outside the domain of C17)
TWIN_FUNCS = ["origin", "args", "unwrap", "name", "qualname", "isuniontype", "isoptionaltype", "isliteral", "isfinal", "isclassvartype",
              "isnonetype", "isforwardref", "isgeneric", "issubscriptedgeneric", "isfixedtupletype", "isunresolvable", "isstdlibtype",
              "isbuiltintype", "isstructuredtype", "should_unwrap", "get_type_hints", "istypedtuple", "isbuiltinsubtype",
              "isstdlibsubtype", "resolve_supertype", "isabstract", "ishashable"]
# read str(t) / are memoised by == by design: the recorded finding reprBasedGenericDetection
TWIN_KNOWN = {"isgeneric", "issubscriptedgeneric", "name", "qualname", "origin", "resolve_supertype", "unwrap", "get_type_hints"}


def _twin_child(job):
    import warnings
    warnings.simplefilter("ignore")
    import typing  # noqa: F401
    from typelib.py import inspection as I

    def obs(f, a):
        try:
            return repr(f(a))[:200]
        except Exception as e:  # noqa: BLE001
            return "raise " + type(e).__name__
    out = []
    for fname, exprs in job:
        f = getattr(I, fname, None)
        if f is None:
            out.append(None)
            continue
        out.append([obs(f, eval(e)) for e in exprs])
    return out


def twins_pass(ctx, res):
    """f(B) asked right after f(A) for A == B (distinct objects, different member order / spelling) must be what f(B) answers in a
    cold process: the accessors follow the object they are given, not an equal one seen before."""
    warm_jobs = [[(fn, [a, b]) for fn in TWIN_FUNCS] for a, b in TWINS] + [[(fn, [b, a]) for fn in TWIN_FUNCS] for a, b in TWINS]
    cold_jobs = [[(fn, [x])] for a, b in TWINS for x in (a, b) for fn in TWIN_FUNCS]
    outs = iso.map_isolated(_twin_child, warm_jobs + cold_jobs, timeout=120)
    warm, cold_outs = outs[:len(warm_jobs)], outs[len(warm_jobs):]
    cold = {}
    it = iter(cold_outs)
    for a, b in TWINS:
        for x in (a, b):
            for fn in TWIN_FUNCS:
                o = next(it)
                cold[(fn, x)] = o[0][0] if isinstance(o, list) and o[0] else None
    pairs = [(a, b) for a, b in TWINS] + [(b, a) for a, b in TWINS]
    for (a, b), out in zip(pairs, warm):
        if not isinstance(out, list):
            raise RuntimeError(f"harness: twin probe failed: {out}")
        for fn, o in zip(TWIN_FUNCS, out):
            if o is None or cold.get((fn, b)) is None:
                continue
            res.case({"twins": [a, b], "pred": fn}, True)
            if o[1] != cold[(fn, b)]:
                f = {"what": f"{fn}({b}) asked after {fn}({a}) (an ==-equal annotation) answers {o[1]} instead of {cold[(fn, b)]}: the "
                             "answer depends on call history",
                     "input": {"twins": [a, b], "pred": fn, "shown": b, "ann": None}, "real": o[1], "expected": cold[(fn, b)]}
                if fn in TWIN_KNOWN:
                    f["finding"] = F_REPR
                res.failures.append(f)
            else:
                res.count("oracle:twins-history-independent")


def explore(ctx):
    res = Result()
    res.rule = RULE
    if TABLE_ERR:
        raise RuntimeError("lattice extraction failed: " + TABLE_ERR)
    res.extra["lattice"] = TABLE_INFO
    core.import_typelib()
    from typelib.py import inspection
    env = Env(inspection)
    bulk, fams = build_annotations(ctx, env)
    evaluate(ctx, res, env, bulk, fams)
    evaluate_helpers(res)
    twins_pass(ctx, res)
    hints_correspondence(res)   # member hints of classes and callables: real code <-> Model/Hints.lean
    return res


def _witness_child(fid):
    """Minimal reproduction of each reported behaviour; True = it still fails."""
    import warnings
    warnings.simplefilter("ignore")
    from typelib.py import inspection as I

    def raises(f, *a):
        try:
            f(*a)
            return False
        except Exception:  # noqa: BLE001
            return True
    if fid == F_SEQ:
        return I.issequencetype(dict) != I.issequencetype(collections.OrderedDict)
    if fid == F_ABSTRACT:
        og = I.origin(typing.Iterator[int])
        return not cat.instantiable(og)
    if fid == F_REPR:
        return I.issubscriptedgeneric(int | None) is not True
    if fid == F_CVLIT:
        t = typing.ClassVar[typing.Optional[int]]
        return I.isuniontype(t) is True and I.isoptionaltype(t) is not True
    return None


FINDINGS = {
    F_SEQ: "issequencetype is `in _COLLECTIONS or issubclass(.., Sequence)`: True for dict / set / frozenset but False for their "
           "subclasses (OrderedDict, defaultdict, Counter, class D(dict)), for TypedDicts and for the mapping views",
    F_ABSTRACT: "origin() of Iterator / Generator / Reversible / ByteString / AsyncIterator ... annotations is the abstract ABC itself",
    F_REPR: "isgeneric / issubscriptedgeneric / name / qualname read str(t): `int | None` is not subscripted while Optional[int] is, "
            "ForwardRef('List[int]') is; and since the caches are keyed by ==, the answer for one spelling is served for the other",
    F_CVLIT: "origin() looks through ClassVar, so isuniontype(ClassVar[Optional[int]]) is True, but isoptionaltype reads the "
             "ClassVar's own __args__ and answers False",
}


def witness(fid):
    if fid not in FINDINGS:
        return None
    core.import_typelib()
    r = iso.map_isolated(_witness_child, [fid])[0]
    return r if isinstance(r, bool) else None


def replay(failure):
    inp = failure["input"]
    if inp.get("family") == "hints-corr":
        return hints_replay(failure)
    if "twins" in inp:
        core.import_typelib()
        a, b = inp["twins"]
        warm, cold = iso.map_isolated(_twin_child, [[(inp["pred"], [a, b])], [(inp["pred"], [b])]])
        print(json.dumps({"asked": [a, b], "warm": warm, "cold (second alone)": cold}, indent=1))
        return warm[0][1] != cold[0][0]
    res = Result()
    core.import_typelib()
    from typelib.py import inspection
    if inp.get("ann") is None:          # a signature helper / instance predicate check
        evaluate_helpers(res)
        fs = [f for f in res.failures if f["what"] == failure.get("what") and f["input"]["shown"] == inp.get("shown")]
        print(json.dumps(fs[:4], indent=1, default=str)[:3000])
        return bool(fs)
    evaluate(None, res, Env(inspection), [inp["ann"]], [])
    fs = [f for f in res.failures if f["input"]["pred"] == inp["pred"]]
    print(json.dumps({"annotation": inp.get("shown"), "failures": fs[:4], "disagreements": res.disagreements[:4]}, indent=1,
                     default=str)[:4000])
    return bool(fs)
