"""C04 — Scalar values survive their text and numeric wire forms exactly."""
from __future__ import annotations

import datetime
import json
import re

from .. import core, enc, iso, lean, universe
from ..runner import Result

ID = "C04"
LEVEL = "proof"
LEVEL_TEXT = ("Kernel-checked theorems over the integer-only temporal model (Props/C04.lean, Lemmas/TemporalText.lean): the ISO-8601 "
              "duration writer/reader pair is exact for every timedelta (`duration_rt`, all signs and magnitudes, microseconds included), "
              "the emitted duration text is well-formed for an independent grammar, aware times round-trip with offset and "
              "microseconds (`time_rt`), dates and datetimes round-trip for every value (`date_rt`, `datetime_unmarshal`; the calendar law CalLaw — "
              "ordinal <-> y-m-d bijection — is PROVED, `calLaw`, and also compared with datetime.date over all 3 652 059 ordinals in the "
              "thorough tier); the four temporal leaves satisfy the leaf laws of C01/C13 (`leaf_roundtrip`, `leaf_passthrough`), so "
              "`roundtrip_temporal` / `passthrough_temporal` instantiate the C01 / C13 theorems on the scalar set S1 with temporals (enum classes: the "
              "decidable `enumWF` for the round trip, no condition for pass-through); int text round trip from core's "
              "Nat.toDigits lemmas. The remaining scalar kinds (Lemmas/ScalarText.lean), S2 = every scalar kind but bytes: the UUID hex "
              "text round trip for every 128-bit value (`uuid_text_roundtrip`), the modelled strload returns canonical UUID text unchanged "
              "(`strload_uuid`: the JSON lexer fails or leaves a second token, the text is no plain word) so the executable leaves read "
              "str(u) back (`uuid_unmarshal`); the Fraction text round trip for every fraction in lowest terms (`fraction_text_roundtrip`); "
              "pass-through on S2 with no side condition (`leaf_passthrough_all`, `passLaws_S2`, `passthrough_all` instantiates C13); "
              "the leaf round trip on S2 for canonically spelled values `hasScalarC` (Decimal text positional `decCanon`, Fraction gcd 1, "
              "path `pathWire`, literal pattern; no condition on S1 and uuid; `leaf_roundtrip_all`, `roundtrip_all` instantiates C01 "
              "through the leaf-generic `C01.roundtripG`), refuted without the spelling condition at the unnormalised pair 2/4 "
              "(`roundtrip_all_false_without_canon`); bytes is out because its unmarshaller is not executed by the model. Float / "
              "Decimal printers and parsers beyond these fragments are CPython's (Python's own "
              "printer is the oracle there). Tied to /repo by the per-run correspondence on boundary-biased scalars in "
              "all text carriers; the property (text -> value, numbers -> temporals as UTC epoch seconds, temporals -> numbers / "
              "str / bytes, warm caches) is evaluated directly on the real library, and emitted ISO text is read back by independent "
              "readers (datetime.fromisoformat, a regex duration reader).")
LEVEL_NOTE = ("Trusted: Lean kernel, standard axioms; hand-written Temporal model tied by correspondence; CalLaw hypothesis (tested "
              "exhaustively, not proved); pendulum.parse on the emitted forms (modelled, validated by correspondence); float epoch "
              "seconds: IEEE rounding in unixtime()/total_seconds() is outside the model (oracle only).")
TECHNIQUE = "Lean 4 proofs of the text writer/reader pairs (integer arithmetic, digit-string lemmas); correspondence on boundary-biased scalars; independent ISO readers as oracle"
DESIGN_REF = "DESIGN.md §5 C04"
MODULES = ["TypelibModel.Props.C04", "TypelibModel.Props.Dispatch"]
TABLES = True
RULE = ("scalar kinds x boundary-biased values (ints of any size, shortest-repr floats, Decimals of any exponent, Fractions, UUIDs, "
        "paths, enum members, dates 0001..9999, datetimes/times with every whole-minute offset, microseconds and fold, timedeltas "
        "over the full range incl. multiples of 7 days, 59.999999 s, negatives, epoch seconds) x 5 text carriers, each also after "
        "the caches were warmed with an equal-but-differently-represented value; distinct = (kind, value)")
ASSUMPTIONS = ["naive temporals are outside U (the library reads naive input as UTC by design)",
               "float epoch seconds are compared within the platform's datetime range"]
TRUSTED = ["harness encoders/generators", "independent readers: datetime.*.fromisoformat, harness regex duration reader"]

US_DAY = 86400000000
MAX_ORD = 3652059
DUR_RE = re.compile(r"^(-)?P(?:(\d+)D)?(?:T(?:(\d+)H)?(?:(\d+)M)?(?:(\d+)(?:\.(\d{1,6}))?S)?)?$")


def parse_iso_duration(s):
    """Independent ISO-8601(-2) duration reader (days / hours / minutes / seconds with fraction, optional sign).
    Strict: 'P' alone, a dangling 'T' and an empty designator list are malformed."""
    m = DUR_RE.match(s)
    if not m or s in ("P", "-P") or s.endswith("T") or s.endswith("P"):
        return None
    sign, d, h, mi, sec, frac = m.groups()
    if d is None and h is None and mi is None and sec is None:
        return None
    us = (int(d or 0) * 86400 + int(h or 0) * 3600 + int(mi or 0) * 60 + int(sec or 0)) * 1000000
    us += int((frac or "").ljust(6, "0") or 0)
    return -us if sign else us


def gen_values(r, kind, n):
    g = universe.Gen(r)
    g.prog = {"classes": [], "aliases": {}}
    out = []
    for _ in range(n):
        if kind == "int":
            out.append(r.choice([0, 1, -1, 2**63, -2**63 - 1, 10**40, -10**25, r.randint(-10**9, 10**9), r.getrandbits(200)]))
        elif kind == "float":
            x = r.choice([0.0, -0.0, 1.5, 1e-7, 1.5e300, 5e-324, 0.1, 1 / 3, r.uniform(-1e6, 1e6), r.uniform(-1, 1) * 10 ** r.randint(-300, 300),
                          float(r.randint(-10**15, 10**15))])
            out.append(["f", repr(x)])
        elif kind == "decimal":
            import decimal
            digits = "".join(r.choice("0123456789") for _ in range(r.randint(1, 30)))
            d = decimal.Decimal((r.randint(0, 1), tuple(int(c) for c in digits), r.randint(-40, 40)))
            out.append(["dec", str(r.choice([d, decimal.Decimal(r.randint(-10**6, 10**6)), decimal.Decimal("0.1"), decimal.Decimal("-0"), decimal.Decimal("1E+400")]))])
        elif kind == "fraction":
            import fractions
            f = fractions.Fraction(r.randint(-10**12, 10**12), r.randint(1, 10**9))
            out.append(["frac", f.numerator, f.denominator])
        elif kind == "uuid":
            out.append(["uuid", r.choice([0, 2**128 - 1, r.getrandbits(128)])])
        elif kind == "path":
            out.append(["path", r.choice(universe.PATHS + ["/", "a b/c", "é/ü", "..", "a/../b", ".hidden", "/abs/file.tar.gz",
                                                          # names with edge whitespace: the text IS the value, nothing may be trimmed
                                                          "/srv/data/backup ", " leading/file", "dir/name\n", "\tx", " ", "a /b "])])
        elif kind == "date":
            out.append(["date", r.choice([1, MAX_ORD, 719163, 719162, 719164, r.randint(1, MAX_ORD), r.randint(1, MAX_ORD)])])
        elif kind == "datetime":
            out.append(g.datetime_val())
        elif kind == "time":
            us = r.choice([0, US_DAY - 1, 59999999, r.randint(0, US_DAY - 1), r.randint(0, 86399) * 1000000])
            out.append(["tm", us, r.choice([0, 19800, -18000, 60 * r.randint(-1439, 1439), 86340, -86340])])
        elif kind == "timedelta":
            out.append(["td", r.choice([g.timedelta_us(), g.timedelta_us(), 7 * US_DAY * r.randint(-1000, 1000), r.randint(-10**15, 10**15),
                                        r.randint(-999999999, 999999999) * US_DAY + r.randint(0, US_DAY - 1)])])
    return out


KINDS = ["int", "float", "decimal", "fraction", "uuid", "path", "date", "datetime", "time", "timedelta"]


def child(job):
    """Run the C04 observations for a batch of (kind, value) in one child (the warm-cache clause is part of it)."""
    import datetime
    import decimal
    import fractions
    import warnings
    warnings.simplefilter("ignore")
    import typelib
    from typelib import serdes
    P = enc.Program({"classes": [], "aliases": {}})
    UTC = datetime.timezone.utc
    T = {"int": int, "float": float, "decimal": decimal.Decimal, "fraction": fractions.Fraction, "uuid": __import__("uuid").UUID,
         "path": __import__("pathlib").PurePosixPath, "date": datetime.date, "datetime": datetime.datetime,
         "time": datetime.time, "timedelta": datetime.timedelta}
    out = []
    for kind, vj, fold in job["cases"]:
        t = T[kind]
        v = enc.to_py(vj, P)
        if fold and kind in ("datetime", "time"):
            v = v.replace(fold=1)
        o = {"kind": kind, "val": vj, "bad": []}
        bad = o["bad"]
        try:
            # -- warm the caches with an equal-but-differently-represented value first
            if kind == "datetime":
                try:
                    other = v.astimezone(datetime.timezone(datetime.timedelta(minutes=(int(v.utcoffset().total_seconds()) // 60 + 61) % 1380 - 690)))
                    typelib.marshal(other, t=t)
                    typelib.unmarshal(t, other.isoformat())
                except (OverflowError, ValueError):
                    pass
            elif kind == "timedelta":
                typelib.marshal(datetime.timedelta(microseconds=enc.td_us(v)), t=t)
            text = v.isoformat() if kind in ("date", "datetime", "time") else (serdes.isoformat(v) if kind == "timedelta" else str(v))
            o["text"] = text
            m = typelib.marshal(v, t=t)
            o["mar"] = enc.from_py(m, P)
            if kind in ("int", "float"):
                if m != v or type(m) is not t:
                    bad.append(f"marshal({v!r}) = {m!r}")
            elif m != text:
                bad.append(f"marshal gives {m!r}, canonical text is {text!r}")
            # -- text in every carrier unmarshals back to v
            carriers = {"str": text, **{c: mk(text) for c, mk in enc.CARRIERS.items()}}
            um = {}
            for cname, tx in carriers.items():
                r = enc.run_real(lambda: typelib.unmarshal(t, tx), P)
                um[cname] = r
                exp = enc.from_py(v.replace(fold=0) if fold and kind in ("datetime", "time") else v, P)
                if not ("ok" in r and r["ok"] == exp):
                    bad.append(f"unmarshal({t.__name__}, {cname} {text!r}) -> {json.dumps({k: r[k] for k in r if k != 'msg'})[:160]}")
            o["um"] = um["str"]
            # -- the emitted ISO text is well-formed and means the same to an independent reader
            if kind == "date" and datetime.date.fromisoformat(text) != v:
                bad.append("date.fromisoformat disagrees")
            if kind == "datetime":
                b = datetime.datetime.fromisoformat(text)
                if b != v or b.utcoffset() != v.utcoffset() or b.microsecond != v.microsecond:
                    bad.append("datetime.fromisoformat disagrees")
            if kind == "time":
                b = datetime.time.fromisoformat(text)
                if b != v or b.utcoffset() != v.utcoffset() or b.microsecond != v.microsecond:
                    bad.append("time.fromisoformat disagrees")
            if kind == "timedelta":
                us = parse_iso_duration(text)
                if us != enc.td_us(v):
                    o["iso_duration"] = "zero" if enc.td_us(v) == 0 and text == "PT" else "bad"
                    if o["iso_duration"] == "bad":
                        bad.append(f"independent ISO duration reader: {text!r} -> {us!r}")
            # -- temporals into numeric / str / bytes types; numbers into temporal types
            if kind in ("date", "datetime", "timedelta"):
                if kind == "timedelta":
                    secs = v.total_seconds()
                elif kind == "date":
                    secs = datetime.datetime(v.year, v.month, v.day, tzinfo=UTC).timestamp()
                else:
                    secs = v.timestamp()
                rf = enc.run_real(lambda: typelib.unmarshal(float, v), P)
                if not ("ok" in rf and rf["ok"] == ["f", repr(float(secs))]):
                    bad.append(f"unmarshal(float, {kind}) -> {rf} expected {secs!r}")
                ri = enc.run_real(lambda: typelib.unmarshal(int, v), P)
                if not ("ok" in ri and ri["ok"] == int(secs)):
                    bad.append(f"unmarshal(int, {kind}) -> {ri} expected {int(secs)!r}")
            if kind in ("date", "datetime", "time", "timedelta"):
                rs = enc.run_real(lambda: typelib.unmarshal(str, v), P)
                if not ("ok" in rs and rs["ok"] == text):
                    bad.append(f"unmarshal(str, {kind}) -> {rs} expected {text!r}")
                rb = enc.run_real(lambda: typelib.unmarshal(bytes, v), P)
                if not ("ok" in rb and rb["ok"] == ["b", "bytes", text]):
                    bad.append(f"unmarshal(bytes, {kind}) -> {rb}")
        except Exception as e:  # noqa: BLE001
            import traceback
            bad.append(f"harness exception {type(e).__name__}: {e} {traceback.format_exc()[-300:]}")
        out.append(o)
    # numbers into temporal types: seconds since the epoch in UTC / seconds of duration
    nums = []
    for n in job["numbers"]:
        o = {"n": n, "bad": []}
        x = float(n[1]) if isinstance(n, list) else n
        try:
            ref = datetime.datetime.fromtimestamp(x, tz=UTC)
            exp = {"datetime": enc.from_py(ref, P), "date": enc.from_py(ref.date(), P),
                   "time": enc.from_py(ref.time().replace(tzinfo=UTC), P)}
        except (OverflowError, ValueError, OSError):
            exp = {}
        try:
            exp["timedelta"] = enc.from_py(datetime.timedelta(seconds=x), P)
        except OverflowError:
            pass
        for kind, e in exp.items():
            r = enc.run_real(lambda: typelib.unmarshal(T[kind], x), P)
            o[kind] = r
            if not ("ok" in r and r["ok"] == e):
                o["bad"].append(f"unmarshal({kind}, {x!r}) -> {json.dumps({k: r[k] for k in r if k != 'msg'})[:120]} expected {e}")
        nums.append(o)
    return {"cases": out, "numbers": nums}


# ---- Enum by value: the canonical text of a member's value, in every text carrier, finds the member again
ENUM_SRC = """
import enum
class Version(enum.Enum):
    ONE = "1"
    PI = "3.14"
    YES = "true"
    NIL = "null"
    PAIR = "1,2"
    LIST = "[1]"
    NAME = "stable"
    DOTTED = "v1.2"
    QUOTED = "it's"
class Level(enum.Enum):
    LOW = 1
    HIGH = 2
    TOP = 10
class Ratio(enum.Enum):
    HALF = 0.5
    WHOLE = 1.5
class Code(enum.IntEnum):
    A = 7
    B = 8
class Word(str, enum.Enum):
    ON = "on"
    NUM = "12"
class Sep(enum.Enum):
    # values that differ by edge whitespace only, and values that are a Python literal between blanks: the text IS the value
    COMMA = ","
    COMMA_SPACE = ", "
    TAB_X = "\\tx"
    X = "x"
    PADDED_TUPLE = " (1, 2) "
    NEWLINE_END = "end\\n"
"""


def _enum_child(_job):
    import warnings
    warnings.simplefilter("ignore")
    import typelib
    ns = {}
    exec(ENUM_SRC, ns)
    bad = []
    n = 0
    for cname in ("Version", "Level", "Ratio", "Code", "Word", "Sep"):
        E = ns[cname]
        for m in E:
            text = str(m.value)
            w = typelib.marshal(m, t=E)
            if w != m.value or type(w) is not type(m.value):
                bad.append(f"marshal({m!r}) = {w!r}, the member's value is {m.value!r}")
            carriers = {"str": text, **{c: mk(text) for c, mk in enc.CARRIERS.items()}}
            for c, tx in carriers.items():
                n += 1
                try:
                    r = typelib.unmarshal(E, tx)
                except Exception as e:  # noqa: BLE001
                    r = f"raised {type(e).__name__}"
                if r is not m:
                    bad.append(f"unmarshal({cname}, {c} {text!r}) -> {r!r}, expected {m!r}")
    return {"bad": bad, "n": n}


def enum_text_probe(res):
    o = iso.map_isolated(_enum_child, [None], timeout=60.0)[0]
    if not isinstance(o, dict) or "bad" not in o:
        raise RuntimeError(f"harness: enum text probe failed: {o}")
    res.case({"family": "enum-by-value-text"}, True)
    for b in o["bad"]:
        res.failures.append({"what": b, "input": {"enum_text": True}})
    if not o["bad"]:
        res.count("oracle:enum-value-text-finds-member", o["n"])


def explore(ctx):
    res = Result()
    res.rule = RULE
    r = ctx.rng
    per = ctx.n(60, 1500)
    jobs = []
    for kind in KINDS:
        vals = gen_values(r, kind, per)
        for i in range(0, len(vals), 30):
            nums = [r.choice([0, 1, -1, 1577836800, 253402300799, -62135596800, r.randint(-10**9, 4 * 10**9), r.randint(-10**12, 10**12),
                              ["f", repr(round(r.uniform(-10**9, 10**9), r.randint(0, 6)))], ["f", "1.5"], ["f", "0.000001"]]) for _ in range(6)]
            # floats of every magnitude whose microseconds are decided by rounding, not by their digits: a few decimals at small
            # and middling magnitudes, one digit beyond the microsecond, sums of tenths, the total_seconds() of a duration
            nums += [["f", repr(r.choice([round(r.uniform(-100, 100), r.randint(1, 7)), round(r.uniform(-10**6, 10**6), r.randint(1, 7)),
                                          r.randint(-50, 50) + r.choice([0.9999999, 0.0000009, 0.0000005, 0.0000015, 0.1 + 0.2, 0.7 + 0.1]),
                                          datetime.timedelta(microseconds=r.randint(-10**13, 10**13)).total_seconds(),
                                          r.randint(-10**4, 10**4) / r.choice([3, 7, 10, 100, 1000])]))] for _ in range(6)]
            jobs.append({"cases": [(kind, v, r.random() < 0.2) for v in vals[i:i + 30]], "numbers": nums})
    core.import_typelib()
    outs = iso.map_isolated(child, jobs, timeout=120)
    # correspondence: the model on the same text forms / values
    lines, idx = [{"op": "env", "env": []}], [None]
    for ji, (job, o) in enumerate(zip(jobs, outs)):
        if isinstance(o, dict) and "crash" in o:
            raise RuntimeError(f"harness: {o}")
        for ci, c in enumerate(o["cases"]):
            if "text" in c:
                lines.append({"op": "um", "ty": [c["kind"]], "val": c["text"]})
                idx.append((ji, ci, "um"))
                lines.append({"op": "mar", "ty": [c["kind"]], "val": c["val"]})
                idx.append((ji, ci, "mar"))
        for ni, nn in enumerate(o["numbers"]):
            for kind in ("datetime", "date", "time", "timedelta"):
                if kind in nn:
                    lines.append({"op": "um", "ty": [kind], "val": nn["n"]})
                    idx.append((ji, ni, "num:" + kind))
    model = lean.drive(lines)
    for (ix, m_) in zip(idx, model):
        if ix is None:
            continue
        ji, ci, what = ix
        o = outs[ji]
        if what.startswith("num:"):
            r_ = o["numbers"][ci][what[4:]]
            inp = {"kind": what[4:], "number": o["numbers"][ci]["n"]}
        elif what == "um":
            c = o["cases"][ci]
            if "um" not in c:
                continue
            r_ = c["um"]
            if jobs[ji]["cases"][ci][2] and "ok" in r_:
                pass
            inp = {"kind": c["kind"], "text": c["text"]}
        else:
            c = o["cases"][ci]
            if "mar" not in c:
                continue
            r_ = {"ok": c["mar"]}
            inp = {"kind": c["kind"], "val": c["val"]}
        core.compare(res, what.split(":")[0], inp, r_, m_)
    for job, o in zip(jobs, outs):
        for c in o["cases"]:
            res.case({"kind": c["kind"], "val": c["val"]}, True)
            if c.get("iso_duration") == "zero":
                res.failures.append({"what": "the text emitted for the zero duration is 'PT', which an independent ISO-8601 reader rejects",
                                     "input": {"kind": "timedelta", "val": c["val"]}, "finding": "zeroDurationText"})
            if c["bad"]:
                res.failures.append({"what": "; ".join(c["bad"][:3]), "input": {"kind": c["kind"], "val": c["val"], "text": c.get("text")}})
            else:
                res.count("oracle:ok:" + c["kind"])
        for nn in o["numbers"]:
            res.case({"number": nn["n"]}, True)
            if nn["bad"]:
                res.failures.append({"what": "; ".join(nn["bad"][:3]), "input": {"number": nn["n"]}})
            else:
                res.count("oracle:ok:number")
    if ctx.tier == "thorough" and ctx.scale == 1.0:
        res.extra["calendar_law"] = calendar_exhaustive(res)
    enum_text_probe(res)
    return res


def calendar_exhaustive(res):
    """CalLaw, tested exhaustively (a test, labelled as such): the model's civil-from-days algorithm against
    datetime.date for every ordinal 1..3652059 (the Lean definitions are mirrored here verbatim)."""
    import datetime

    def civil(o):
        z = o + 305
        era, doe = divmod(z, 146097)
        yoe = (doe - doe // 1460 + doe // 36524 - doe // 146096) // 365
        y = yoe + era * 400
        doy = doe - (365 * yoe + yoe // 4 - yoe // 100)
        mp = (5 * doy + 2) // 153
        d = doy - (153 * mp + 2) // 5 + 1
        m = mp + 3 if mp < 10 else mp - 9
        return (y + 1 if m <= 2 else y, m, d)
    badn = 0
    for o in range(1, MAX_ORD + 1):
        dt = datetime.date.fromordinal(o)
        if civil(o) != (dt.year, dt.month, dt.day):
            badn += 1
            if badn < 3:
                res.failures.append({"what": "CalLaw fails", "input": {"ordinal": o}})
    return {"ordinals_checked": MAX_ORD, "mismatches": badn, "exhaustive": True}


def witness(fid):
    if fid == "zeroDurationText":
        import datetime
        core.import_typelib()
        from typelib import serdes
        return parse_iso_duration(serdes.isoformat(datetime.timedelta(0))) is None
    return None


def replay(failure):
    inp = failure["input"]
    core.import_typelib()
    if "enum_text" in inp:
        o = iso.map_isolated(_enum_child, [None], timeout=60.0)[0]
        print(json.dumps(o, indent=1, default=str)[:3000])
        return bool(o.get("bad")) if isinstance(o, dict) else True
    if "number" in inp:
        out = iso.map_isolated(child, [{"cases": [], "numbers": [inp["number"]]}])[0]
        print(json.dumps(out, indent=1)[:2000])
        return bool(out["numbers"][0]["bad"])
    out = iso.map_isolated(child, [{"cases": [(inp["kind"], inp["val"], False)], "numbers": []}])[0]
    print(json.dumps(out, indent=1)[:3000])
    return bool(out["cases"][0]["bad"]) or out["cases"][0].get("iso_duration") == "zero"
