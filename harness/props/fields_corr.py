"""Field selection of serdes._make_fields_iterator / get_items_iter: real code <-> Lean model (Model/Fields.lean).

Run with C18 (`fields_correspondence(res)` at the end of c18.explore; theorems in Props/Fields.lean).

One forked child synthesises a grid of classes

    kind   dataclass | dataclass(slots=True) | annotated plain | annotated + __slots__ (declared / reversed order)
           | __slots__ only | nothing at class level (vars only)
  x base   none | annotated plain | dataclass | dataclass(slots=True) | slotted + annotated | __slots__ only
           | plain without annotations | __slots__ = ()
  x own members (annotated kinds)  public / private fields, ClassVar[int] and bare ClassVar with values, InitVar,
           the KW_ONLY sentinel, an unresolvable hint, a base-class name annotated again, nothing, private only,
           ClassVar only, InitVar only
    or own __slots__ (slots-only kind)  public+private, one, private only, (), a list in another order, one string,
           with '__dict__'
  x annotations as objects | as strings (`from __future__ import annotations`)

every class twice (two distinct class objects) so that its instances — built with object.__new__ and setattr: all
declared names and slots; plus extra public / private vars; two different vars-only attribute sets; one public name
left unset; instance attributes named like the ClassVar / InitVar — go through the ONE memoised iterator of the
class in both orders, all in one process.  For every class the `ClassShape` is read with Python's own introspection
(dataclasses, typing.get_type_hints, __dict__ / __mro__, vars — not with typelib), the Lean driver answers
`selectAll` for the sequence of instances, and the answer is compared with
`[k for k, _ in typelib.serdes.iteritems(instance)]`.  Where the model's names are not all attributes of the
instance the expected outcome is AttributeError (getattr), where the model reads vars() of an object without
__dict__ it is TypeError — both decided with Python's hasattr, not by the model.  Also checked per class: the
description satisfies the theorems' hypothesis `wf`; `inspection.isclassvartype` agrees with typing on every hint.
"""
from __future__ import annotations

import json

from .. import iso, lean

MODS = ("vm_fields_obj", "vm_fields_str")

BASES_SRC = '''
class BA:
    a: int
    _b: str
    c: int
    BK: typing.ClassVar[int] = 1

@dataclasses.dataclass
class BD:
    a: int = 0
    _b: str = ""
    c: int = 0
    BK: typing.ClassVar[int] = 1
    bi: dataclasses.InitVar[int] = 0

@dataclasses.dataclass(slots=True)
class BDS:
    a: int = 0
    _b: str = ""
    c: int = 0

class BSA:
    __slots__ = ("a", "_b", "c")
    a: int
    _b: str
    c: int

class BS:
    __slots__ = ("a", "_b", "c")

class BV:
    pass

class BE:
    __slots__ = ()
'''
BASES = [None, "BA", "BD", "BDS", "BSA", "BS", "BV", "BE"]
BASE_HAS_A = {"BA", "BD", "BDS", "BSA"}

# token -> (name, annotation source, default source | None, is an instance name)
TOKENS = {
    "pub": ("x", "int", "0", True),
    "pub2": ("y", "str", "''", True),
    "priv": ("_p", "int", "0", True),
    "cv": ("K", "typing.ClassVar[int]", "7", False),
    "cvbare": ("B", "typing.ClassVar", "8", False),
    "iv": ("i", "dataclasses.InitVar[int]", "0", False),
    "kw": ("kw", "dataclasses.KW_ONLY", None, False),
    "bad": ("q", "Nope", "0", True),
    "ovr": ("a", "str", "''", True),
}
ANN_MENUS = [
    ["pub", "pub2"], ["pub", "priv", "pub2"], ["priv"], [], ["cv"], ["pub", "cv", "cvbare", "pub2"],
    ["cv", "pub", "priv", "cvbare"], ["pub", "iv", "pub2"], ["iv"], ["pub", "kw", "pub2"], ["pub", "bad"],
    ["ovr", "pub"], ["pub2", "ovr"], ["priv", "cv", "iv", "kw"], ["kw"], ["bad"],
]
SLOT_MENUS = ['("x", "_p", "y")', '("x",)', '("_p",)', '()', '["y", "x"]', '"xy"', '("x", "__dict__")', '("_p", "__dict__")']
KINDS = ["dc", "dcs", "ann", "anns", "annsr", "slots", "vars"]
UNIVERSE = ["a", "_b", "c", "x", "_p", "y", "q", "xy"]


def class_specs():
    """The grid, deterministic.  A spec that Python refuses to build is skipped (and counted) in the child."""
    out = []
    for kind in KINDS:
        for base in BASES:
            if kind in ("dc", "dcs", "ann", "anns", "annsr"):
                for menu in ANN_MENUS:
                    if "iv" in menu and kind not in ("dc", "dcs"):
                        continue
                    if "ovr" in menu and base not in BASE_HAS_A:
                        continue
                    out.append({"kind": kind, "base": base, "menu": menu})
            elif kind == "slots":
                for sl in SLOT_MENUS:
                    out.append({"kind": kind, "base": base, "slots": sl})
            else:
                out.append({"kind": kind, "base": base})
    return out


def class_source(spec, name, strings):
    kind, base = spec["kind"], spec["base"]
    head = f"class {name}({base}):" if base else f"class {name}:"
    deco = {"dc": "@dataclasses.dataclass\n", "dcs": "@dataclasses.dataclass(slots=True)\n"}.get(kind, "")
    body = []
    if kind == "slots":
        body.append(f"__slots__ = {spec['slots']}")
    elif kind != "vars":
        toks = [TOKENS[t] for t in spec["menu"]]
        if kind in ("anns", "annsr"):
            inst = [n for n, _, _, is_inst in toks if is_inst and not (n == "a" and base in ("BSA", "BDS"))]
            if kind == "annsr":
                inst = inst[::-1]
            body.append(f"__slots__ = {tuple(inst)!r}")
        for n, ann, default, is_inst in toks:
            if ann == "Nope" and not strings:
                ann = "'Nope'"
            line = f"{n}: {ann}"
            # dataclass fields all get defaults (no ordering errors); plain classes only for class variables
            if default is not None and (kind in ("dc", "dcs") or (not is_inst and kind in ("ann", "anns", "annsr"))):
                line += f" = {default}"
            body.append(line)
    if not body:
        body = ["pass"]
    return deco + head + "\n" + "".join(f"    {b}\n" for b in body)


# --------------------------------------------------------------------------- child: build, describe, observe

def _hint_kind(h):
    import dataclasses
    import typing
    if h is dataclasses.KW_ONLY:
        return "kwOnly"
    if h is typing.ClassVar or typing.get_origin(h) is typing.ClassVar:
        return "classVar"
    return "inst"


def shape_of(tp):
    """What the model calls a ClassShape, from Python's own introspection."""
    import dataclasses
    import typing
    isdc = dataclasses.is_dataclass(tp)
    dcf = []
    if isdc:
        real = {f.name for f in dataclasses.fields(tp)}
        for n, f in tp.__dataclass_fields__.items():
            k = {"_FIELD": "field", "_FIELD_CLASSVAR": "classVar", "_FIELD_INITVAR": "initVar"}[f._field_type.name]
            assert (k == "field") == (n in real), (tp, n)
            dcf.append([n, k])
    try:
        hints = typing.get_type_hints(tp)
    except (NameError, TypeError):
        hints = {}
    base_ann = {}
    for k in reversed(tp.__mro__[1:]):
        for n in k.__dict__.get("__annotations__", {}):
            base_ann.setdefault(n, None)
    own_ann = list(tp.__dict__.get("__annotations__", {}))
    has_slots = hasattr(tp, "__slots__")
    slots, base_slots = [], []
    if has_slots:
        owners = [k for k in tp.__mro__ if "__slots__" in k.__dict__]
        slots = list(owners[0].__dict__["__slots__"])
        for k in reversed(owners[1:]):
            sl = k.__dict__["__slots__"]
            base_slots += [sl] if isinstance(sl, str) else list(sl)
    return {"isDataclass": isdc, "dcFields": dcf, "hints": [[n, _hint_kind(h)] for n, h in hints.items()],
            "baseAnnotations": list(base_ann), "ownAnnotations": own_ann,
            "hasSlots": has_slots, "slots": slots, "baseSlots": base_slots}, hints


def instance_plans(spec):
    """Attribute names to set, in order; what cannot be stored on the instance is skipped when it is built."""
    kind, base = spec["kind"], spec["base"]
    declared = []
    if base in ("BA", "BD", "BDS", "BSA", "BS"):
        declared += ["a", "_b", "c"]
    if kind == "slots":
        declared += ["x", "_p", "y", "xy"]
    elif kind != "vars":
        declared += [TOKENS[t][0] for t in spec["menu"] if TOKENS[t][3] and TOKENS[t][0] not in declared]
    public = [n for n in declared if not n.startswith("_")]
    plans = [declared, declared + ["extra", "_hidden"], ["v1", "_v2", "v3"] + declared, ["v3"] + declared,
             declared + ["K", "i", "kw", "BK"], list(reversed(declared))]
    if public:
        plans.append([n for n in declared if n != public[-1]])
        plans.append([n for n in declared if n != public[0]] + ["extra"])
    return plans


def _build(cls, plan):
    obj = object.__new__(cls)
    for n in plan:
        try:
            object.__setattr__(obj, n, len(n))
        except (AttributeError, TypeError):
            pass
    return obj


def _child(job):
    import dataclasses  # noqa: F401
    import sys
    import types
    import typing
    import warnings
    warnings.simplefilter("ignore")
    from typelib import serdes
    from typelib.py import inspection
    specs = job["specs"]
    out, illegal, cv_mismatch = [], 0, []
    for strings, modname in zip((False, True), MODS):
        mod = types.ModuleType(modname)
        sys.modules[modname] = mod
        ns = mod.__dict__
        # (dont_inherit: code compiled by exec() would otherwise inherit this module's own `from __future__ import annotations`)
        fut = "from __future__ import annotations\n" if strings else ""
        exec(compile(fut + "import dataclasses, typing\n" + BASES_SRC, modname, "exec", dont_inherit=True), ns)
        for i, spec in enumerate(specs):
            for order in ("fwd", "rev"):
                name = f"C{i}{order[0]}"
                src = class_source(spec, name, strings)
                try:
                    exec(compile(fut + src, modname, "exec", dont_inherit=True), ns)
                except (TypeError, ValueError):
                    illegal += 1
                    continue
                cls = ns[name]
                shape, hints = shape_of(cls)
                for n, h in hints.items():
                    if bool(inspection.isclassvartype(h)) != (_hint_kind(h) == "classVar"):
                        cv_mismatch.append([src, n, repr(h)])
                cand = set(UNIVERSE + ["K", "B", "i", "kw", "BK", "bi", "extra", "v1", "v3"] + shape["slots"]
                           + [p[0] for p in shape["hints"]] + [p[0] for p in shape["dcFields"]])
                objs, seen = [], set()
                for plan in instance_plans(spec):
                    o = _build(cls, plan)
                    state = (tuple(getattr(o, "__dict__", {})), tuple(n for n in UNIVERSE if hasattr(o, n)))
                    if state not in seen:
                        seen.add(state)
                        objs.append(o)
                if order == "rev":
                    objs.reverse()
                insts = []
                for o in objs:
                    try:
                        real = [k for k, _ in serdes.iteritems(o)]
                    except Exception as e:  # noqa: BLE001
                        real = {"err": type(e).__name__}
                    has_dict = hasattr(o, "__dict__")
                    insts.append({"vars": list(vars(o)) if has_dict else [], "has_dict": has_dict, "real": real,
                                  "attrs": sorted(n for n in cand | set(vars(o) if has_dict else ()) if hasattr(o, n))})
                out.append({"spec": spec, "strings": strings, "order": order, "src": src, "shape": shape, "instances": insts})
    return {"classes": out, "illegal": illegal, "cv_mismatch": cv_mismatch}


# --------------------------------------------------------------------------- parent: ask the model, compare

def expected(names, tier, inst):
    """Outcome of `[k for k, _ in iteritems(obj)]` if the function selects `names` from source `tier`."""
    if tier == "vars" and not inst["has_dict"]:
        return {"err": "TypeError"}          # vars() argument must have __dict__ attribute
    for n in names:
        if n not in inst["attrs"]:
            return {"err": "AttributeError"}  # getattr(val, n)
    return names


def observe():
    """Run the child and the driver; returns (child output, driver answers per class)."""
    out = iso.map_isolated(_child, [{"specs": class_specs()}], nproc=1, timeout=300.0)[0]
    if not isinstance(out, dict) or "classes" not in out:
        raise RuntimeError(f"harness: field-selection child failed: {out}")
    ops = [{"op": "fields.select", "shape": k["shape"], "instances": [i["vars"] for i in k["instances"]]} for k in out["classes"]]
    model = lean.drive(ops) if ops else []
    return out, model


def fields_correspondence(res):
    out, model = observe()
    res.count("fields:classes", len(out["classes"]))
    res.count("fields:specs-python-refuses", out["illegal"])
    for src, n, h in out["cv_mismatch"]:
        res.disagreements.append({"what": "fields: inspection.isclassvartype disagrees with typing.get_origin(h) is ClassVar",
                                  "input": {"family": "field-selection", "class": src, "name": n}, "real": h, "model": "typing"})
    for k, m in zip(out["classes"], model):
        brief = {"family": "field-selection", "class": k["src"], "strings": k["strings"], "order": k["order"]}
        if "bad" in m:
            raise RuntimeError(f"harness: driver rejected a class description: {m} {k['shape']}")
        if not m["wf"]:
            res.count("fields:wf:DISAGREE")
            res.disagreements.append({"what": "fields: the description of a real class violates the hypothesis `wf` of Props/Fields.lean",
                                      "input": {**brief, "shape": k["shape"]}, "real": k["shape"], "model": {"wf": False}})
        res.count("fields:tier:" + m["tier"])
        for inst, names, beyond in zip(k["instances"], m["seq"], m["beyond"]):
            res.case({**brief, "vars": inst["vars"], "attrs": sorted(inst["attrs"])}, True)
            want = expected(names, m["tier"], inst)
            if beyond:
                res.count("fields:outside-select_spec(storageBeyondSlots)")
            if want == inst["real"]:
                res.count("fields:ok" if isinstance(want, list) else "fields:ok:" + want["err"])
            else:
                res.count("fields:DISAGREE")
                res.disagreements.append({"what": "fields: keys of iteritems(instance) differ from selectNames of the class description",
                                          "input": {**brief, "shape": k["shape"], "inst_vars": inst["vars"],
                                                    "sequence": [i["vars"] for i in k["instances"]]},
                                          "real": inst["real"], "model": {"names": names, "tier": m["tier"], "expected": want}})
    return res


if __name__ == "__main__":   # python -m harness.props.fields_corr : print the comparison (development aid)
    from .. import core
    from ..runner import Result
    core.import_typelib()
    r = fields_correspondence(Result())
    print(json.dumps({"evaluations": r.evaluations, "distinct": len(r.keys), "stats": r.stats,
                      "disagreements": r.disagreements[:5]}, indent=1, default=str)[:6000])
