"""C15 — Every valid annotation yields working routines."""
from __future__ import annotations

import itertools
import json

from .. import core, enc, iso
from ..runner import Result

ID = "C15"
LEVEL = "translation_validation"
LEVEL_TEXT = ("Per generated annotation of the extended universe U+ (exhaustive to depth 2, sampled at depth 3) the REAL library "
              "must build marshaller(T), unmarshaller(T) and codec(T) without error or unbounded recursion, behave as pass-through at "
              "positions whose type cannot be resolved, build resolvable structured classes (also ones that define __call__ or carry a "
              "ClassVar of their own type), and behave the same when built again and after every cache was cleared (`programs` = "
              "annotations certified). Unbounded parts, kernel-checked (Props/C15.lean, Props/C05.lean, Props/Dispatch.lean): "
              "`compile_total` / `compile_total_wf` — for EVERY annotation of U (all classes declared, Literal members primitive: "
              "decidable, implied by wfTy / wfEnv) both model compilers return a routine tree that the validator accepts and that has no "
              "unknown node; `compile_works` — that tree computes the denotation on every input (C05's `compile_sound_*`); the "
              "regenerated dispatch tables are total on every annotation kind incl. TypeVars / type[X] / Callable / user generics / "
              "hint-less classes (`Dispatch.dispatch_total`, re-decided each run); the pass-through clause for every input "
              "(`any_unmarshal`, `coll_any_passthrough`, `dict_any_passthrough`, `optional_any`). The model compiler is compared "
              "with the real routine trees node by node by C05's check on every run; graph termination / acyclicity is C09's theorem, "
              "context lookups C16's.")
LEVEL_NOTE = ("Trusted: Lean kernel, standard axioms; the extractor of the dispatch tables. The annotations of U+ \\ U (TypeVars, "
              "Callable, type[X], bare generics, user Generic classes) have no counterpart in the model's `Ty`: for them the "
              "construction pipeline is exercised on the real library, not modelled.")
TECHNIQUE = "per-annotation construction certification on the real library + Lean 4 theorems (compile_total / compile_works for every annotation of U, dispatch totality by `decide` on regenerated tables, pass-through)"
DESIGN_REF = "DESIGN.md §5 C15"
MODULES = ["TypelibModel.Props.C15", "TypelibModel.Props.Dispatch"]
TABLES = True
RULE = ("constructor grammar of U extended with Any, object, bare list/dict/tuple/set, unparameterised typing.List etc., TypeVar "
        "(free, bound, constrained), Callable[..], type[X], Generic[T] user classes parameterised and bare, classes with no "
        "annotations; exhaustive to depth 2, sampled at depth 3; one annotation = one program")
ASSUMPTIONS = ["'same behaviour' after rebuilding is judged on a fixed pool of probe inputs per annotation"]
TRUSTED = ["harness generator of U+"]

PRELUDE = """
import collections, collections.abc, dataclasses, datetime, decimal, enum, typing
T = typing.TypeVar("T"); B = typing.TypeVar("B", bound=int); Cn = typing.TypeVar("Cn", int, str)
import typing_extensions
# TypeVars made by the backport (genuine typing.TypeVar instances that carry a PEP 696 default slot), and bounds that are not classes
XT = typing_extensions.TypeVar("XT"); XB = typing_extensions.TypeVar("XB", bound=int); XD = typing_extensions.TypeVar("XD", default=int)
UB = typing.TypeVar("UB", bound=typing.Union[int, str]); LB = typing.TypeVar("LB", bound=typing.List[int])
@dataclasses.dataclass
class XBox(typing.Generic[XT]):
    item: XT = None
class G(typing.Generic[T]):
    x: T
    def __init__(self, x): self.x = x
class NoHints:
    def __init__(self, a=1, b=(), c=False, d=None, e="x"): self.a, self.b, self.c, self.d, self.e = a, b, c, d, e
@dataclasses.dataclass
class DC:
    a: int
    b: typing.Any = None
class E(enum.Enum):
    r = 1
class GD(typing.Generic[T]):
    pass
import re
K = typing.TypeVar("K"); V = typing.TypeVar("V")
@dataclasses.dataclass
class Pair(typing.Generic[K, V]):
    key: K
    value: V
@dataclasses.dataclass
class Triple(typing.Generic[K, V, T]):
    a: K
    b: V
    c: T
    n: int = 0
IntList = typing.TypeAliasType("IntList", list[int])
Tags = typing.NewType("Tags", list[str])
Handlers = typing.TypeAliasType("Handlers", dict[str, typing.Callable[[int], str]])
IntBox = typing.TypeAliasType("IntBox", G[int])
MaybeDC = typing.TypeAliasType("MaybeDC", typing.Optional[DC])
DCId = typing.NewType("DCId", DC)
@dataclasses.dataclass
class CV:
    a: int
    ZERO: typing.ClassVar["CV"] = None
@dataclasses.dataclass
class DCall:
    a: int
    def __call__(self):
        return 1
PlainNT = collections.namedtuple("PlainNT", ["x", "y"])
PairNT = collections.namedtuple("PairNT", ["x", "y"], defaults=[0])
def _make_local():
    # classes created inside a function: their qualified name ('_make_local.<locals>.LPlain') cannot be resolved from the module
    class LPlain:
        def __init__(self, a=1):
            self.a = a
    @dataclasses.dataclass
    class LDC:
        a: int = 0
    class LBox(typing.Generic[T]):
        pass
    return LPlain, LDC, LBox
LPlain, LDC, LBox = _make_local()
@dataclasses.dataclass
class Tree:
    # recursive, and the anonymous type that closes the cycle (list[Tree]) sits BELOW another anonymous type
    index: dict[str, list["Tree"]] = dataclasses.field(default_factory=dict)
    label: str = ""
@dataclasses.dataclass
class Chain:
    nxt: typing.Optional["Chain"] = None
    links: tuple["Chain", ...] = ()
class Meta(type):
    pass
import abc
class TNode(typing.NamedTuple):
    # recursive structured classes that DERIVE from a standard-library container (tuple, dict)
    value: int
    nxt: typing.Optional["TNode"] = None
class DTree(typing.TypedDict):
    value: int
    children: typing.List["DTree"]
@dataclasses.dataclass
class FinalFree(typing.Generic[T]):
    item: typing.Final[T]
    n: int = 0
@dataclasses.dataclass
class FinalBound(typing.Generic[B]):
    item: typing.Final[B]
@dataclasses.dataclass
class FinalCn(typing.Generic[Cn]):
    item: typing.Final[Cn]
@dataclasses.dataclass
class CVBound(typing.Generic[B]):
    n: int = 0
    item: typing.ClassVar[B] = 5
"""
LEAVES = ["int", "str", "typing.Any", "object", "list", "dict", "tuple", "set", "frozenset", "typing.List", "typing.Dict",
          "typing.Tuple", "T", "B", "Cn", "typing.Callable[[int], str]", "typing.Callable[..., typing.Any]",
          "collections.abc.Callable", "type[int]", "typing.Type[DC]", "G", "G[int]", "NoHints", "DC", "E", "None",
          "typing.Literal[1, 'a']", "datetime.datetime", "decimal.Decimal", "GD", "GD[str]", "CV", "DCall", "re.Pattern[str]", "re.Pattern",
          "IntList", "Tags", "Handlers", "IntBox", "MaybeDC", "DCId", "Pair", "Triple", "Pair[int, str]",
          # a TypeVar reached through a qualifier on a field of a user generic
          "FinalFree", "FinalBound", "FinalCn", "CVBound", "FinalFree[int]",
          # function-local classes (used once here, twice in the `reuse` family)
          "LPlain", "LDC", "LBox",
          # named tuples made by the collections factory: no annotations at all, the fields are pass-through positions
          "PlainNT", "PairNT",
          # recursive user classes (members of U): every container of them builds, whatever anonymous type their fields share with it
          "Tree", "Chain", "TNode", "DTree",
          # bare classes of classes: unresolvable positions like type[X]
          "type", "typing.Type", "Meta", "abc.ABCMeta",
          # TypeVars of the typing_extensions backport; TypeVars bound to a union / a parametrised generic
          "XT", "XB", "XD", "XBox", "XBox[int]", "UB", "LB"]
UNARY = ["list[{0}]", "typing.List[{0}]", "tuple[{0}, ...]", "dict[str, {0}]", "typing.Optional[{0}]", "typing.Sequence[{0}]",
         "collections.abc.Mapping[str, {0}]", "frozenset[{0}]", "G[{0}]"]
BINARY = ["tuple[{0}, {1}]", "typing.Union[{0}, {1}]", "dict[{0}, {1}]"]
PASS = {"typing.Any", "object", "T", "XT", "typing.Callable[[int], str]", "typing.Callable[..., typing.Any]", "collections.abc.Callable",
        "type[int]", "typing.Type[DC]", "type", "typing.Type", "Meta", "abc.ABCMeta"}
KNOWN = {"tuple[()]": "emptyTupleAnnotation"}


def annotations(ctx):
    r = ctx.rng
    d1 = list(LEAVES)
    d2 = [u.format(x) for u in UNARY for x in LEAVES] + [b.format(x, y) for b in BINARY for x in LEAVES for y in LEAVES]
    # the same member used twice in one annotation, one use below another anonymous type (named wrappers are then cut by reference)
    reuse = [p.format(x) for x in LEAVES for p in ("tuple[typing.Optional[{0}], {0}]", "tuple[list[{0}], {0}]", "tuple[{0}, typing.Optional[{0}]]",
                                                   "dict[str, tuple[{0}, list[{0}]]]",
                                                   # the same anonymous type under two DIFFERENT parents (build order of the revisit)
                                                   "tuple[list[tuple[{0}, ...]], dict[str, tuple[{0}, ...]]]",
                                                   "tuple[list[list[{0}]], dict[str, list[{0}]]]",
                                                   "tuple[dict[str, typing.Optional[{0}]], list[typing.Optional[{0}]]]")]
    out = d1 + d2 + reuse + ["list[Tree]", "dict[str, list[Tree]]", "typing.Optional[list[Tree]]", "G[list[Tree]]", "tuple[Chain, ...]", "typing.Optional[Chain]",
                             "dict[str, tuple[Chain, ...]]", "list[typing.Optional[Chain]]", "tuple[()]", "tuple[tuple[int, ...], tuple[str, ...]]", "tuple[typing.Any, ...]", "list[T]", "dict[str, T]"]
    if ctx.tier == "quick" and ctx.scale == 1.0:
        r.shuffle(d2)
        out = d1 + d2[:700] + out[len(d1) + len(d2):]     # (keeps the `reuse` family and the fixed extras)
    n3 = ctx.n(300, 6000)
    for _ in range(n3):
        if r.random() < 0.6:
            out.append(r.choice(UNARY).format(r.choice(d2)))
        else:
            out.append(r.choice(BINARY).format(r.choice(d2), r.choice(LEAVES)))
    return out


class Sentinel:
    def __repr__(self):
        return "<sentinel>"


def child(job):
    import warnings
    warnings.simplefilter("ignore")
    import typelib
    import sys
    import types
    mod = types.ModuleType("vm_c15")
    sys.modules["vm_c15"] = mod
    ns = mod.__dict__
    exec(PRELUDE, ns)
    out = []
    for src in job:
        o = {"src": src}
        try:
            t = eval(src, ns)
        except Exception as e:  # noqa: BLE001  (e.g. `set[list]` is fine, `dict[list, int]` too; an illegal expression is skipped)
            o["skip"] = f"{type(e).__name__}: {e}"[:100]
            out.append(o)
            continue

        def build():
            return typelib.marshaller(t), typelib.unmarshaller(t), typelib.codec(t)

        class _Unbounded(BaseException):
            pass

        def _alarm(sig, frame):
            raise _Unbounded()
        import signal
        old_handler = signal.signal(signal.SIGALRM, _alarm)
        signal.alarm(8)           # a construction takes milliseconds; "without unbounded recursion" includes a walk that never ends
        try:
            try:
                m, u, c = build()
            finally:
                signal.alarm(0)
                signal.signal(signal.SIGALRM, old_handler)
        except _Unbounded:
            o["construct"] = "did not terminate within 8 s (the walk of the type graph does not end)"
            out.append(o)
            return out            # (the state of this process is not to be trusted after an interrupted walk; the rest of the batch is rejudged)
        except RecursionError as e:
            o["construct"] = "RecursionError"
            out.append(o)
            continue
        except Exception as e:  # noqa: BLE001
            o["construct"] = f"{type(e).__name__}: {e}"[:200]
            out.append(o)
            continue
        o["construct"] = "ok"
        s = Sentinel()
        probes = [s, None, 1, "1", [], {}, [1, "a"], {"a": 1}, [s], {"a": s}, (1, s)]

        def behave(um, ma):
            res = []
            for p in probes:
                for f in (um, ma):
                    try:
                        r = f(p)
                        res.append(("ok", type(r).__name__, repr(r)[:80] if type(r).__module__ == "builtins" and " at 0x" not in repr(r) else ""))
                    except Exception as e:  # noqa: BLE001
                        res.append(("err", enc.err_class(e)))
            return res
        b1 = behave(u, m)
        # pass-through positions
        pt = []
        if src in PASS:
            for p in (s, 1, "x", [s]):
                if u(p) is not p:
                    pt.append(f"unmarshaller({src})({p!r}) is not its input")
                if m(p) is not p:
                    pt.append(f"marshaller({src})({p!r}) is not its input")
        # an UNPARAMETERISED container: the types of its members cannot be resolved, every member is handed on as it is (and none is lost)
        bare = {"list": [s, 1, "a"], "tuple": (s, 1, "a"), "typing.List": [s, 1, "a"], "typing.Tuple": (s, 1, "a"), "set": {s, 1}, "frozenset": frozenset({s, 1}),
                "dict": {"k": s, "j": 1}, "typing.Dict": {"k": s, "j": 1}}
        if src in bare:
            v = bare[src]
            for label, f in (("unmarshaller", u), ("marshaller", m)):
                try:
                    r = f(v)
                    got = list(r.values()) if isinstance(r, dict) else list(r)
                    if len(got) != len(v) or not any(e is s for e in got):
                        pt.append(f"{label}({src})({v!r}) lost or replaced members: {r!r}")
                except Exception as e:  # noqa: BLE001
                    pt.append(f"{label}({src})({v!r}) raised {type(e).__name__}: {e}"[:160])
        # a resolvable structured class is NOT a pass-through position: the routine must build the class
        if src in ("DC", "CV", "DCall"):
            try:
                r = u({"a": "1"})
                if type(r) is not t or r.a != 1:
                    pt.append(f"unmarshaller({src})({{'a': '1'}}) did not build the class: {r!r}")
                w = m(t(a=2))
                if w != {"a": 2} and w != {"a": 2, "b": None}:
                    pt.append(f"marshaller({src})({src}(a=2)) did not marshal the instance: {w!r}")
            except Exception as e:  # noqa: BLE001
                pt.append(f"structured probe raised {type(e).__name__}: {e}"[:160])
        # the fields of an unparameterised generic class typed by FREE TypeVars (several distinct ones) are pass-through positions
        if src in ("Pair", "Triple"):
            names = ["key", "value"] if src == "Pair" else ["a", "b", "c"]
            try:
                vals = [s, "text", [s]][:len(names)]
                r = u(dict(zip(names, vals)))
                if type(r) is not t or any(getattr(r, n) is not v for n, v in zip(names, vals)):
                    pt.append(f"unmarshaller({src}) did not pass the values at its free-TypeVar fields through: {r!r}")
                w = m(t(*vals))
                if not (isinstance(w, dict) and all(w.get(n) is v for n, v in zip(names, vals))):
                    pt.append(f"marshaller({src}) did not pass the values at its free-TypeVar fields through: {w!r}")
            except Exception as e:  # noqa: BLE001
                pt.append(f"free-TypeVar field probe raised {type(e).__name__}: {e}"[:160])
        # a free TypeVar behind a qualifier is a pass-through position too, a bound one converts by its bound
        if src in ("FinalFree", "FinalBound", "FinalCn", "CVBound"):
            try:
                if src == "FinalFree":
                    r = u({"item": s, "n": "3"})
                    if type(r) is not t or r.item is not s or r.n != 3:
                        pt.append(f"unmarshaller(FinalFree) did not pass the Final[T] field through / convert n: {r!r}")
                    w = m(t(s, 3))
                    if not (isinstance(w, dict) and w.get("item") is s and w.get("n") == 3):
                        pt.append(f"marshaller(FinalFree) did not pass the Final[T] field through: {w!r}")
                elif src == "CVBound":
                    r = u({"n": "3"})
                    if type(r) is not t or r.n != 3:
                        pt.append(f"unmarshaller(CVBound) did not build the class: {r!r}")
                    if m(t(4)) != {"n": 4}:
                        pt.append(f"marshaller(CVBound) did not marshal the instance: {m(t(4))!r}")
                else:
                    r = u({"item": "5"})
                    if type(r) is not t or r.item != 5 or type(r.item) is not int:
                        pt.append(f"unmarshaller({src}) did not convert the Final[bound/constrained TypeVar] field: {r!r}")
                    if m(t(5)) != {"item": 5}:
                        pt.append(f"marshaller({src}) did not marshal the instance: {m(t(5))!r}")
            except Exception as e:  # noqa: BLE001
                pt.append(f"qualified-TypeVar field probe raised {type(e).__name__}: {e}"[:160])
        if src in ("PlainNT", "PairNT"):
            try:
                r = u({"x": s, "y": "text"})
                if type(r) is not t or r.x is not s or r.y != "text":
                    pt.append(f"unmarshaller({src}) did not build the named tuple from its field names: {r!r}")
                w = m(t(s, "text"))
                if not (isinstance(w, dict) and w.get("x") is s and w.get("y") == "text"):
                    pt.append(f"marshaller({src}) did not yield the fields by name: {w!r}")
                if src == "PairNT":
                    r2 = u({"x": 1})
                    if r2 != t(1, 0):
                        pt.append(f"unmarshaller(PairNT)({{'x': 1}}) = {r2!r}, expected the default for y")
            except Exception as e:  # noqa: BLE001
                pt.append(f"hint-less named tuple probe raised {type(e).__name__}: {e}"[:160])
        # the parameters of a class without any annotation cannot be resolved: they are pass-through positions (whatever their defaults)
        if src == "NoHints":
            try:
                for probe in (s, "text", 2.5, [s]):
                    r = u({"a": probe})
                    if type(r) is not t or r.a is not probe:
                        pt.append(f"unmarshaller(NoHints)({{'a': {probe!r}}}).a is not its input: {getattr(r, 'a', r)!r}")
                    w = m(t(a=probe))
                    if not (isinstance(w, dict) and w.get("a") is probe):
                        pt.append(f"marshaller(NoHints)(NoHints(a={probe!r})) did not pass the attribute through: {w!r}")
            except Exception as e:  # noqa: BLE001
                pt.append(f"un-annotated parameter probe raised {type(e).__name__}: {e}"[:160])
        inner = job_inner(src)
        if inner in PASS:
            try:
                if src.startswith(("list[", "typing.List[", "typing.Sequence[")):
                    r = u([s, 1])
                    if not (r[0] is s and r[1] == 1):
                        pt.append(f"element at an unresolvable position was not passed through: {r!r}")
                if src.startswith(("dict[str,", "collections.abc.Mapping[str,")):
                    r = u({"k": s})
                    if r["k"] is not s:
                        pt.append(f"value at an unresolvable position was not passed through: {r!r}")
                if src.startswith("typing.Optional["):
                    if u(s) is not s or u(None) is not None:
                        pt.append("Optional[unresolvable] did not pass the value through")
            except Exception as e:  # noqa: BLE001
                pt.append(f"pass-through probe raised {type(e).__name__}: {e}"[:160])
        # the routines built are those of the annotation ASKED for (not those of one of its members): empty container / None at the root
        try:
            if src.startswith(("list[", "typing.List[")):
                got = (u([]), m([]))
                if got != ([], []):
                    pt.append(f"routines for {src} do not map the empty list to the empty list: {got!r}"[:200])
            elif src.startswith(("dict[", "typing.Dict[")):
                got = (u({}), m({}))
                if got != ({}, {}):
                    pt.append(f"routines for {src} do not map the empty dict to the empty dict: {got!r}"[:200])
            elif src.startswith("tuple[") and src.endswith(", ...]"):
                got = (u(()), m(()))
                if got != ((), []):
                    pt.append(f"routines for {src} do not map the empty tuple to the empty tuple / list: {got!r}"[:200])
            elif src.startswith("typing.Optional["):
                got = (u(None), m(None))
                if got != (None, None):
                    pt.append(f"routines for {src} do not map None to None: {got!r}"[:200])
        except Exception as e:  # noqa: BLE001
            pt.append(f"routines for {src} raised on the empty container / None at the root: {type(e).__name__}: {e}"[:200])
        o["passthrough"] = pt
        # repeatable: again, and after clearing every cache
        try:
            m2, u2, c2 = build()
            b2 = behave(u2, m2)
            cleared = 0
            import sys
            for name, mod in list(sys.modules.items()):
                if name == "typelib" or name.startswith("typelib."):
                    for obj in list(vars(mod).values()):
                        cc = getattr(obj, "cache_clear", None)
                        if callable(cc):
                            cc()
                            cleared += 1
            m3, u3, c3 = build()
            b3 = behave(u3, m3)
            o["repeat"] = "ok" if b1 == b2 == b3 else "behaviour changed after " + ("rebuild" if b1 != b2 else "cache_clear")
            o["cleared"] = cleared
        except Exception as e:  # noqa: BLE001
            o["repeat"] = f"rebuild raised {type(e).__name__}: {e}"[:160]
        out.append(o)
    return out


def job_inner(src):
    if "[" in src and src.endswith("]"):
        inner = src[src.index("[") + 1:-1]
        if inner.startswith("str, "):
            inner = inner[5:]
        if inner.endswith(", ..."):
            inner = inner[:-5]
        return inner
    return None


def explore(ctx):
    res = Result()
    res.rule = RULE
    anns = annotations(ctx)
    core.import_typelib()
    jobs = [anns[i:i + 12] for i in range(0, len(anns), 12)]
    outs = iso.map_isolated(child, jobs, timeout=120)
    # a batch that stopped at a construction which did not terminate: the annotations after it are judged alone
    cut = [(bi, job[len(out):]) for bi, (job, out) in enumerate(zip(jobs, outs)) if isinstance(out, list) and len(out) < len(job)]
    if cut:
        flat = [(bi, src) for bi, rest in cut for src in rest]
        for (bi, src), out in zip(flat, iso.map_isolated(child, [[src] for _, src in flat], timeout=60)):
            outs[bi] = outs[bi] + (out if isinstance(out, list) and out else
                                   [{"src": src, "construct": f"killed the interpreter: {out.get('crash') if isinstance(out, dict) else out}"}])
    # a repeatability failure inside a batch may be cross-talk between ==-equal annotations of the batch (Union[str, int] next to
    # Union[int, str]: the caches are keyed by ==, finding unionOrderKey of C05/C12): the annotation is judged again alone
    redo = [o["src"] for out in outs if isinstance(out, list) for o in out
            if o.get("construct") == "ok" and not o.get("passthrough") and o.get("repeat") != "ok"]
    alone = {}
    if redo:
        for src, out in zip(redo, iso.map_isolated(child, [[src] for src in redo], timeout=120)):
            if isinstance(out, list):
                alone[src] = out[0]
                res.count("rejudged-alone")
    for job, out in zip(jobs, outs):
        if isinstance(out, list):
            out = [alone.get(o["src"], o) if o.get("repeat") != "ok" else o for o in out]
        if isinstance(out, dict) and "crash" in out:
            # a child that died (e.g. stack overflow) is itself a finding about one of its annotations
            for src in job:
                res.failures.append({"what": f"constructing routines killed the interpreter: {out['crash']}", "input": {"ann": src}})
            continue
        for o in out:
            if "skip" in o:
                res.count("skipped-illegal-expression")
                continue
            res.case({"ann": o["src"]}, "[" in o["src"])
            res.programs += 1
            inp = {"ann": o["src"]}
            if o["construct"] != "ok":
                res.failures.append({"what": f"construction failed: {o['construct']}", "input": inp,
                                     **({"finding": KNOWN[o["src"]]} if o["src"] in KNOWN else {})})
                continue
            if o["passthrough"]:
                res.failures.append({"what": "; ".join(o["passthrough"][:3]), "input": inp})
            elif o.get("repeat") != "ok":
                res.failures.append({"what": f"construction is not repeatable: {o.get('repeat')}", "input": inp})
            else:
                res.count("certified")
    res.extra["exhaustive_to_depth"] = 2 if ctx.tier == "thorough" else 1
    return res


def witness(fid):
    if fid == "emptyTupleAnnotation":
        core.import_typelib()
        import typelib
        try:
            typelib.unmarshaller(tuple[()])
            return False
        except Exception:  # noqa: BLE001
            return True
    return None


def replay(failure):
    core.import_typelib()
    out = iso.map_isolated(child, [[failure["input"]["ann"]]])[0]
    print(json.dumps(out, indent=1)[:2000])
    o = out[0]
    return o.get("construct") != "ok" or bool(o.get("passthrough")) or o.get("repeat") != "ok"
