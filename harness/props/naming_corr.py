"""How typelib names a type by a forward reference and finds it again: real code <-> Lean model (Model/Naming.lean).

Run with C16 (`naming_correspondence(res)` at the end of c16.explore; theorems in Props/Naming.lean).

Forked children synthesise PROGRAMS — one or two modules (`types.ModuleType` registered in `sys.modules`, source compiled
with `dont_inherit=True`), plus bindings injected afterwards (an import of a class into the other module) — from

  class trees   for a module called M = H....T (`vmnm`: H = T; `vmnm_pk.sub`): a top-level class named A | Item | H | T | MyT
      x its nested classes: none | one of B, Item, T, H, MyT, A | two of them
      x a class nested in the first of those: none | C | Item | T | B
      x a second top-level class: none | one with the short name of each nested class | B
    (so: nesting one and two levels deep, an outer class named like its module, like the head / tail of a dotted module name,
    ENDING with the module's name (`Myvmnm`), the module's name behind a dot (`A.vmnm.C`); a top-level class shadowing the
    short name of a nested one); every fifth tree of `vmnm`
    is also executed in a second module `vmnm_b` (same-named classes in two modules, a class named like the OTHER module),
    which imports the first top-level class of `vmnm` under another name;
  function-local classes   `def fn(): class loc: class M` with fn = f | T | H | MyT (a function named like the module, or with
      a name ending with the module's name) and
      loc = L | B, the class kept nowhere in a namespace | under its own short name | under another name; a class local to a
      static method, to a method, to a function local to a function;
  NewTypes and TypeAliasTypes   typing.NewType / typing_extensions.TypeAliasType / typing.TypeAliasType / the `type`
      statement, declared name = bound name | another name | the name of an existing class | the module's name | a dotted
      name `A.B` | `M.A`, at module level and in a class body, with and without a class named like the module;
  namespaces Python does NOT guarantee (`expect_wf` false): a class deleted from where its statement put it, a second
      class statement with the same name, the function of a local class replaced by a class holding it.

For every program the namespace is read with plain Python introspection (`vars()` of the modules and classes, `__name__`,
`__qualname__`, `__module__`, identity) and sent to the Lean driver; for EVERY object of it (classes, functions, NewTypes,
aliases) the real

   (i)   `refs.forwardref(obj)` — text and module — and `inspection.qualname(obj)` / `inspection.name(obj)`
   (ii)  `refs.evaluate(<that reference>)` — the identity of what comes back, or the exception class
   (iii) `refs.forwardref(text, module=m)` and its evaluation for the texts: every binding path of the modules up to depth 3,
         the (locals-free) qualified name of every object, each bare and prefixed with `m.`, a missing name, a missing attribute
   (iv)  the same reference for texts naming SEVERAL module-qualified classes (`m.P | m.A.B`, `dict[str, m.P]`,
         `typing.Optional[m.P]`, `P | m.A.B`, `list[m.P]|m.A.B` over the class paths of the module): the text of the reference
         against `forwardrefOfText`, its evaluation against Python's own `eval` of the expression without the qualifiers

are compared with `forwardrefOfClass` / `qualnameOf` / `nameOf`, `evaluateRef`, `forwardrefOfText`; and the description of
every program Python guarantees must satisfy the theorems' hypothesis `wf`.

Direct oracle (independent of the model; the statement of C16 on these keys): for every class made by a class statement
outside a function that is bound at its own qualified name (checked with getattr), a fresh `TypeContext` holding a value under
`typing.ForwardRef(cls.__qualname__, module=cls.__module__)` — the reference NAMING the class, built without typelib —
finds it under the class itself (`ctx[cls]`, `ctx.get(cls)`).  A miss is a failure of the property (`res.failures`).
"""
from __future__ import annotations

import json

from .. import core, iso, lean

PLAIN, SECOND, DOTTED, FMOD = "vmnm", "vmnm_b", "vmnm_pk.sub", "vmf"
PRELUDE = "import typing, typing_extensions\nKEEP = []\n"


def _uniq(xs):
    out = []
    for x in xs:
        if x not in out:
            out.append(x)
    return out


def _names(mod):
    comps = mod.split(".")
    return comps[0], comps[-1], "My" + comps[-1]


# --------------------------------------------------------------------------- programs

def _render(tree, ind=0):
    out = []
    for name, kids in tree:
        out.append(" " * ind + f"class {name}:")
        if kids:
            out += _render(kids, ind + 4)
        else:
            out.append(" " * (ind + 4) + "pass")
    return out


def tree_programs(mod):
    head, tail, xtail = _names(mod)
    p0 = _uniq(["A", "Item", head, tail, xtail])
    p1 = _uniq(["B", "Item", tail, head, xtail, "A"])
    p2 = _uniq(["C", "Item", tail, "B"])
    kid_sets = [[]] + [[k] for k in p1] + [["B", "Item"], [tail, "B"], [head, tail] if head != tail else [tail, "Item"]]
    n = 0
    for t1 in p0:
        for kids in kid_sets:
            for gk in ([None] + p2) if kids else [None]:
                nested = kids + ([gk] if gk else [])
                for t2 in [None] + _uniq(x for x in nested + ["B"] if x != t1):
                    tree = [(t1, [(k, [(gk, [])] if (gk and i == 0) else []) for i, k in enumerate(kids)])]
                    if t2:
                        tree.append((t2, []))
                    src = PRELUDE + "\n".join(_render(tree)) + "\n"
                    prog = {"family": "class-tree", "modules": [[mod, src]], "post": [], "expect_wf": True}
                    if mod == PLAIN and n % 5 == 0:
                        prog["modules"].append([SECOND, src])
                        prog["post"].append([SECOND, "K", PLAIN, t1])
                    n += 1
                    yield prog


LOCALS_SRC = PRELUDE + '''
class A:
    class B:
        pass
    @staticmethod
    def g():
        class L:
            class M:
                pass
        return L
    def h(self):
        class L:
            pass
        return L
def {fn}():
    class {loc}:
        class M:
            pass
    def inner():
        class Deep:
            pass
        return Deep
    return {loc}, inner()
_made = {fn}()
KEEP += [A.g(), A().h(), _made[1]]
{keep}
del _made
'''
KEEP_MODES = {"none": "KEEP.append(_made[0])", "own": "{loc} = _made[0]", "other": "Q = _made[0]"}


def locals_programs(mod):
    head, tail, mytail = _names(mod)
    for fn in _uniq(["f", tail, head, mytail]):
        for loc in ("L", "B"):
            for mode, keep in KEEP_MODES.items():
                src = LOCALS_SRC.format(fn=fn, loc=loc, keep=keep.format(loc=loc))
                yield {"family": f"function-local:{mode}", "modules": [[mod, src]], "post": [], "expect_wf": True}


CTORS = ["typing.NewType({d!r}, int)", "typing_extensions.TypeAliasType({d!r}, int)", "typing.TypeAliasType({d!r}, int)"]


def alias_programs(mod):
    head, tail, _ = _names(mod)
    for in_class in (False, True):
        for with_modclass in (False, True):
            body = []
            for ci, ctor in enumerate(CTORS):
                pairs = [(f"Own{ci}", f"Own{ci}"), ("RenamedId", f"RenamedRef{ci}"), ("A", f"S{ci}"), (tail, f"W{ci}"),
                         ("A.B", f"Dotted{ci}"), (mod + ".A", f"Q{ci}"), (mod + "." + tail, f"P{ci}")]
                body += [f"{b} = {ctor.format(d=d)}" for d, b in pairs]
            body.append("type Al = int")
            ind = "    " if in_class else ""
            src = PRELUDE + "class A:\n    class B:\n        pass\n"
            if with_modclass:
                src += f"class {tail}:\n    class A:\n        pass\n"
            if in_class:
                src += "class Holder:\n"
            src += "".join(ind + line + "\n" for line in body)
            yield {"family": "alias:" + ("class-body" if in_class else "module-level"), "modules": [[mod, src]], "post": [],
                   "expect_wf": True}


UNGUARANTEED = [
    ("class-deleted", "class A:\n    class B:\n        pass\nZ = A\ndel A\n"),
    ("class-statement-twice", "class A:\n    class B:\n        pass\nA2 = A\nclass A:\n    pass\n"),
    ("function-replaced-by-class", "def f():\n    class L:\n        pass\n    return L\nL0 = f()\nclass f:\n    L = L0\n"),
]


def unguaranteed_programs(mod):
    for fam, body in UNGUARANTEED:
        yield {"family": "unguaranteed:" + fam, "modules": [[mod, PRELUDE + body]], "post": [], "expect_wf": False}


def programs():
    out = []
    for mod in (PLAIN, DOTTED):
        out += list(tree_programs(mod))
    for mod in (PLAIN, DOTTED, FMOD):
        out += list(locals_programs(mod)) + list(alias_programs(mod)) + list(unguaranteed_programs(mod))
    return out


# --------------------------------------------------------------------------- child: build, describe, observe

def _build(prog):
    import sys
    import types
    mods = []
    for name, src in prog["modules"]:
        m = types.ModuleType(name)
        sys.modules[name] = m
        # (dont_inherit: code compiled by exec() would otherwise inherit this module's own `from __future__ import annotations`)
        exec(compile(src, name, "exec", dont_inherit=True), m.__dict__)
        mods.append(m)
    for dst, name, srcmod, attr in prog["post"]:
        setattr(sys.modules[dst], name, getattr(sys.modules[srcmod], attr))
    return mods


def describe(mods):
    """The namespace as the model's NS, from Python's own introspection; returns (ns, objects by identity number)."""
    import types
    import typing
    import typing_extensions
    ours = {m.__name__ for m in mods}
    alias_types = tuple({typing.NewType, typing.TypeAliasType, typing_extensions.TypeAliasType})
    ids, objs, binds, by_id = {}, [], [], {}

    def kind(v):
        if isinstance(v, type):
            return "cls"
        if isinstance(v, types.FunctionType):
            return "func"
        if isinstance(v, alias_types):
            return "alias"
        return None

    def add(v):
        k = kind(v)
        if k is None or getattr(v, "__module__", None) not in ours:
            return None
        if id(v) in ids:
            return ids[id(v)]
        n = len(objs) + 1
        ids[id(v)] = n
        by_id[n] = v
        q = getattr(v, "__qualname__", None)
        objs.append({"id": n, "kind": k, "name": v.__name__, "qual": q.split(".") if isinstance(q, str) else None,
                     "module": v.__module__})
        if k == "cls":
            for nm in list(vars(v)):
                if nm.startswith("__") and nm.endswith("__"):
                    continue
                t = add(getattr(v, nm))
                if t is not None:
                    binds.append({"obj": n, "name": nm, "target": t})
        return n

    for m in mods:
        for nm, v in list(vars(m).items()):
            if nm.startswith("__") or nm == "KEEP":
                continue
            t = add(v)
            if t is not None:
                binds.append({"mod": m.__name__, "name": nm, "target": t})
    for m in mods:
        for v in vars(m).get("KEEP", []):
            add(v)
    return {"objs": objs, "binds": binds}, by_id, ids


def _paths(ns, mod, depth=3, targets=False):
    out, frontier = [], [([b["name"]], b["target"]) for b in ns["binds"] if b.get("mod") == mod]
    for _ in range(depth):
        nxt = []
        for p, t in frontier:
            out.append((".".join(p), t) if targets else ".".join(p))
            nxt += [(p + [b["name"]], b["target"]) for b in ns["binds"] if b.get("obj") == t]
        frontier = nxt
    return out


EXPR_TEMPLATES = ["{a} | {b}", "dict[str, {a}]", "typing.Optional[{a}]", "{bare} | {b}", "list[{a}]|{b}"]


def exprs_of(ns, mods):
    """[(text, module, the same expression without module qualifiers)]: texts naming several module-qualified classes."""
    classes = {o["id"] for o in ns["objs"] if o["kind"] == "cls"}
    out = []
    for m in mods:
        ps = [p for p, t in _paths(ns, m, targets=True) if t in classes]
        # deepest paths first: they are the ones with enclosing classes named like / ending with the module's name
        ps = sorted(_uniq(ps), key=lambda p: -p.count("."))[:5]
        for i, p1 in enumerate(ps):
            p2 = ps[(i + 1) % len(ps)]
            for tpl in EXPR_TEMPLATES:
                if "{bare}" in tpl and p1.startswith(m + "."):
                    continue   # a bare text starting with the module's name is read as module-qualified (item 27)
                out.append([tpl.format(a=f"{m}.{p1}", b=f"{m}.{p2}", bare=p1), m, tpl.format(a=p1, b=p2, bare=p1)])
    return out


def texts_of(ns, mods):
    out = []
    for m in mods:
        ps = _paths(ns, m)[:40]
        cand = ps + ["Nope"] + ([ps[0] + ".Nope"] if ps else [])
        for o in ns["objs"]:
            if o["module"] == m:
                cand.append(".".join(s for s in (o["qual"] or [o["name"]]) if s != "<locals>"))
        for t in _uniq(cand):
            out += [[t, m], [m + "." + t, m]]
    return out[:240]


def _evaluated(refs, r, ids):
    try:
        got = refs.evaluate(r)
    except Exception as e:  # noqa: BLE001
        return {"err": type(e).__name__}
    n = ids.get(id(got))
    return {"id": n} if n is not None else {"foreign": repr(got)[:80]}


def _ref(fn):
    try:
        r = fn()
    except Exception as e:  # noqa: BLE001
        return None, {"err": type(e).__name__}
    return r, {"text": r.__forward_arg__, "module": r.__forward_module__}


def _safe(fn):
    try:
        return fn()
    except Exception as e:  # noqa: BLE001
        return {"err": type(e).__name__}


def _bound_at_own(v):
    import sys
    cur = sys.modules.get(v.__module__)
    for seg in v.__qualname__.split("."):
        cur = getattr(cur, seg, None)
    return cur is v


def _oracle(v):
    """C16 on this key: a value stored under the reference naming the class is found under the class."""
    import typing
    from typelib import ctx as tctx
    out = {}
    for how in ("[]", "get"):
        c = tctx.TypeContext()
        c[typing.ForwardRef(v.__qualname__, module=v.__module__, is_class=True)] = 7
        try:
            got = c[v] if how == "[]" else c.get(v, "default")
        except Exception as e:  # noqa: BLE001
            got = type(e).__name__
        out[how] = got
    return out


def observe_program(prog):
    from typelib.py import inspection, refs
    mods = _build(prog)
    ns, by_id, ids = describe(mods)
    objs = []
    for n, v in by_id.items():
        o = {"id": n, "qualname": _safe(lambda: inspection.qualname(v)), "name": _safe(lambda: inspection.name(v))}
        r, o["ref"] = _ref(lambda: refs.forwardref(v))
        o["eval"] = _evaluated(refs, r, ids) if r is not None else None
        if isinstance(v, type) and "<locals>" not in v.__qualname__ and prog["expect_wf"] and _bound_at_own(v):
            o["oracle"] = _oracle(v)
        objs.append(o)
    texts = []
    for t, m in texts_of(ns, [name for name, _ in prog["modules"]]):
        r, shown = _ref(lambda: refs.forwardref(t, module=m))
        texts.append({"text": t, "module": m, "ref": shown, "eval": _evaluated(refs, r, ids) if r is not None else None})
    import sys
    exprs = []
    for t, m, plain in exprs_of(ns, [name for name, _ in prog["modules"]]):
        r, shown = _ref(lambda: refs.forwardref(t, module=m))
        want = _safe(lambda: eval(plain, dict(vars(sys.modules[m]))))
        if r is None:
            same = False
        else:
            try:
                same = bool(refs.evaluate(r) == want)
            except Exception as e:  # noqa: BLE001
                same = type(e).__name__
        exprs.append({"text": t, "module": m, "plain": plain, "ref": shown, "eval_is_python_eval": same,
                      "python_eval": repr(want)[:120]})
    return {"ns": ns, "objs": objs, "texts": texts, "exprs": exprs}


def _child(batch):
    import warnings
    warnings.simplefilter("ignore")
    return [observe_program(p) for p in batch]


# --------------------------------------------------------------------------- parent: ask the model, compare

def _model_outcome(m):
    """(reference, evaluation) of a driver answer in the shape of the real observation."""
    ev = {"id": m["resolves_to"]} if m["err"] is None else {"err": m["err"]}
    return m["ref"], ev


def _agree(real_ref, real_ev, m):
    ref, ev = _model_outcome(m)
    if "err" in real_ref:
        # the ForwardRef constructor compiles the text: a text that is no expression is refused there already
        return real_ref["err"] == "SyntaxError" and ev == {"err": "SyntaxError"}
    return real_ref == ref and real_ev == ev


def observe(progs=None, nproc=8):
    core.import_typelib()   # (the zygote: children are forked from a process that has imported the library under test)
    progs = programs() if progs is None else progs
    batches = [progs[i::nproc] for i in range(nproc) if progs[i::nproc]]
    parts = iso.map_isolated(_child, batches, timeout=300.0)
    seen = [None] * len(progs)
    for bi, part in enumerate(parts):
        if not isinstance(part, list):
            raise RuntimeError(f"harness: naming child failed: {part}")
        for j, o in zip(range(bi, len(progs), len(batches)), part):
            seen[j] = o
    ops = []
    for o in seen:
        ops.append({"op": "naming.ref", "ns": o["ns"], "classes": [x["id"] for x in o["objs"]]})
        ops.append({"op": "naming.text", "ns": o["ns"], "texts": [[t["text"], t["module"]] for t in o["texts"] + o["exprs"]]})
    model = lean.drive(ops) if ops else []
    for m in model:
        if "bad" in m:
            raise RuntimeError(f"harness: driver rejected a namespace: {m}")
    return progs, seen, model[0::2], model[1::2]


def naming_correspondence(res):
    progs, seen, mrefs, mtexts = observe()
    res.count("naming:programs", len(progs))
    for prog, o, mr, mt in zip(progs, seen, mrefs, mtexts):
        layout = {"modules": prog["modules"], "post": prog["post"], "expect_wf": prog["expect_wf"], "family": prog["family"]}
        res.count("naming:family:" + prog["family"].split(":")[0])
        if mr["wf"] != prog["expect_wf"]:
            res.count("naming:wf:DISAGREE")
            res.disagreements.append({"what": "naming: the description of a namespace Python guarantees violates the hypothesis `wf` of "
                                              "Props/Naming.lean (or one it does not guarantee satisfies it)",
                                      "input": {"family": "naming-corr", "naming_layout": layout, "ns": o["ns"]},
                                      "real": {"expect_wf": prog["expect_wf"]}, "model": {"wf": mr["wf"]}})
        desc = {x["id"]: x for x in o["ns"]["objs"]}
        for obj, m in zip(o["objs"], mr["results"]):
            d = desc[obj["id"]]
            shown = ".".join(d["qual"] or [d["name"]])
            brief = {"family": "naming-corr", "naming_layout": layout, "object": shown, "kind": d["kind"], "module": d["module"]}
            res.case(brief, True)
            ok = (_agree(obj["ref"], obj["eval"], m) and obj["qualname"] == m["qualname"] and obj["name"] == m["name"])
            if ok:
                res.count("naming:ref:ok:" + ("found" if obj["eval"] == {"id": obj["id"]} else
                                              "other-object" if obj["eval"] and "id" in obj["eval"] else
                                              (obj["eval"] or obj["ref"]).get("err", "?")))
                if m["prefix_fix"]:
                    res.count("naming:ref:c0135c0-matters")
                for k, mm in m["mutants"].items():
                    if (mm["ref"], mm["resolves_to"], mm["err"]) != (m["ref"], m["resolves_to"], m["err"]):
                        res.count("naming:ref:mutant-would-differ:" + k)
            else:
                res.count("naming:ref:DISAGREE")
                res.disagreements.append({
                    "what": "naming: refs.forwardref(obj) / inspection.qualname / name / refs.evaluate differ from forwardrefOfClass / "
                            "qualnameOf / nameOf / evaluateRef of the namespace's description",
                    "input": {**brief, "id": obj["id"], "ns": o["ns"]},
                    "real": {k: obj[k] for k in ("ref", "eval", "qualname", "name")},
                    "model": {"ref": m["ref"], "eval": _model_outcome(m)[1], "qualname": m["qualname"], "name": m["name"]}})
            orc = obj.get("oracle")
            if orc is not None:
                res.count("naming:oracle:classes")
                if orc != {"[]": 7, "get": 7}:
                    res.count("naming:oracle:FAIL")
                    res.failures.append({
                        "what": "TypeContext does not find, under a class, the value stored under the forward reference naming it "
                                f"(typing.ForwardRef({shown!r}, module={d['module']!r})): ctx[cls] / ctx.get(cls, 'default') = {orc}",
                        "input": {**brief, "refs.forwardref(cls)": obj["ref"]}})
        for t, m in zip(o["exprs"], mt["results"][len(o["texts"]):]):
            brief = {"family": "naming-corr", "naming_layout": layout, "text": t["text"], "module": t["module"]}
            res.case(brief, True)
            if m["pre_befc63c"]["ref"] != m["ref"]:
                res.count("naming:expr:befc63c-matters")
            if t["ref"] == m["ref"] and t["eval_is_python_eval"] is True:
                res.count("naming:expr:ok")
            else:
                res.count("naming:expr:DISAGREE")
                res.disagreements.append({
                    "what": "naming: the reference made from a text naming several module-qualified classes differs from forwardrefOfText, "
                            "or its evaluation is not what Python's eval makes of the expression without the qualifiers",
                    "input": {**brief, "ns": o["ns"]},
                    "real": {"ref": t["ref"], "refs.evaluate(ref) == eval(plain)": t["eval_is_python_eval"]},
                    "model": {"ref": m["ref"], "plain": t["plain"], "python_eval": t["python_eval"]}})
        for t, m in zip(o["texts"], mt["results"]):
            brief = {"family": "naming-corr", "naming_layout": layout, "text": t["text"], "module": t["module"]}
            res.case(brief, True)
            if _agree(t["ref"], t["eval"], m):
                res.count("naming:text:ok:" + ("found" if t["eval"] and "id" in t["eval"] else (t["eval"] or t["ref"]).get("err", "?")))
                if m["prefixed"]:
                    res.count("naming:text:starts-with-module-name")
                if (m["pre_befc63c"]["ref"], m["pre_befc63c"]["resolves_to"]) != (m["ref"], m["resolves_to"]):
                    res.count("naming:text:befc63c-matters")
            else:
                res.count("naming:text:DISAGREE")
                res.disagreements.append({
                    "what": "naming: refs.forwardref(text, module=m) / refs.evaluate differ from forwardrefOfText / evaluateRef",
                    "input": {**brief, "ns": o["ns"]}, "real": {"ref": t["ref"], "eval": t["eval"]},
                    "model": {"ref": m["ref"], "eval": _model_outcome(m)[1]}})
    return res


def naming_replay(failure):
    """Re-run the direct oracle on the layout of a recorded failure; True when it still fails."""
    lay = failure["input"]["naming_layout"]
    core.import_typelib()
    prog = {"family": lay.get("family", "?"), "modules": lay["modules"], "post": lay["post"], "expect_wf": lay["expect_wf"]}
    out = iso.map_isolated(_child, [[prog]], nproc=1, timeout=120.0)[0]
    if not isinstance(out, list):
        raise RuntimeError(f"harness: naming child failed: {out}")
    desc = {x["id"]: x for x in out[0]["ns"]["objs"]}
    bad = [{"class": ".".join(desc[o["id"]]["qual"]), "module": desc[o["id"]]["module"], "refs.forwardref(cls)": o["ref"],
            "ctx[cls] / ctx.get(cls) with the value 7 stored under ForwardRef(__qualname__, module=__module__)": o["oracle"]}
           for o in out[0]["objs"] if o.get("oracle") not in (None, {"[]": 7, "get": 7})]
    print(json.dumps({"layout": lay["modules"], "classes not found under the reference naming them": bad}, indent=1)[:4000])
    return bool(bad)


if __name__ == "__main__":   # python -m harness.props.naming_corr : print the comparison (development aid)
    from ..runner import Result
    r = naming_correspondence(Result())
    print(json.dumps({"evaluations": r.evaluations, "distinct": len(r.keys), "stats": r.stats,
                      "disagreements": len(r.disagreements), "first_disagreements": r.disagreements[:3],
                      "failures": len(r.failures), "first_failures": r.failures[:2]}, indent=1, default=str)[:9000])
