"""C01 — Unmarshalling a marshalled value restores the value."""
from __future__ import annotations

import json

from .. import core, enc, universe
from ..runner import Result

ID = "C01"
LEVEL = "proof"
LEVEL_TEXT = ("Kernel-checked theorem C01.roundtrip: for every class environment, annotation of U with Optional-only unions, valid value of any size/depth and leaf conversions satisfying LeafLaws, unmarshal(T, marshal(v)) = v (structural equality: classes and UTC offsets included); unconditional on the core scalars and on enums with bool/int/str values whose class environment passes the decidable check `enumWF` (roundtrip_core; Lemmas/EnumRT.lean: each member's value, read as the enum routine reads it, meets that member first — equivalent to the enum leaf law on primitive-valued enums, `enumWF_iff_enumRT`); without it the round trip is refuted at `A = 1; B = \"1\"` (roundtrip_false_for_shadowed_member, known finding enumValueShadow). Multi-member unions: negation proved at a witness, recorded as known findings. Model tied to /repo by a per-run differential correspondence (marshal and unmarshal outputs, forked children) and the dispatch-table adequacy `decide`; the property itself is also evaluated directly on the real library.")
LEVEL_NOTE = ("Trusted: Lean kernel; axioms propext, Classical.choice, Quot.sound; the hand-written model (tied by correspondence, not verified); harness encoders/generators; LeafLaws hypothesis for Decimal/Fraction/UUID/path/pattern/temporal leaves (CPython/pendulum printers and parsers).")
TECHNIQUE = "Lean 4 proof by induction on value depth over an executable model; regenerated dispatch tables re-decided; differential correspondence + direct round-trip oracle"
DESIGN_REF = "DESIGN.md §5 C01"
MODULES = ["TypelibModel.Props.C01", "TypelibModel.Props.Dispatch"]
TABLES = True
RULE = ("type-directed generation: synthesised module sets (0-3 structured classes of every flavour, 0-2 enums, "
        "recursive fields, nested classes, shared names) x annotations of U (depth<=3/4) x valid values with boundary bias; "
        "each program runs in its own fork of an import-only zygote; a case is non-trivial when its annotation is composite "
        "or its value is not a default; distinct = distinct (annotation, value) encodings")
ASSUMPTIONS = [
    "LeafLaws for scalars outside the core {int,bool,float,str}: Decimal/Fraction/UUID/PurePath/re/temporal printers and "
    "parsers of CPython and pendulum round-trip (named hypothesis of the theorem; exercised by the correspondence)",
    "sets are compared up to order and duplicates; dict key collisions under == are excluded by the generator",
]
TRUSTED = ["harness/enc.py + harness/universe.py (Python<->Lean encodings, generators)", "lean/TypelibModel/Drv/*.lean (driver glue)",
           "hand-written model Model/{Serdes,Denote,Leaf,Temporal,Text}.lean tied to the code by this correspondence"]


def optional_only(ts):
    body = [x for x in ts if not isinstance(x, dict)]
    tag = body[0]
    if tag == "union":
        non_none = [m for m in body[1] if m[0] != "none"]
        return len(non_none) == 1 and len(non_none) < len(body[1]) and optional_only(non_none[0])
    if tag == "coll":
        return optional_only(body[2])
    if tag == "tuple":
        return all(optional_only(e) for e in body[1])
    if tag == "dict":
        return optional_only(body[1]) and optional_only(body[2])
    if tag == "wrap":
        return optional_only(body[2])
    if tag == "any":
        return False
    return True


def type_optional_only(ts, prog, seen=None):
    """optional_only including the fields of every class reachable from ts."""
    seen = set() if seen is None else seen
    if not optional_only(ts):
        return False
    for cid in reachable_classes(ts, prog):
        if cid in seen:
            continue
        seen.add(cid)
        for _, ft in prog["classes"][cid]["fields"]:
            if not type_optional_only(ft, prog, seen):
                return False
    return True


def reachable_classes(ts, prog):
    body = [x for x in ts if not isinstance(x, dict)]
    tag = body[0]
    if tag == "cls":
        return [body[1]]
    if tag == "coll":
        return reachable_classes(body[2], prog)
    if tag in ("tuple", "union"):
        return [c for e in body[1] for c in reachable_classes(e, prog)]
    if tag == "dict":
        return reachable_classes(body[1], prog) + reachable_classes(body[2], prog)
    if tag == "wrap":
        return reachable_classes(body[2], prog)
    return []


def enum_ambiguous(prog):
    """An enum whose wire value is (or decodes to) another member's value cannot round-trip by design of
    by-value lookup; the theorem's `enumRT` hypothesis excludes it and so does the oracle."""
    for c in prog["classes"]:
        if c["kind"] != "enum":
            continue
        vals = [v for _, v in c["members"]]
        for v in vals:
            if isinstance(v, str):
                try:
                    d = json.loads(v)
                except ValueError:
                    continue
                if any((d == w and type(d) is type(w)) for w in vals if w is not v) or d is None:
                    return True
        if any(v is None for v in vals):
            return True
    return False


def make_jobs(ctx, n_prog, depth, unions):
    jobs = []
    for i in range(n_prog):
        g = universe.Gen(ctx.rng, universe.Cfg(max_depth=depth, unions=unions))
        prog = g.program(tag=f"c01_{i}")
        ops = []
        for _ in range(3):
            ts = g.ty(depth)
            for _ in range(3):
                ops.append({"op": "rt", "ty": ts, "val": g.value(ts, budget=depth)})
        jobs.append({"prog": prog, "ops": ops})
    return jobs


# ---- structured classes that INHERIT fields (the class generator has no inheritance): every flavour of slots x base
INHERIT_SRC = """
import dataclasses, datetime, typing
from typelib.py import classes
@dataclasses.dataclass(slots=True)
class SBase:
    id: int
    name: str
@dataclasses.dataclass(slots=True)
class SChild(SBase):
    tags: typing.List[str]
    note: str = "n"
@dataclasses.dataclass
class PBase:
    id: int = 0
@dataclasses.dataclass(slots=True)
class DefChild(PBase):
    label: str = "x"
@dataclasses.dataclass
class PChild(PBase):
    label: str = "x"
@dataclasses.dataclass(slots=True)
class GrandChild(SChild):
    extra: typing.Optional[int] = None
@classes.slotted
@dataclasses.dataclass
class LibBase:
    a: int
@classes.slotted
@dataclasses.dataclass
class LibChild(LibBase):
    b: str = "b"
class HBase:
    __slots__ = ("a",)
    a: int
    def __init__(self, a):
        self.a = a
    def __eq__(self, o):
        return type(o) is type(self) and all(getattr(o, s) == getattr(self, s) for s in ("a", "b") if hasattr(self, s))
class HChild(HBase):
    __slots__ = ("b",)
    b: str
    def __init__(self, a, b):
        super().__init__(a)
        self.b = b
class ABase:
    a: int
    def __init__(self, a):
        self.a = a
    def __eq__(self, o):
        return type(o) is type(self) and vars(o) == vars(self)
class AChild(ABase):
    b: str
    def __init__(self, a, b="q"):
        super().__init__(a)
        self.b = b
class NBase(typing.NamedTuple):
    a: int
    b: str = "b"
# named tuples whose FIRST field holds a 2-element value (they must not be read as an iterable of pairs)
class Tag(typing.NamedTuple):
    ns: str
    name: str = ""
class Span(typing.NamedTuple):
    bounds: typing.Tuple[int, int]
    label: str
class Country(typing.NamedTuple):
    code: str
    population: int
# a structured class with a convenience method called items() (a view over one of its fields): still read by its FIELDS
@dataclasses.dataclass
class Inventory:
    owner: str = "nobody"
    stock: typing.Dict[str, int] = dataclasses.field(default_factory=dict)
    def items(self):
        return self.stock.items()
    def keys(self):
        return self.stock.keys()
@dataclasses.dataclass
class Ledger:
    owner: str
    entries: typing.Dict[str, str]
    def items(self):
        return self.entries.items()
# annotated classes whose constructor collects (some of) the fields through **kwargs
class KwItem:
    name: str
    tags: typing.List[str]
    note: typing.Optional[str]
    def __init__(self, **kwargs):
        self.__dict__.update(kwargs)
    def __eq__(self, o):
        return type(o) is type(self) and vars(o) == vars(self)
    def __repr__(self):
        return f"KwItem({vars(self)})"
class KwTagged:
    key: str
    note: typing.Optional[str]
    qty: int
    def __init__(self, key, **extra):
        self.key = key
        self.__dict__.update(extra)
    def __eq__(self, o):
        return type(o) is type(self) and vars(o) == vars(self)
    def __repr__(self):
        return f"KwTagged({vars(self)})"
class _Init:
    def __eq__(self, o):
        return type(o) is type(self) and self._vals() == o._vals()
    def _vals(self):
        return [(n, type(getattr(self, n)).__name__, getattr(self, n)) for n in self.NAMES]
    def __repr__(self):
        return f"{type(self).__name__}({self._vals()})"
class Window(_Init):
    NAMES = ("ident", "start", "span")
    def __init__(self, ident: int, *, start: datetime.date = datetime.date(1, 1, 1), span: datetime.timedelta = datetime.timedelta(0)):
        self.ident, self.start, self.span = ident, start, span
class SlotWindow(_Init):
    __slots__ = NAMES = ("ident", "tags", "day")
    def __init__(self, ident: int, *, tags: typing.FrozenSet[str], day: typing.Optional[datetime.date] = None):
        self.ident, self.tags, self.day = ident, tags, day
PT = typing.TypeVar("PT")
class Page(_Init, typing.Generic[PT]):
    NAMES = ("ids", "total", "day", "cursor")
    def __init__(self, ids: typing.List[int], total: int, day: datetime.date, cursor: typing.Optional[str] = None):
        self.ids, self.total, self.day, self.cursor = ids, total, day, cursor
"""
INHERIT_CASES = [("SChild", "SChild(7, 'n', ['a', 'b'], 'hello')"), ("DefChild", "DefChild(41, 'x')"), ("PChild", "PChild(5, 'five')"),
                 ("GrandChild", "GrandChild(1, 'g', [], 'n', 3)"), ("LibChild", "LibChild(2, 'two')"), ("HChild", "HChild(3, 'three')"),
                 ("AChild", "AChild(4, 'four')"), ("list[SChild]", "[SChild(1, 'a', ['t'])]"), ("dict[str, DefChild]", "{'k': DefChild(5, 'five')}"),
                 ("typing.Optional[HChild]", "HChild(9, 'nine')"), ("tuple[AChild, LibChild]", "(AChild(1), LibChild(2))"),
                 ("Tag", "Tag('py', 'ok')"), ("Span", "Span((1, 2), 'ab')"), ("Span", "Span((1, 2), 'intro')"), ("Country", "Country('US', 331)"),
                 ("list[Country]", "[Country('FRA', 68), Country('DE', 84)]"), ("dict[str, Tag]", "{'k': Tag('ab', 'cd')}"), ("NBase", "NBase(1, 'b')"),
                 ("KwItem", "KwItem(name='1', tags=['null', '[1]'], note=None)"), ("KwTagged", "KwTagged('k', note='null', qty=2)"),
                 ("list[KwItem]", "[KwItem(name='true', tags=['1'], note=None)]"),
                 ("Inventory", "Inventory('bob', {'nut': 3, 'bolt': 4})"), ("Ledger", "Ledger('bob', {'owner': 'eve', 'k': 'v'})"),
                 ("typing.Optional[Inventory]", "Inventory('bob', {'nut': 3})"), ("list[Inventory]", "[Inventory('amy', {'bolt': 4})]"),
                 # members declared on the constructor only: keyword-only parameters, __slots__, a user generic
                 ("Window", "Window(7)"), ("Window", "Window(7, start=datetime.date(2020, 2, 29), span=datetime.timedelta(days=2, microseconds=1))"),
                 ("dict[str, list[Window]]", "{'a': [Window(1, start=datetime.date(9999, 12, 31))], 'b': []}"),
                 ("SlotWindow", "SlotWindow(3, tags=frozenset({'x', 'null'}))"), ("SlotWindow", "SlotWindow(3, tags=frozenset(), day=datetime.date(2020, 1, 2))"),
                 ("Page", "Page([1, 2], 3, datetime.date(2020, 1, 2))"), ("list[Page]", "[Page([], 0, datetime.date(1, 1, 1), 'c')]"),
                 ("dict[str, Page]", "{'k': Page([5], 1, datetime.date(2021, 3, 4), 'null')}")]


def _inherit_child(case):
    import sys
    import types
    import warnings
    warnings.simplefilter("ignore")
    import typelib
    mod = types.ModuleType("vm_c01_inherit")
    sys.modules["vm_c01_inherit"] = mod
    ns = mod.__dict__
    exec(INHERIT_SRC, ns)
    t, v = eval(case[0], ns), eval(case[1], ns)
    out = {}
    try:
        m = typelib.marshal(v, t=t)
        out["wire"] = repr(m)[:200]
        r = typelib.unmarshal(t, m)
        out["rt"] = bool(r == v and type(r) is type(v))
        out["back"] = repr(r)[:200]
    except Exception as e:  # noqa: BLE001
        out["rt"], out["back"] = False, f"{type(e).__name__}: {e}"[:200]
    try:
        p_ = typelib.unmarshal(t, v)
        out["pass"] = bool(p_ == v and type(p_) is type(v))
        out["passed"] = repr(p_)[:200]
    except Exception as e:  # noqa: BLE001
        out["pass"], out["passed"] = False, f"{type(e).__name__}: {e}"[:200]
    try:
        c = typelib.codec(t)
        b = c.encode(v)
        import json as _json
        out["json_is_marshal"] = _json.loads(b) == typelib.marshal(v, t=t)
        d = c.decode(b)
        out["codec"] = bool(d == v and type(d) is type(v) and typelib.decode(t, typelib.encode(v, t=t)) == v)
        out["decoded"] = repr(d)[:200]
    except Exception as e:  # noqa: BLE001
        out["codec"], out["decoded"] = False, f"{type(e).__name__}: {e}"[:200]
    return out


def inheritance_probe(res, which):
    """which: 'rt' (C01), 'codec' (C02) or 'pass' (C13)."""
    from .. import iso
    outs = iso.map_isolated(_inherit_child, INHERIT_CASES, timeout=60.0)
    for case, o in zip(INHERIT_CASES, outs):
        if not isinstance(o, dict) or "rt" not in o:
            raise RuntimeError(f"harness: inheritance probe failed: {case}: {o}")
        res.case({"ann": case[0], "val": case[1], "family": "inherited-fields"}, True)
        if which == "rt" and not o["rt"]:
            res.failures.append({"what": f"unmarshal(T, marshal(v, t=T)) != v for T = {case[0]}, v = {case[1]}: wire {o.get('wire')}, back {o['back']}",
                                 "input": {"inherit_case": list(case)}})
        elif which == "pass" and not o["pass"]:
            res.failures.append({"what": f"unmarshal(T, v) != v for a valid v: T = {case[0]}, v = {case[1]}: got {o['passed']}",
                                 "input": {"inherit_case": list(case)}})
        elif which == "codec" and not (o["codec"] and o.get("json_is_marshal")):
            res.failures.append({"what": f"codec round trip / JSON = marshal fails for T = {case[0]}, v = {case[1]}: decoded {o['decoded']}, "
                                         f"json_is_marshal={o.get('json_is_marshal')}", "input": {"inherit_case": list(case)}})
        else:
            res.count("oracle:inherited-fields-" + which + "-ok")


def explore(ctx):
    res = Result()
    res.rule = RULE
    depth = 3 if ctx.tier == "quick" else 4
    n = ctx.n(160, 3000)
    jobs = core.corpus_jobs("C01") + make_jobs(ctx, n // 2, depth, "optional") + make_jobs(ctx, n - n // 2, depth, "any")
    real, model = core.run_jobs(jobs)
    res.programs = len(jobs)
    for job, ro, mo in zip(jobs, real, model):
        if isinstance(ro, dict) and "crash" in ro:
            raise RuntimeError(f"harness: program failed to materialise: {ro}")
        amb = enum_ambiguous(job["prog"])
        for op, r_, m_ in zip(job["ops"], ro, mo):
            if "crash" in r_:
                raise RuntimeError(f"harness: {r_}")
            case = {"ann": enc.pyexpr(op["ty"], job["prog"]), "val": op["val"]}
            nontrivial = op["ty"][0] not in enc.SCALAR_EXPR
            res.case(case, nontrivial)
            inp = {"prog": job["prog"], "ty": op["ty"], "val": op["val"], **case}
            unordered = enc.has_set(op["ty"], job["prog"])
            # ---- correspondence: marshal, then unmarshal of the real wire form
            for what in ("mar", "um"):
                if what not in r_ or what not in m_:
                    continue
                if core.model_skips(m_[what]):
                    res.skipped += 1
                    res.count(f"{what}:model-unsupported")
                    break
                if core.same(r_[what], m_[what], unordered=(what == "mar" and unordered)):
                    res.count(f"{what}:agree:" + ("ok" if "ok" in r_[what] else r_[what]["err"]))
                elif core._val_has_set(op["val"]) and core._has_positional(inp):
                    # a multi-element set reaching a positional routine (a fixed / named tuple member of a union that accepts it):
                    # which element lands where follows the hash order of the real set, the model only has insertion order
                    res.skipped += 1
                    res.count(f"{what}:set-order-indeterminate")
                    break
                else:
                    res.count(f"{what}:DISAGREE")
                    res.disagreements.append({"what": what, "input": inp, "real": r_[what], "model": m_[what]})
                    break
            # ---- direct oracle on the real library
            ok_rt = "ok" in r_["mar"] and "um" in r_ and "ok" in r_["um"] and enc.canon(r_["um"]["ok"]) == enc.canon(op["val"])
            if type_optional_only(op["ty"], job["prog"]) and not amb:
                if not ok_rt:
                    res.failures.append({"what": "unmarshal(T, marshal(v, t=T)) != v", "input": inp, "real": r_})
                else:
                    res.count("oracle:roundtrip-ok")
            elif not ok_rt:
                if amb and type_optional_only(op["ty"], job["prog"]):
                    # by-value lookup of untagged text: a member whose text spells another member's value (recorded finding)
                    res.failures.append({"what": "round trip of a value of a program with a shadowed enum member", "input": inp, "real": r_,
                                         "finding": "enumValueShadow"})
                    continue
                # several non-None union members: first-acceptor semantics on both sides (C08)
                res.failures.append({"what": "round trip through a multi-member union", "input": inp, "real": r_,
                                     "finding": "unionFirstAcceptor"})
                fix = "mar2" in r_ and "ok" in r_["mar2"] and "ok" in r_["mar"] and \
                    (enc.canon_unordered if unordered else enc.canon)(r_["mar2"]["ok"]) == \
                    (enc.canon_unordered if unordered else enc.canon)(r_["mar"]["ok"])
                if "um" in r_ and "ok" in r_["um"] and not fix:
                    res.failures.append({"what": "fixpoint marshal(unmarshal(T, m)) != m", "input": inp, "real": r_,
                                         "finding": "crossWireUnion"})
            else:
                res.count("oracle:roundtrip-ok(union)")
    inheritance_probe(res, "rt")
    return res


def witness(fid):
    """Does the recorded witness of a known finding still fail on the real library?"""
    import datetime
    import typing
    core.import_typelib()
    import typelib
    if fid == "unionFirstAcceptor":
        T = typing.Union[int, str]
        return typelib.unmarshal(T, typelib.marshal("5", t=T)) != "5"
    if fid == "enumValueShadow":
        import enum

        class E(enum.Enum):
            A = 1
            B = "1"
        return typelib.unmarshal(E, typelib.marshal(E.B, t=E)) is not E.B
    if fid == "crossWireUnion":
        T = typing.Union[datetime.timedelta, int]
        m = typelib.marshal(90, t=T)
        return typelib.marshal(typelib.unmarshal(T, m), t=T) != m
    return None


def replay(failure):
    inp = failure["input"]
    if "inherit_case" in inp:
        from .. import iso
        o = iso.map_isolated(_inherit_child, [tuple(inp["inherit_case"])], timeout=60.0)[0]
        print(json.dumps({"case": inp["inherit_case"], "real": o}, indent=1))
        return not (isinstance(o, dict) and o.get("rt"))
    job = {"prog": inp["prog"], "ops": [{"op": "rt", "ty": inp["ty"], "val": inp["val"]}]}
    real, model = core.run_jobs([job])
    r_ = real[0][0]
    print(json.dumps({"annotation": inp["ann"], "value": inp["val"], "real": r_, "model": model[0][0]}, indent=1)[:3000])
    return not ("ok" in r_["mar"] and "um" in r_ and "ok" in r_["um"] and enc.canon(r_["um"]["ok"]) == enc.canon(inp["val"]))
