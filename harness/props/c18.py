"""C18 — Generic item and value iteration is lossless and non-destructive."""
from __future__ import annotations

import collections
import collections.abc
import dataclasses
import decimal
import enum
import fractions
import itertools
import json
import pathlib
import random
import types
import typing
import warnings

from .. import core, enc, iso, lean
from ..runner import Result
from .fields_corr import fields_correspondence

ID = "C18"
LEVEL = "proof"
LEVEL_TEXT = ("Theorems over the executable model of serdes.iteritems / itervalues (Props/C18.lean): the statement is written a second "
              "time as a specification over what a value contains (mapping pairs; all fields of a named tuple, public fields of any "
              "other structured object; elements of an iterable, read as the given pairs iff the first element is a 2-element "
              "collection, else enumerated with list-library indices) and the model is proved equal to it for every value of the "
              "domain (`iteritems_spec`, `itervalues_spec`); the domain is proved to be exactly the quantifier's inputs the model "
              "answers for (`domain_supported`, `domain_complete`). Consequences proved for all inputs: one item per contained "
              "thing, in order (`each_once`, `enumerate_lossless`), itervalues = second components of iteritems "
              "(`values_are_items_snd`, `values_are_given_pairs`), a one-shot iterator delivers as many items as it had elements, "
              "the peeked first one first, and nothing when empty (`oneshot_all_delivered`, `oneshot_first_included`, "
              "`oneshot_empty`), a named tuple is never read as pairs and keeps every field (`namedtuple_never_pairs`), private "
              "fields are skipped (`private_fields_skipped`), given pairs come back unchanged (`pairs_given`), a member of an enumeration "
              "without str mix-in yields nothing (`member_without_str_yields_nothing`); outside the domain a value either is a scalar "
              "(None, bool, int, float, Decimal, Fraction, PurePath, Pattern, date, datetime, time, timedelta) and both functions raise "
              "TypeError, or the model does not answer, and TypeError at the call comes from scalars only (`scalars_raise_type`, "
              "`outside_domain`, `type_error_only_scalars`). Tied to /repo by the "
              "correspondence on generated values (same value through the real functions, consumed as `for k, v in ...`, and "
              "through the Lean driver) and judged directly by an oracle computed from Python itself. WHICH attribute names of a "
              "structured object are its items is a second model (Model/Fields.lean, following serdes._make_fields_iterator branch by "
              "branch over a class shape: dataclass field table with pseudo-fields, resolved MRO hints with ClassVar / KW_ONLY kinds, "
              "own and base annotations, own and base __slots__, the instance's vars) with its own theorems (Props/Fields.lean): the "
              "selection equals a separately written specification 'public instance fields in declaration order, inherited ones "
              "included, class / init-only variables excluded' (`select_spec`, with the excluded slot-storage corner proved to be "
              "needed, `select_spec_full_fails`), does not depend on __slots__ once anything is declared "
              "(`select_ignores_slots_when_declared`), never selects a pseudo-field or a private name (`select_excludes_pseudo`, "
              "`select_excludes_classvar`, `select_public`), includes inherited annotated fields (`select_includes_inherited`), and in "
              "the vars() branch is a function of THIS instance only, over any sequence of instances through one memoised iterator "
              "(`select_per_instance`, `select_all_pointwise`); four theorems `*_needed` exhibit that the implementations of seeds "
              "C02f / C05f / C13f / C12f (slots first, unfiltered __dataclass_fields__, own annotations only, memoised first instance) "
              "violate them. Tied to /repo by a grid of ~2400 synthesised classes (dataclass / annotated / slots-only / vars-only x "
              "bases x private / ClassVar / InitVar / KW_ONLY x object and string annotations x instance orders) whose shapes are "
              "extracted with Python's own introspection and whose real iteritems names are compared with the model's selection.")
LEVEL_NOTE = ("Trusted: Lean kernel, standard axioms; model tied by correspondence. 'x is not modified' is definitional in the model "
              "(a function of the value) and therefore not claimed as a theorem: it is observed on the real code by the oracle "
              "(structural snapshot before/after; one-shot iterators are checked for full, exact consumption through a tee). "
              "Outside the model and judged by the oracle alone: (index, element) pairs of sets with two or more elements (hash "
              "order), bytes-like inputs and elements, ClassVar / InitVar declarations. Instances of classes without annotations "
              "(slots-only, vars-only) are given to the model as `.inst c fs` with the attributes that are set, in __slots__ / "
              "assignment order.")
TECHNIQUE = "Lean 4 theorems (specification equality by cases + list inductions on enumerate); differential correspondence; independent Python oracle"
DESIGN_REF = "DESIGN.md §5 C18"
MODULES = ["TypelibModel.Props.C18", "TypelibModel.Props.Fields"]
TABLES = False
RULE = ("dict / OrderedDict / MappingProxyType / custom Mapping / a class registered with Mapping.register / dict subclass; instances of dataclasses (plain, slots, frozen, with "
        "ClassVar / InitVar / kw_only), NamedTuples (incl. first field 'ab' or (1, 2)) and collections.namedtuple, TypedDict "
        "instances, annotated plain classes with private and ClassVar attributes, annotated __slots__ classes; generated classes "
        "without annotations: slots-only (1-4 slots, at least one public, private slots set or unset, assigned in any order) and "
        "vars-only (0-4 attributes), whose constructor parameters are named like the attribute, renamed (attribute _b from "
        "parameter b), annotated or absent (attributes stored from constants), plus hand-written ones; members of enumerations "
        "without str mix-in (Enum, IntEnum: nothing is yielded); lists / tuples / deques / sets / frozensets / list and tuple subclasses / custom "
        "Sequence / custom re-iterable of 0-4 generated elements (2-tuples, 2-lists, 2-character strings, 2-key dicts, 2-field "
        "named tuples, other lengths, scalars, instances, sets, bytes; homogeneous or mixed so that the first element decides); "
        "one-shot iterators of the same (list iterator, generator, custom iterator, one with __len__ and __contains__, map object, tee); str / bytes / bytearray / "
        "range / dict views; for the correspondence only: scalars (None, bool, int, float, Decimal, Fraction, "
        "PurePosixPath, Pattern, date, timedelta: TypeError from both functions). Every case is built fresh per call and run twice, in a random order, in a forked child (cold and "
        "warm strategy cache). non-trivial = non-empty input")
ASSUMPTIONS = ["the consumer of iteritems unpacks each item as `k, v = item` (this is how the library itself consumes it)",
               "the fields of a slots-only class are the names of its own __slots__ tuple, all public ones assigned; the fields of a "
               "vars-only class are the keys of vars(obj) (see EXCLUDED for what lies beyond)"]
TRUSTED = ["harness encoders/generators", "hand-written model tied by correspondence",
           "harness/props/fields_corr.py (class grid, shape extraction)", "lean/TypelibModel/Drv/Fields.lean (driver glue)"]
EXCLUDED = ("slots-only classes outside the assumption, where the library does not yield the public attributes that are set: a public "
            "slot left unassigned (AttributeError when the item is reached), __slots__ inherited from a base class (only the most "
            "derived __slots__ is read), private slots only or __slots__ = () (TypeError from vars()), __slots__ given as one string, "
            "__slots__ containing '__dict__' (the instance attributes are not yielded)")

MOD = "vm_c18"
ANY = ["any"]


def _cls(cid, name, kind, fnames, opts=()):
    return {"id": cid, "name": name, "qualname": name, "module": MOD, "kind": kind, "opts": list(opts),
            "fields": [[f, ANY] for f in fnames], "required": list(fnames), "defaults": [], "members": [], "mixin": "none"}


def _enum(cid, name, mixin, members):
    return {"id": cid, "name": name, "qualname": name, "module": MOD, "kind": "enum", "mixin": mixin,
            "members": [[f"m{i}", v] for i, v in enumerate(members)], "fields": [], "required": [], "defaults": []}


DC, DCS, DCF, NT2, NT1, NT3, TD, PL, SL, PLK, ES, EI, EN, AV, AS = range(15)
PROG = {"classes": [
    _cls(DC, "DC", "dataclass", ["a", "b", "_p"]),
    _cls(DCS, "DCS", "dataclass", ["x", "y"], ["slots"]),
    _cls(DCF, "DCF", "dataclass", ["x", "_h"], ["frozen"]),
    _cls(NT2, "NT2", "namedtuple", ["a", "b"]),
    _cls(NT1, "NT1", "namedtuple", ["a"]),
    _cls(NT3, "NT3", "namedtuple", ["a", "b", "c"]),
    _cls(TD, "TD", "typeddict", ["k", "v"]),
    _cls(PL, "PL", "plain", ["a", "_p", "z"]),
    _cls(SL, "SL", "slots", ["a", "_q", "b"]),
    _cls(PLK, "PLK", "plain", ["a", "_p"]),        # + `K: ClassVar[int] = 7`, added after materialisation
    _enum(ES, "ES", "str", ["ab", "x", ""]),
    _enum(EI, "EI", "int", [2, 7]),
    _enum(EN, "EN", "none", [1, "ab", "x"]),   # no str mix-in: the member whose value is 'ab' is not a 2-element collection
    # model-side classes of the instances of generated classes without annotations (never instantiated themselves):
    _cls(AV, "AV", "plain", []),               # vars-only
    _cls(AS, "AS", "slots", []),               # slots-only
], "aliases": {}}
STRUCTS = [DC, DCS, DCF, NT2, NT1, NT3, TD, PL, SL, PLK]
HASHABLE_STRUCTS = [DCF, NT2, NT1, NT3]
PUBLIC = {c["id"]: [f for f, _ in c["fields"] if not f.startswith("_")] for c in PROG["classes"]}

_P = None


def program():
    """The synthesised classes as real classes (once per process)."""
    global _P
    if _P is None:
        _P = enc.Program(PROG)
        k = _P.classes[PLK]
        # a ClassVar is not an instance field: the model's `.inst c fs` lists the instance fields only
        k.__annotations__ = {"K": "typing.ClassVar[int]", **k.__annotations__}
        k.K = 7
    return _P


# --------------------------------------------------------------------------- objects outside the Val encoding

class SlotsOnly:
    __slots__ = ("a", "_b", "c")

    def __init__(self, a, c):
        self.a, self._b, self.c = a, [a], c


class SlotsRenamed:
    """constructor parameter `b` is stored in the private slot `_b`"""
    __slots__ = ("a", "_b", "c")

    def __init__(s, a, b, c):
        s.a, s._b, s.c = a, b, c


class VarsExtra:
    """attributes renamed (`a` from `x`), private (`_h` from `y`), and not constructor parameters at all (`extra`, `y2`)"""

    def __init__(self, x, y=2):
        self.a = x
        self._h = y
        self.extra = [x]
        self.y2 = y


class SlotsNoArgs:
    __slots__ = ("_h", "p", "q")

    def __init__(self):
        self._h, self.p, self.q = 0, (1, 2), "ab"


class VarsOnly:
    def __init__(self, a, c):
        self.a = a
        self._b = (a, c)
        self.c = c


class VarsNoArgs:
    def __init__(self):
        self.p = (1, 2)
        self._h = 1
        self.q = [3]


@dataclasses.dataclass
class WithItemsMethod:
    """a structured object that has a method called items(): it is not a mapping, its items are its fields"""
    owner: str
    stock: dict

    def items(self):
        return self.stock.items()


@dataclasses.dataclass
class DCGetItem:
    """a structured object with by-name subscription (obj["host"]): not a sequence, not a mapping -- its items are its fields"""
    host: str = "localhost"
    port: int = 80

    def __getitem__(self, k):
        return getattr(self, k)


class SlotsGetItem:
    __slots__ = ("x", "y")

    def __init__(self, x, y):
        self.x, self.y = x, y

    def __getitem__(self, k):
        return getattr(self, k if isinstance(k, str) else self.__slots__[k])      # by name or by position


class VarsGetItem:
    def __init__(self, owner, balance):
        self.owner, self.balance = owner, balance

    def __getitem__(self, k):
        return vars(self)[k]


@dataclasses.dataclass
class RecordLike:
    """supports ** unpacking (keys() + __getitem__) without being a Mapping: still a structured object"""
    retries: int = 0
    verbose: bool = False

    def keys(self):
        return ["retries", "verbose"]

    def __getitem__(self, k):
        return getattr(self, k)


class UnresolvedHints:
    """an annotation names something that does not exist at runtime (an import under TYPE_CHECKING): the hints cannot be resolved,
    the constructor's parameters are NOT the fields -- the fields are what the instance holds"""
    sender: MissingAtRuntime   # noqa: F821
    subject: str

    def __init__(self, raw, sep=":"):
        self.sender, _, self.subject = raw.partition(sep)


class UnresolvedHintsSlots:
    __slots__ = ("sender", "subject")
    sender: MissingAtRuntime   # noqa: F821
    subject: str

    def __init__(self, raw):
        self.sender, _, self.subject = raw.partition(":")


class Empty:
    pass


class AnnSlotsBase:
    """annotated AND slotted: the annotations (of the whole MRO, in annotation order) define the fields"""
    __slots__ = ("x", "y")
    x: int
    y: typing.Any

    def __init__(self, x, y):
        self.x, self.y = x, y


class AnnSlotsSub(AnnSlotsBase):
    __slots__ = ("z",)
    z: typing.Any

    def __init__(self, x, y, z):
        super().__init__(x, y)
        self.z = z


class AnnSlotsReordered:
    """slots declared in another order than the annotations"""
    __slots__ = ("b", "_h", "a")
    a: typing.Any
    b: typing.Any

    def __init__(self, a, b):
        self.a, self.b, self._h = a, b, 0


class AnnPlainBase:
    p: typing.Any

    def __init__(self, p):
        self.p = p


class AnnPlainSub(AnnPlainBase):
    q: typing.Any

    def __init__(self, p, q):
        super().__init__(p)
        self.q = q


@dataclasses.dataclass
class DCBase:
    a: typing.Any


@dataclasses.dataclass
class DCSub(DCBase):
    b: typing.Any = None
    _h: int = 0


class AnnBareClassVar:
    """a BARE `ClassVar` annotation (no parameter) is a class variable too"""
    registry: typing.ClassVar = {"shared": True}
    name: typing.Any
    size: int

    def __init__(self, name, size):
        self.name, self.size = name, size


class AnnClassVar:
    K: typing.ClassVar[int] = 7
    a: int
    _p: int
    L: typing.ClassVar[typing.List[int]] = [1]
    b: str

    def __init__(self, a, b):
        self.a, self._p, self.b = a, 0, b


@dataclasses.dataclass
class DCClassVar:
    K: typing.ClassVar[int] = 7
    a: typing.Any = 1
    _p: int = 2
    iv: dataclasses.InitVar[int] = 0
    b: typing.Any = ("x", "y")


@dataclasses.dataclass(kw_only=True, slots=True, frozen=True)
class DCAll:
    a: typing.Any
    _p: int = 0
    b: typing.Any = None


ColNT = collections.namedtuple("ColNT", "p q")


class ColNTSub(collections.namedtuple("ColNTBase", "x y")):
    """the idiom from the collections docs: a subclass of a factory named tuple adding a method -- still a named tuple"""
    __slots__ = ()

    def norm(self):
        return 0


class TypedNTBase(typing.NamedTuple):
    span: typing.Any
    label: str = "a"


class TypedNTSub(TypedNTBase):
    def show(self):
        return self.label


class CustomMapping(collections.abc.Mapping):
    def __init__(self, d):
        self._d = d

    def __getitem__(self, k):
        return self._d[k]

    def __iter__(self):
        return iter(self._d)

    def __len__(self):
        return len(self._d)


class RegisteredMapping:
    """a mapping by protocol and by registration only (persistent / C-extension maps): no Mapping, no dict in its MRO"""

    def __init__(self, d):
        self._d = d

    def __getitem__(self, k):
        return self._d[k]

    def __iter__(self):
        return iter(self._d)

    def __len__(self):
        return len(self._d)

    def __contains__(self, k):
        return k in self._d

    def keys(self):
        return self._d.keys()

    def values(self):
        return self._d.values()

    def items(self):
        return self._d.items()

    def get(self, k, default=None):
        return self._d.get(k, default)

    def __eq__(self, other):
        return isinstance(other, RegisteredMapping) and self._d == other._d

    __hash__ = None


collections.abc.Mapping.register(RegisteredMapping)


class Headers(collections.abc.Mapping):
    """a multi-valued mapping (HTTP headers, multidict): keys() and items() list a repeated key once per value, h[key] answers
    with the first one -- its items are what items() says"""

    def __init__(self, pairs):
        self._pairs = list(pairs)

    def __getitem__(self, k):
        for kk, v in self._pairs:
            if kk == k:
                return v
        raise KeyError(k)

    def __iter__(self):
        return iter([k for k, _ in self._pairs])

    def __len__(self):
        return len(self._pairs)

    def keys(self):
        return [k for k, _ in self._pairs]

    def items(self):
        return list(self._pairs)

    def values(self):
        return [v for _, v in self._pairs]


class ShoutingDict(dict):
    """a dict whose subscription transforms the stored value: its items are the stored ones"""

    def __getitem__(self, k):
        return str(dict.__getitem__(self, k)).upper()


class DictSubclass(dict):
    pass


class ListSubclass(list):
    pass


class TupleSubclass(tuple):
    pass


# containers whose class also defines __call__ (a registry that can be called to look a name up): still containers
class CallableMapping(CustomMapping):
    def __call__(self, k):
        return self._d[k]


class CallableDict(dict):
    def __call__(self, k):
        return self[k]


class CallableList(list):
    def __call__(self, i):
        return self[i]


class CustomSeq(collections.abc.Sequence):
    def __init__(self, xs):
        self._xs = xs

    def __getitem__(self, i):
        return self._xs[i]

    def __len__(self):
        return len(self._xs)


class CustomIterable:
    """re-iterable, neither a Sequence nor a Collection"""

    def __init__(self, xs):
        self._xs = xs

    def __iter__(self):
        return iter(self._xs)


class CustomIter:
    """one-shot"""

    def __init__(self, xs):
        self._xs = list(xs)
        self._i = 0

    def __iter__(self):
        return self

    def __next__(self):
        if self._i >= len(self._xs):
            raise StopIteration
        self._i += 1
        return self._xs[self._i - 1]


class SizedIter(CustomIter):
    """one-shot that reports what is left (a result cursor, a progress wrapper): a Collection by its methods, still not re-iterable"""

    def __len__(self):
        return len(self._xs) - self._i

    def __contains__(self, e):
        return e in self._xs[self._i:]


def _named(name, base):
    """A user class that happens to be CALLED like an abstract collection (domain models do: Sequence, Collection, Set, Mapping)."""
    return type(name, (base,), {"__module__": __name__, "__qualname__": name})


NAMED_ITERS = {n: _named(n, CustomIter) for n in ("Sequence", "Collection", "Iterable", "MutableSequence", "AbstractSet")}
NAMED_VARS = {n: _named(n, VarsOnly) for n in ("Collection", "Mapping", "Set", "MutableSequence", "MutableMapping", "Hashable", "Sequence")}

_DYN = {}


def dyn_class(spec, P):
    """A class without annotations, from its description (memoised: the second call meets a warm strategy cache).

    spec = {"kind": "slots" | "vars", "slots": [names] (slots only), "params": [names], "ann": bool,
            "attrs": [[attribute, source], ...] in assignment order; source = index of a parameter | ["c", Val]}"""
    key = json.dumps(spec, sort_keys=True)
    if key not in _DYN:
        consts = {i: src[1] for i, (_, src) in enumerate(spec["attrs"]) if not isinstance(src, int)}
        ps = "".join(f", {p}: int" if spec.get("ann") else f", {p}" for p in spec["params"])
        lines = [f"class Dyn{len(_DYN)}:"]
        if spec["kind"] == "slots":
            lines.append(f"    __slots__ = {tuple(spec['slots'])!r}")
        lines.append(f"    def __init__(self{ps}):")
        for i, (an, src) in enumerate(spec["attrs"]):
            lines.append(f"        self.{an} = " + (spec["params"][src] if isinstance(src, int) else f"_const({i})"))
        lines.append("        pass")
        ns = {"_const": lambda i: enc.to_py(consts[i], P), "__name__": MOD + "_dyn"}
        exec("\n".join(lines), ns)  # noqa: S102
        _DYN[key] = ns[f"Dyn{len(_DYN)}"]
    return _DYN[key]


def dyn_attrs(d):
    """[[attribute, Val]] of the instance, in the order the fields are defined (slots order / assignment order)."""
    spec = d["dyn"]
    by = {an: (d["args"][src] if isinstance(src, int) else src[1]) for an, src in spec["attrs"]}
    order = [s for s in spec["slots"] if s in by] if spec["kind"] == "slots" else [an for an, _ in spec["attrs"]]
    return [[an, by[an]] for an in order]


def _gen(xs):
    for x in xs:
        yield x


# wrap name -> (tag of the Val it wraps, constructor)
WRAPS = {
    "OrderedDict": ("d", collections.OrderedDict), "MappingProxyType": ("d", types.MappingProxyType),
    "CustomMapping": ("d", CustomMapping), "DictSubclass": ("d", DictSubclass), "RegisteredMapping": ("d", RegisteredMapping),
    "generator": ("it", lambda it: _gen(list(it))), "CustomIter": ("it", CustomIter), "SizedIter": ("it", SizedIter),
    "map": ("it", lambda it: map(lambda e: e, list(it))), "tee": ("it", lambda it: itertools.tee(it)[0]),
    "ListSubclass": ("l", ListSubclass), "CustomSeq": ("l", CustomSeq), "CustomIterable": ("l", CustomIterable),
    "TupleSubclass": ("t", TupleSubclass),
    "CallableMapping": ("d", CallableMapping), "CallableDict": ("d", CallableDict), "CallableList": ("l", CallableList),
}
WRAPS_OF = {}
for _w, (_t, _) in WRAPS.items():
    WRAPS_OF.setdefault(_t, []).append(_w)

# oracle-only objects: name -> (factory, declared public fields or None)
FACTORIES = {
    "SlotsOnly": (lambda: SlotsOnly(1, (1, 2)), ["a", "c"]),
    "SlotsOnly-pairfirst": (lambda: SlotsOnly("ab", None), ["a", "c"]),
    "SlotsNoArgs": (SlotsNoArgs, ["p", "q"]),
    "SlotsRenamed": (lambda: SlotsRenamed(1, 2, 3), ["a", "c"]),
    "SlotsRenamed-pairfirst": (lambda: SlotsRenamed((1, 2), "xy", [3]), ["a", "c"]),
    "VarsExtra": (lambda: VarsExtra((1, 2)), ["a", "extra", "y2"]),
    "VarsExtra-2": (lambda: VarsExtra("ab", y=None), ["a", "extra", "y2"]),
    "VarsOnly": (lambda: VarsOnly((1, 2), [3]), ["a", "c"]),
    "VarsNoArgs": (VarsNoArgs, ["p", "q"]),
    "UnresolvedHints": (lambda: UnresolvedHints("bob:hello"), ["sender", "subject"]),
    "WithItemsMethod": (lambda: WithItemsMethod("bob", {"nut": 3}), ["owner", "stock"]),
    "DCGetItem": (lambda: DCGetItem(), ["host", "port"]), "DCGetItem-pairfirst": (lambda: DCGetItem("ab", (1, 2)), ["host", "port"]),
    "SlotsGetItem": (lambda: SlotsGetItem(1, (1, 2)), ["x", "y"]), "VarsGetItem": (lambda: VarsGetItem("ann", 10), ["owner", "balance"]),
    "RecordLike": (lambda: RecordLike(3, True), ["retries", "verbose"]),
    "UnresolvedHintsSlots": (lambda: UnresolvedHintsSlots("ab:(1, 2)"), ["sender", "subject"]),
    "Empty": (Empty, []),
    **{f"Named{n}-oneshot": ((lambda c: (lambda: c([3, 2, 1])))(c), None) for n, c in NAMED_ITERS.items()},
    **{f"Named{n}-oneshot-pairs": ((lambda c: (lambda: c([("a", 1), ("b", 2)])))(c), None) for n, c in NAMED_ITERS.items()},
    **{f"Named{n}-vars": ((lambda c: (lambda: c((1, 2), [3])))(c), ["a", "c"]) for n, c in NAMED_VARS.items()},
    "AnnClassVar": (lambda: AnnClassVar((1, 2), "ab"), ["a", "b"]),
    "AnnBareClassVar": (lambda: AnnBareClassVar((1, 2), 3), ["name", "size"]),
    "AnnSlotsBase": (lambda: AnnSlotsBase(1, (1, 2)), ["x", "y"]),
    "AnnSlotsSub": (lambda: AnnSlotsSub(1, "ab", [3]), ["x", "y", "z"]),
    "AnnSlotsSub-pairfirst": (lambda: AnnSlotsSub((1, 2), None, "xy"), ["x", "y", "z"]),
    "AnnSlotsReordered": (lambda: AnnSlotsReordered("ab", (1, 2)), ["a", "b"]),
    "AnnPlainSub": (lambda: AnnPlainSub((1, 2), "ab"), ["p", "q"]),
    "DCSub": (lambda: DCSub("ab", (1, 2)), ["a", "b"]),
    "DCClassVar": (lambda: DCClassVar(), ["a", "b"]),
    "DCClassVar-args": (lambda: DCClassVar("ab", 5, 9, [1]), ["a", "b"]),
    "DCAll": (lambda: DCAll(a=(1, 2), b="xy"), ["a", "b"]),
    "ColNT": (lambda: ColNT("ab", 1), None),
    "ColNT-tuplefirst": (lambda: ColNT((1, 2), (3, 4)), None),
    "ColNTSub": (lambda: ColNTSub(1, 2), None), "ColNTSub-pairfirst": (lambda: ColNTSub((1, 2), 3), None),
    "TypedNTSub-pairfirst": (lambda: TypedNTSub((1, 2), "a"), None), "TypedNTSub-strfirst": (lambda: TypedNTSub("ab", "a"), None),
    "bytes": (lambda: b"ab", None), "bytes-empty": (lambda: b"", None), "bytes-3": (lambda: b"abc", None),
    "bytearray": (lambda: bytearray(b"xy"), None),
    "list-of-bytes-pairs": (lambda: [b"ab", b"cd"], None),
    "range": (lambda: range(3), None), "range-empty": (lambda: range(0), None),
    "dict-items-view": (lambda: {"a": 1, "b": 2}.items(), None),
    "dict-keys-view": (lambda: {"a": 1, "bc": 2}.keys(), None),
    "dict-values-view": (lambda: {"a": (1, 2), "b": (3, 4)}.values(), None),
    "Counter": (lambda: collections.Counter("aab"), None),
    "Headers-repeated-key": (lambda: Headers([("set-cookie", "a=1"), ("host", "h"), ("set-cookie", "b=2")]), None),
    "Headers-pairfirst": (lambda: Headers([("ab", (1, 2)), ("ab", 3)]), None), "ShoutingDict": (lambda: ShoutingDict(a="x", b=(1, 2)), None),
    "ChainMap": (lambda: collections.ChainMap({"a": 1}, {"b": (1, 2)}), None),
    "defaultdict": (lambda: collections.defaultdict(list, {(1, 2): [1]}), None),
    "iter-of-dict-items": (lambda: iter({"a": 1, "b": 2}.items()), None),
    "zip": (lambda: zip("ab", (1, 2)), None),
    "enumerate": (lambda: enumerate(["x", "y", "z"]), None),
    "reversed": (lambda: reversed([5, (1, 2)]), None),
    "gen-of-gens": (lambda: (iter([i, i]) for i in range(2)), None),
    "nested-iteritems": (lambda: iter([("a", 1), ("b", 2)]), None),
}

# --------------------------------------------------------------------------- generation of Val descriptions

ATOMS = [0, 1, 5, -3, None, True, False, "", "a", "abc", "héllo", ["f", "1.5"], ["m", EI, 0], ["m", EN, 1], ["frac", 1, 2],
         ["dec", "1.5"], ["path", "a/b"]]
HATOMS = [0, 1, 5, -3, None, "", "a", "abc", ["f", "1.5"], ["m", EN, 1], ["m", EN, 0]]
SCALARS = [5, 0, None, True, ["f", "1.5"], ["f", "-0.0"], ["frac", 1, 2], ["frac", 3, 1], ["dec", "1.5"], ["dec", "0"], ["path", "a/b"],
           ["path", "."], ["pat", "a+"], ["date", 737000], ["td", 5]]
PUB_NAMES = ["a", "b", "c", "x", "y2", "extra", "items", "k_"]
PRIV_NAMES = ["_b", "_h", "_a", "_"]


def g_dyn(r, kind=None):
    """An instance of a generated class without annotations."""
    kind = kind or r.choice(["slots", "vars"])
    n = r.choice([1, 2, 2, 3, 3, 4]) if kind == "slots" else r.choice([0, 1, 2, 3, 3, 4])
    npub = r.randint(1 if kind == "slots" else 0, n)
    names = r.sample(PUB_NAMES, npub) + r.sample(PRIV_NAMES, n - npub)
    r.shuffle(names)
    spec = {"kind": kind, "params": [], "ann": r.random() < 0.25, "attrs": []}
    args = []
    assigned = list(names)
    if kind == "slots":
        spec["slots"] = list(names)
        # a private slot may stay unassigned (it is never read); the assignment order is free
        assigned = [nm for nm in names if not nm.startswith("_") or r.random() < 0.8]
        r.shuffle(assigned)
    for i, nm in enumerate(assigned):
        first = i == 0 and r.random() < 0.5
        v = g_elem(r, False, r.choice(["t2", "s2", "l2", "nt2"])) if first else g_elem(r, False)
        x = r.random()
        if x < 0.3:                    # not a constructor parameter at all
            spec["attrs"].append([nm, ["c", v]])
            continue
        if x < 0.55:                   # parameter named like the attribute (a private one cannot be: `_b` from `b`)
            pn = nm.lstrip("_") or "u"
        elif x < 0.8:                  # renamed
            pn = f"p{i}"
        else:                          # named like *another* attribute
            pn = r.choice(names).lstrip("_") or "u"
        if pn in spec["params"]:
            pn = f"{pn}_{i}"
        spec["attrs"].append([nm, len(spec["params"])])
        spec["params"].append(pn)
        args.append(v)
    return {"dyn": spec, "args": args}


def g_elem(r, hashable=False, kind=None, depth=1):
    """An element; `kind` fixes the shape class (so that homogeneous containers can be built)."""
    kinds = ["atom", "t2", "tn", "s2", "nt2", "nt3", "fs2", "frozen", "bytes", "es"]
    if not hashable:
        kinds += ["l2", "ln", "d2", "dn", "set2", "dc", "dq2", "pl"]
    k = kind or r.choice(kinds + ["atom", "t2", "t2", "s2"])
    sub = lambda: g_elem(r, hashable, "atom" if depth <= 0 or r.random() < 0.7 else None, depth - 1)
    if k == "atom":
        return r.choice(HATOMS if hashable else ATOMS)
    if k == "t2":
        return ["t", [sub(), sub()]]
    if k == "tn":
        return ["t", [sub() for _ in range(r.choice([0, 1, 3]))]]
    if k == "l2":
        return ["l", [sub(), sub()]]
    if k == "ln":
        return ["l", [sub() for _ in range(r.choice([0, 1, 3]))]]
    if k == "s2":
        return r.choice(["ab", "xy", "é1"])
    if k == "d2":
        return ["d", [[r.choice(["k", 1, "ab"]), sub()], [r.choice(["j", 2, "cd"]), sub()]]]
    if k == "dn":
        return ["d", [[kk, sub()] for kk in r.sample(["a", "b", "c"], r.choice([0, 1, 3]))]]
    if k == "nt2":
        return ["o", NT2, [["a", sub()], ["b", sub()]]]
    if k == "nt3":
        return ["o", NT3, [["a", sub()], ["b", sub()], ["c", sub()]]]
    if k == "fs2":
        return ["fs", [1, "a"]]
    if k == "set2":
        return ["s", [1, 2]]
    if k == "frozen":
        return ["o", DCF, [["x", sub()], ["_h", 1]]]
    if k == "dc":
        return ["o", DC, [["a", sub()], ["b", sub()], ["_p", 0]]]
    if k == "pl":
        return ["o", PL, [["a", 1], ["_p", 2], ["z", sub()]]]
    if k == "dq2":
        return ["dq", [sub(), sub()]]
    if k == "bytes":
        return ["b", "bytes", r.choice(["ab", "a", ""])]
    if k == "es":
        return ["m", ES, r.choice([0, 1, 2])]
    raise ValueError(k)


def g_container(r, tag=None):
    tag = tag or r.choice(["l", "l", "t", "dq", "it", "it", "s", "fs"])
    hashable = tag in ("s", "fs")
    n = r.choice([0, 1, 1, 2, 2, 3, 4])
    if r.random() < 0.6:
        kinds = ["atom", "t2", "tn", "s2", "nt2", "nt3", "frozen", "es"] + ([] if hashable else ["l2", "d2", "dc", "dq2"])
        k = r.choice(kinds + ["t2", "t2", "atom"])
        xs = [g_elem(r, hashable, k) for _ in range(n)]
    else:
        xs = [g_elem(r, hashable) for _ in range(n)]
    return [tag, xs]


def g_inst(r, cid=None):
    cid = r.choice(STRUCTS) if cid is None else cid
    c = PROG["classes"][cid]
    fs = []
    for i, (fn, _) in enumerate(c["fields"]):
        if i == 0 and r.random() < 0.5:
            v = g_elem(r, False, r.choice(["t2", "s2", "l2", "nt2"]))      # 2-element first field
        else:
            v = g_elem(r, False)
        fs.append([fn, v])
    return ["o", cid, fs]


def g_dict(r):
    keys = r.sample(["a", "b", "_c", 1, 2, None, ["t", [1, 2]], "ab", ["f", "1.5"]], r.choice([0, 1, 2, 3]))
    return ["d", [[k, g_elem(r, False)] for k in keys]]


def g_desc(r):
    x = r.random()
    if x < 0.5:
        d = {"val": g_container(r)}
    elif x < 0.66:
        d = {"val": g_inst(r)}
    elif x < 0.74:
        d = {"val": g_dict(r)}
    elif x < 0.82:
        d = g_dyn(r)
    elif x < 0.89:
        d = {"val": r.choice(["", "a", "ab", "abc", "héllo wörld", ["m", ES, 0], ["m", ES, 1], ["m", ES, 2],
                              ["m", EN, 0], ["m", EN, 1], ["m", EI, 1]])}
    elif x < 0.93:
        d = {"val": r.choice(SCALARS), "noracle": True}
    else:
        d = {"py": r.choice(sorted(FACTORIES))}
    if "val" in d and isinstance(d["val"], list) and d["val"][0] in WRAPS_OF and r.random() < 0.35:
        d["wrap"] = r.choice(WRAPS_OF[d["val"][0]])
    return d


def fixed_descs():
    """The shapes the quantifier names, each at least once."""
    T = lambda *xs: ["t", list(xs)]
    out = []
    pairs, nonpairs, mixed_p, mixed_n = [T("a", 1), T("b", 2), T("c", 3)], [5, "abc", T(1, 2, 3)], [T(1, 2), 5, T(1, 2, 3)], [5, T(1, 2)]
    for tag in ("l", "t", "dq", "it"):
        for xs in ([], pairs, nonpairs, mixed_p, mixed_n, ["ab", "cd"], ["ab", "c"], [T(1, 2)], [7],
                   [["l", [1, 2]], ["l", [3, 4]]], [["d", [["k", 1], ["j", 2]]]], [["o", NT2, [["a", "ab"], ["b", 1]]], 5],
                   [["o", DC, [["a", 1], ["b", 2], ["_p", 3]]]], [["m", ES, 0]], [["m", EI, 0]], [["it", [1, 2]]], [None, None]):
            out.append({"val": [tag, xs]})
            for w in WRAPS_OF.get(tag, []):
                out.append({"val": [tag, xs], "wrap": w})
    for tag in ("s", "fs"):
        for xs in ([], [T("a", 1), T("b", 2)], [5], [5, 6, 7], ["ab", "cd"], [T(1, 2), 5], [["o", NT2, [["a", 1], ["b", 2]]]]):
            out.append({"val": [tag, xs]})
    for kvs in ([], [["a", 1]], [["a", T(1, 2)], ["_b", 2], [3, None]], [[T(1, 2), T(3, 4)], [T(5, 6), 7]]):
        out.append({"val": ["d", kvs]})
        for w in WRAPS_OF["d"]:
            out.append({"val": ["d", kvs], "wrap": w})
    out += [
        {"val": ["o", DC, [["a", 1], ["b", "x"], ["_p", 3]]]}, {"val": ["o", DC, [["a", T(1, 2)], ["b", "ab"], ["_p", 3]]]},
        {"val": ["o", DCS, [["x", "ab"], ["y", T(1, 2)]]]}, {"val": ["o", DCF, [["x", T(1, 2)], ["_h", "h"]]]},
        {"val": ["o", NT2, [["a", "ab"], ["b", 1]]]}, {"val": ["o", NT2, [["a", T(1, 2)], ["b", T(3, 4)]]]},
        {"val": ["o", NT1, [["a", T(1, 2)]]]}, {"val": ["o", NT1, [["a", "ab"]]]}, {"val": ["o", NT1, [["a", 5]]]},
        {"val": ["o", NT3, [["a", ["l", [1, 2]]], ["b", 2], ["c", 3]]]},
        {"val": ["o", TD, [["k", 1], ["v", "ab"]]]},
        {"val": ["o", PL, [["a", "ab"], ["_p", 2], ["z", T(1, 2)]]]}, {"val": ["o", SL, [["a", T(1, 2)], ["_q", 0], ["b", None]]]},
        {"val": ["o", PLK, [["a", T(1, 2)], ["_p", 2]]]}, {"val": ["o", PLK, [["a", 1], ["_p", 2]]]},
        {"val": ""}, {"val": "a"}, {"val": "ab"}, {"val": "abc"}, {"val": ["m", ES, 0]}, {"val": ["m", ES, 2]},
        {"val": ["x", "opaque"]},
        # members of enumerations without str mix-in: structured objects whose attributes are all private
        {"val": ["m", EI, 0]}, {"val": ["m", EI, 1]}, {"val": ["m", EN, 0]}, {"val": ["m", EN, 1]}, {"val": ["m", EN, 2]},
        # classes without annotations: the two shapes of the repaired defect, then one of each generated kind
        {"dyn": {"kind": "slots", "slots": ["a", "_b", "c"], "params": ["a", "b", "c"], "ann": False, "attrs": [["a", 0], ["_b", 1], ["c", 2]]},
         "args": [1, 2, 3]},
        {"dyn": {"kind": "slots", "slots": ["a", "_b", "c"], "params": ["c", "a"], "ann": True, "attrs": [["c", 1], ["a", 0]]},
         "args": [T(1, 2), "ab"]},
        {"dyn": {"kind": "vars", "params": ["x", "y"], "ann": False,
                 "attrs": [["a", 0], ["_h", 1], ["extra", ["c", ["l", [1]]]], ["y2", 1]]}, "args": [T(1, 2), 2]},
        {"dyn": {"kind": "vars", "params": [], "ann": False, "attrs": [["_h", ["c", 0]]]}, "args": []},
        {"dyn": {"kind": "vars", "params": ["b"], "ann": False, "attrs": [["a", ["c", "ab"]], ["b", ["c", 5]]]}, "args": [7]},
    ]
    # outside the quantifier, kept for the correspondence of the model's remaining rows (TypeError from vars())
    out += [{"val": v, "noracle": True} for v in SCALARS]
    out += [{"py": k} for k in sorted(FACTORIES)]
    return out


# --------------------------------------------------------------------------- child side: real library + oracle

def build(d, P):
    if "py" in d:
        return FACTORIES[d["py"]][0]()
    if "dyn" in d:
        return dyn_class(d["dyn"], P)(*[enc.to_py(a, P) for a in d["args"]])
    x = enc.to_py(d["val"], P)
    if "wrap" in d:
        x = WRAPS[d["wrap"]][1](x)
    return x


def model_val(d, P):
    """The Val the model is given for this description, None = not expressible."""
    if "py" in d:
        return None
    if "dyn" in d:
        # `.inst c fs`: a structured object of a plain / __slots__ class with the instance fields fs
        return ["o", AS if d["dyn"]["kind"] == "slots" else AV,
                [[an, enc.from_py(enc.to_py(v, P), P)] for an, v in dyn_attrs(d)]]
    v = d["val"]
    if isinstance(v, list) and v[0] == "it":
        return ["it", [enc.from_py(enc.to_py(e, P), P) for e in v[1]]]
    m = enc.from_py(enc.to_py(v, P), P)
    return m


def _err(e):
    if isinstance(e, (KeyboardInterrupt, SystemExit, MemoryError)):
        raise e
    return enc.err_class(e), f"{type(e).__name__}: {e}"[:160]


def observe(fn, x, P, unpack):
    """What a consumer sees: items delivered before a late error are kept."""
    try:
        it = fn(x)
    except BaseException as e:  # noqa: BLE001
        c, m = _err(e)
        return {"err": c, "msg": m}
    out = []
    try:
        for item in it:
            if unpack:
                k, v = item
                out.append([enc.from_py(k, P), enc.from_py(v, P)])
            else:
                out.append(enc.from_py(item, P))
    except BaseException as e:  # noqa: BLE001
        c, m = _err(e)
        return {"ok": out, "then_err": c, "msg": m}
    return {"ok": out}


_IMMUTABLE = (decimal.Decimal, fractions.Fraction, pathlib.PurePath, enum.Enum)


def snap(x, depth=0):
    """Structural snapshot (no addresses) to detect modification of the input."""
    t = type(x)
    if depth > 8:
        return "..."
    if x is None or t in (bool, int, float, str, bytes, bytearray, range) or isinstance(x, _IMMUTABLE):
        return repr(x)       # (a PurePath caches its text in a slot: not a modification)
    if isinstance(x, collections.abc.Mapping):
        return [t.__name__, [[snap(k, depth + 1), snap(v, depth + 1)] for k, v in x.items()]]
    if isinstance(x, (set, frozenset)):
        return [t.__name__, sorted(json.dumps(snap(e, depth + 1)) for e in x)]
    if isinstance(x, (list, tuple, collections.deque)):
        return [t.__name__, [snap(e, depth + 1) for e in x]]
    if isinstance(x, collections.abc.Iterator) and not hasattr(x, "_xs"):
        return [t.__name__, "iterator"]
    d = {}
    if hasattr(x, "__dict__"):
        d.update(vars(x))
    for k in t.__mro__:
        sl = k.__dict__.get("__slots__", ())
        for s in ((sl,) if isinstance(sl, str) else sl):
            if hasattr(x, s):
                d[s] = getattr(x, s)
    if isinstance(x, collections.abc.Collection) and not d:
        return [t.__name__, [snap(e, depth + 1) for e in x]]
    return [t.__name__, sorted([k, snap(v, depth + 1)] for k, v in d.items() if not k.startswith("__"))]


def python_public_fields(x):
    """The public fields of a structured object, from Python itself."""
    tp = type(x)
    if dataclasses.is_dataclass(tp):
        names = [f.name for f in dataclasses.fields(tp)]
    else:
        try:
            hints = typing.get_type_hints(tp)
        except Exception:  # noqa: BLE001
            hints = {}
        names = [k for k, h in hints.items() if h is not typing.ClassVar and typing.get_origin(h) is not typing.ClassVar]
        if not names:
            slots = []
            for k in reversed(tp.__mro__):
                sl = k.__dict__.get("__slots__", ())
                slots += [sl] if isinstance(sl, str) else list(sl)
            names = [s for s in slots if hasattr(x, s)] if slots else list(vars(x))
    return [n for n in names if not n.startswith("_")]


def classify(x):
    if isinstance(x, collections.abc.Mapping):
        return "mapping"
    if isinstance(x, tuple) and hasattr(type(x), "_fields"):
        return "namedtuple"
    if isinstance(x, collections.abc.Iterator):
        return "oneshot"
    if isinstance(x, collections.abc.Iterable):
        return "iterable"
    return "struct"


def is_pair(e):
    return isinstance(e, collections.abc.Collection) and len(e) == 2


def encl(xs, P):
    return [enc.from_py(e, P) for e in xs]


def pairs_of(raw, P):
    """(k, v) items as [[k, v], ...]; anything that is not a 2-sequence is kept whole (and will differ)."""
    out = []
    for it in raw:
        if isinstance(it, (tuple, list)) and len(it) == 2:
            out.append([enc.from_py(it[0], P), enc.from_py(it[1], P)])
        else:
            out.append({"not-a-pair": enc.from_py(it, P)})
    return out


def oracle(serdes, d, P, fails, tags):
    mk = lambda: build(d, P)
    x = mk()
    kind = classify(x)
    tags.append(kind)
    if "py" in d:
        decl = FACTORIES[d["py"]][1]
    elif "dyn" in d:
        decl = [an for an, _ in dyn_attrs(d) if not an.startswith("_")]
        tags.append("class-without-annotations:" + d["dyn"]["kind"])
    else:
        decl = PUBLIC.get(d["val"][1]) if isinstance(d.get("val"), list) and d["val"][0] == "o" else None

    def call(fn, subject, what):
        try:
            return list(fn(subject))
        except BaseException as e:  # noqa: BLE001
            c, m = _err(e)
            fails.append(f"{what} raised {m}")
            return None

    if kind == "oneshot":
        # (a) through a tee: the other branch tells what the input held
        a, b = itertools.tee(x)
        raw = call(serdes.iteritems, a, "iteritems(one-shot)")
        elems = list(b)
        given = bool(elems) and is_pair(elems[0])
        tags.append("given-pairs" if given else ("empty" if not elems else "indexed"))
        if raw is not None:
            if given and encl(raw, P) != encl(elems, P):
                fails.append(f"one-shot iterable of pairs: yielded {len(raw)} items, not the {len(elems)} given pairs in order")
            if not given and pairs_of(raw, P) != pairs_of(list(enumerate(elems)), P):
                fails.append(f"one-shot iterable: items are not (index, element) for the {len(elems)} elements")
            if next(a, _END) is not _END:
                fails.append("one-shot input not exhausted after the returned iterator was")
        # (b) the raw iterator: consumed exactly, first element included, nothing for an empty one
        y, expect = mk(), list(mk())
        raw2 = call(serdes.iteritems, y, "iteritems(one-shot)")
        if raw2 is not None:
            if len(raw2) != len(expect):
                fails.append(f"one-shot iterator of {len(expect)} elements delivered {len(raw2)} items")
            elif expect and encl([raw2[0]], P) != encl([expect[0] if given else (0, expect[0])], P):
                fails.append("first element of a one-shot iterator lost or altered")
            if next(y, _END) is not _END:
                fails.append("one-shot input not exhausted")
        vals = call(serdes.itervalues, mk(), "itervalues(one-shot)")
        if vals is not None and encl(vals, P) != encl(expect, P):
            fails.append(f"itervalues(one-shot) yielded {len(vals)} values, not the {len(expect)} elements in order")
        return
    before = snap(x)
    if kind == "mapping":
        exp_items, exp_vals, given = list(x.items()), list(x.values()), False
    elif kind == "namedtuple":
        exp_items, exp_vals, given = list(zip(type(x)._fields, x)), list(x), False
    elif kind == "iterable":
        elems = list(x)           # the elements, taken before the call
        given = bool(elems) and is_pair(elems[0])
        exp_items, exp_vals = (elems if given else list(enumerate(elems))), elems
        tags.append("given-pairs" if given else ("empty" if not elems else "indexed"))
    else:
        names = python_public_fields(x)
        if decl is not None and names != decl:
            raise RuntimeError(f"harness: declared public fields {decl} != {names} for {d}")
        exp_items, given = [(n, getattr(x, n)) for n in names], False
        exp_vals = [v for _, v in exp_items]
        if "dyn" in d and pairs_of(exp_items, P) != [[an, enc.from_py(enc.to_py(v, P), P)] for an, v in dyn_attrs(d) if not an.startswith("_")]:
            raise RuntimeError(f"harness: the generated instance does not hold the described attributes: {d}")
    raw = call(serdes.iteritems, x, "iteritems")
    if raw is not None:
        if given:
            if encl(raw, P) != encl(exp_items, P):
                fails.append(f"iterable of pairs: yielded {len(raw)} items, not the {len(exp_items)} given pairs in order")
        elif pairs_of(raw, P) != pairs_of(exp_items, P):
            fails.append(f"iteritems({kind}) yielded {len(raw)} items, expected the {len(exp_items)} "
                         + {"mapping": "(key, value)", "namedtuple": "(field, value)", "struct": "public (field, value)"}.get(kind, "(index, element)")
                         + " pairs in order")
    if snap(x) != before:
        fails.append("input modified by iteritems")
    vals = call(serdes.itervalues, x, "itervalues")
    if vals is not None and encl(vals, P) != encl(exp_vals, P):
        fails.append(f"itervalues({kind}) yielded {len(vals)} values, expected the {len(exp_vals)} "
                     + {"mapping": "mapping values", "namedtuple": "field values", "struct": "public field values"}.get(kind, "elements") + " in order")
    if snap(x) != before:
        fails.append("input modified by itervalues")


_END = object()


def run_case(serdes, P, d):
    out = {"fails": [], "tags": [], "mval": model_val(d, P)}
    out["items"] = observe(serdes.iteritems, build(d, P), P, True)
    out["values"] = observe(serdes.itervalues, build(d, P), P, False)
    if not d.get("noracle"):
        oracle(serdes, d, P, out["fails"], out["tags"])
    return out


def _strip(o):
    return {k: ({kk: vv for kk, vv in v.items() if kk != "msg"} if isinstance(v, dict) else v) for k, v in o.items()}


def real_side(job):
    """Child: every description twice, in a random order (the iteration strategy is memoised per class)."""
    warnings.simplefilter("ignore")
    from typelib import serdes
    P = program()
    r = random.Random(job["seed"])
    descs = job["descs"]
    order = list(range(len(descs))) * 2
    r.shuffle(order)
    outs = [None] * len(descs)
    for i in order:
        o = run_case(serdes, P, descs[i])
        if outs[i] is None:
            outs[i] = o
        elif _strip(o) != _strip(outs[i]):
            outs[i]["fails"].append("a second call on an equal input gave a different result (memoised strategy)")
            outs[i]["second"] = _strip(o)
    return outs


# --------------------------------------------------------------------------- parent side

def norm_items(o, unordered):
    if "err" in o:
        return [], o["err"]
    items = [[enc.canon(k), enc.canon(v)] for k, v in o["ok"]]
    if unordered:
        items = sorted(items, key=json.dumps)
    return items, o.get("then_err")


def norm_values(o, unordered):
    if "err" in o:
        return [], o["err"]
    vs = [enc.canon(v) for v in o["ok"]]
    if unordered:
        vs = sorted(vs, key=json.dumps)
    return vs, o.get("then_err")


def unsupported(m):
    return m.get("err") in ("unsupported", "fuel") or m.get("then_err") in ("unsupported", "fuel")


def drive_all(mvals):
    """mval (json key) -> (items answer, values answer), one driver run."""
    keys = sorted(mvals)
    lines = [{"op": "env", "env": enc.lean_env(PROG)}]
    for k in keys:
        v = json.loads(k)
        lines.append({"op": "iteritems", "val": v})
        lines.append({"op": "itervalues", "val": v})
    outs = lean.drive(lines)[1:]
    return {k: (outs[2 * i], outs[2 * i + 1]) for i, k in enumerate(keys)}


def brief(d):
    return {k: d[k] for k in d if k in ("val", "wrap", "py", "dyn", "args")}


def judge(res, d, o, model):
    """Correspondence for one case; returns the disagreements (also appended to res)."""
    dis = []
    if o["mval"] is None:
        res.count("oracle-only")
        return dis
    unordered = isinstance(o["mval"], list) and o["mval"][0] in ("s", "fs")
    mi, mv = model[json.dumps(o["mval"])]
    for what, real, mod, nf in (("iteritems", o["items"], mi, norm_items), ("itervalues", o["values"], mv, norm_values)):
        if unsupported(mod):
            res.skipped += 1
            res.count(f"{what}:model-unsupported")
            continue
        if nf(real, unordered) == nf(mod, unordered):
            res.count(f"{what}:agree:" + (nf(real, unordered)[1] or "ok"))
        else:
            res.count(f"{what}:DISAGREE")
            dis.append({"what": what, "input": {"desc": brief(d), "model_val": o["mval"]}, "real": real, "model": mod})
    res.disagreements += dis
    return dis


def explore(ctx):
    res = Result()
    res.rule = RULE
    core.import_typelib()
    n_children = ctx.n(10, 80)
    n_random = 300 if ctx.tier == "quick" else 600
    fixed = fixed_descs()
    jobs = []
    for _ in range(n_children):
        descs = fixed + [g_desc(ctx.rng) for _ in range(n_random)]
        jobs.append({"seed": ctx.rng.randrange(1 << 30), "descs": descs})
    outs = iso.map_isolated(real_side, jobs, timeout=300.0)
    mvals = set()
    for job, ro in zip(jobs, outs):
        if isinstance(ro, dict) and "crash" in ro:
            raise RuntimeError(f"harness: child failed: {ro}")
        for o in ro:
            if o["mval"] is not None:
                mvals.add(json.dumps(o["mval"]))
    model = drive_all(mvals)
    res.programs = len(jobs)
    for job, ro in zip(jobs, outs):
        for d, o in zip(job["descs"], ro):
            nontrivial = not (o["items"].get("ok") == [] and "then_err" not in o["items"])
            res.case(brief(d), nontrivial)
            for t in o["tags"]:
                res.count("oracle:" + t)
            judge(res, d, o, model)
            if o["fails"]:
                res.failures.append({"what": "; ".join(o["fails"][:4]), "input": {"desc": brief(d), "seed": job["seed"]},
                                     "real": {"iteritems": _clip(o["items"]), "itervalues": _clip(o["values"])}})
            elif not d.get("noracle"):
                res.count("oracle:ok")
    fields_correspondence(res)   # field selection of _make_fields_iterator: real code <-> Model/Fields.lean
    return res


def _clip(o):
    o = {k: v for k, v in o.items()}
    if isinstance(o.get("ok"), list) and len(o["ok"]) > 8:
        o["ok"] = o["ok"][:8] + ["..."]
    return o


def witness(fid):
    return None


def replay(failure):
    core.import_typelib()
    warnings.simplefilter("ignore")
    from typelib import serdes
    d = failure["input"]["desc"]
    P = program()
    o = run_case(serdes, P, d)
    o2 = run_case(serdes, P, d)
    if _strip(o) != _strip(o2):
        o["fails"].append("a second call on an equal input gave a different result (memoised strategy)")
    res = Result()
    model = drive_all({json.dumps(o["mval"])}) if o["mval"] is not None else {}
    dis = judge(res, d, o, model)
    print(json.dumps({"input": brief(d), "real": {"iteritems": o["items"], "itervalues": o["values"]},
                      "model": model.get(json.dumps(o["mval"])) if o["mval"] is not None else "not expressible (oracle only)",
                      "oracle": o["fails"], "disagreements": len(dis)}, indent=1, default=str)[:4000])
    return bool(o["fails"] or dis)
