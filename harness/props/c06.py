"""C06 — Marshalled output is plain JSON-compatible data, freshly built."""
from __future__ import annotations

import json

from .. import core, enc
from ..runner import Result

ID = "C06"
LEVEL = "proof"
LEVEL_TEXT = ("Theorems over the executable model of every marshaller (Props/C06.lean): for every fully annotated T without "
              "bytes-like members and every valid v, an `ok` result of `mar` consists solely of None/bool/int/float/str/list/dict "
              "with primitive keys (`marshal_plain`), and a value that is not a (class-exact) member of a Literal is rejected "
              "with ValueError. Determinism is definitional in a pure model and therefore NOT claimed from it; object identity "
              "(no shared mutable container, input unmodified) cannot be expressed in the pure model: both are observed on the "
              "real library by the oracle — partial for those clauses.")
LEVEL_NOTE = ("Trusted: Lean kernel, standard axioms; hand-written model tied by correspondence (exact classes compared); "
              "LeafPlain hypothesis for CPython printers. Aliasing / mutation clauses: oracle only.")
TECHNIQUE = "Lean 4 closure theorem (induction over the model of all marshallers); correspondence with exact-class comparison; identity/aliasing oracle on the real objects"
DESIGN_REF = "DESIGN.md §5 C06"
MODULES = ["TypelibModel.Props.C06", "TypelibModel.Props.Dispatch"]
TABLES = True
RULE = ("fully annotated programs (no Any); valid values incl. subclass instances where the encoding allows (IntEnum members in "
        "int positions, str-mixin members in str positions); non-members for Literal types; non-trivial = composite annotation")
ASSUMPTIONS = ["valid values are generated from the annotation; bytes-like members are excluded by the property"]
TRUSTED = ["harness encoders/generators", "hand-written model tied by correspondence"]


def has_literal_root(ts):
    body = [x for x in ts if not isinstance(x, dict)]
    return body[0] == "lit"


def make_ops(depth):
    def f(g, prog):
        ops = []
        for _ in range(3):
            ts = g.ty(depth)
            for _ in range(3):
                ops.append({"op": "mar", "ty": ts, "val": g.value(ts, budget=depth), "obs": ["plain"], "valid": True})
        # Literal rejection
        lit = g.literal()
        for bad in (g.junk_flat(), g.junk_flat(), 99, "zz", ["f", "1.0"], True, 1):
            member = any(type(bad) is type(m) and bad == m for m in lit[1])
            ops.append({"op": "mar", "ty": lit, "val": bad, "obs": [], "valid": False, "member": member})
        return ops
    return f


def explore(ctx):
    res = Result()
    res.rule = RULE
    depth = 3 if ctx.tier == "quick" else 4
    n = ctx.n(160, 2500)
    jobs = core.gen_jobs(ctx, n, "c06", dict(max_depth=depth, unions="any"), make_ops(depth))
    real, model = core.run_jobs(jobs)
    res.programs = len(jobs)
    for job, op, r_, m_ in core.iter_results(jobs, real, model):
        case = {"ann": enc.pyexpr(op["ty"], job["prog"]), "val": op["val"]}
        res.case(case, op["ty"][0] not in enc.SCALAR_EXPR)
        inp = {"prog": job["prog"], "ty": op["ty"], "val": op["val"], **case}
        core.compare(res, "mar", inp, r_, m_, unordered=enc.has_set(op["ty"], job["prog"]))
        if op["valid"]:
            if "ok" not in r_:
                # a valid value that a multi-member union cannot marshal is C08's business, not C06's
                res.count("oracle:valid-value-rejected:" + r_["err"])
                continue
            bad = []
            if r_.get("plain"):
                bad.append("not plain: " + r_["plain"])
            if r_.get("json") is not True:
                bad.append(f"json.dumps rejects it: {r_.get('json')}")
            if r_.get("deterministic") is False:
                bad.append("two calls differ")
            if r_.get("shares_with_input"):
                bad.append("shares a mutable container with the input")
            if r_.get("shares_between_calls"):
                bad.append("two calls share a mutable container")
            if r_.get("input_unmodified") is False:
                bad.append("input was modified")
            if bad:
                res.failures.append({"what": "; ".join(bad), "input": inp, "real": {"ok": r_["ok"]}})
            else:
                res.count("oracle:plain-fresh-ok")
        else:
            if op["member"]:
                continue
            if "ok" in r_:
                res.failures.append({"what": "a non-member of a Literal type was emitted", "input": inp, "real": {"ok": r_["ok"]}})
            elif r_["err"] != "value":
                res.failures.append({"what": f"a non-member of a Literal type raised {r_['err']} instead of ValueError", "input": inp, "real": r_})
            else:
                res.count("oracle:literal-rejected")
    return res


def witness(fid):
    return None


def replay(failure):
    inp = failure["input"]
    job = {"prog": inp["prog"], "ops": [{"op": "mar", "ty": inp["ty"], "val": inp["val"], "obs": ["plain"]}]}
    real, model = core.run_jobs([job])
    r_ = real[0][0]
    print(json.dumps({"annotation": inp["ann"], "value": inp["val"], "real": r_, "model": model[0][0]}, indent=1)[:3000])
    if "Literal" in failure["what"]:
        return "ok" in r_ or r_.get("err") != "value"
    return "ok" in r_ and bool(r_.get("plain") or r_.get("json") is not True or r_.get("deterministic") is False
                               or r_.get("shares_with_input") or r_.get("shares_between_calls") or r_.get("input_unmodified") is False)
