"""C06 — Marshalled output is plain JSON-compatible data, freshly built."""
from __future__ import annotations

import json

from .. import core, enc
from ..runner import Result

ID = "C06"
LEVEL = "proof"
LEVEL_TEXT = ("Theorems over the executable model of every marshaller (Props/C06.lean): for every fully annotated T without "
              "bytes-like members and every valid v, an `ok` result of `mar` consists solely of None/bool/int/float/str/list/dict "
              "with primitive keys (`marshal_plain`), and a value that is not a (class-exact) member of a Literal is rejected "
              "with ValueError. Determinism is definitional in a pure model and therefore NOT claimed from it; object identity "
              "(no shared mutable container, input unmodified) cannot be expressed in the pure model: both are observed on the "
              "real library by the oracle — partial for those clauses.")
LEVEL_NOTE = ("Trusted: Lean kernel, standard axioms; hand-written model tied by correspondence (exact classes compared); "
              "LeafPlain hypothesis for CPython printers. Aliasing / mutation clauses: oracle only.")
TECHNIQUE = "Lean 4 closure theorem (induction over the model of all marshallers); correspondence with exact-class comparison; identity/aliasing oracle on the real objects"
DESIGN_REF = "DESIGN.md §5 C06"
MODULES = ["TypelibModel.Props.C06", "TypelibModel.Props.Dispatch"]
TABLES = True
RULE = ("fully annotated programs (no Any); valid values incl. subclass instances where the encoding allows (IntEnum members in "
        "int positions, str-mixin members in str positions); non-members for Literal types; non-trivial = composite annotation")
ASSUMPTIONS = ["valid values are generated from the annotation; bytes-like members are excluded by the property"]
TRUSTED = ["harness encoders/generators", "hand-written model tied by correspondence"]


def has_literal_root(ts):
    body = [x for x in ts if not isinstance(x, dict)]
    return body[0] == "lit"


def make_ops(depth):
    def f(g, prog):
        ops = []
        for _ in range(3):
            ts = g.ty(depth)
            for _ in range(3):
                ops.append({"op": "mar", "ty": ts, "val": g.value(ts, budget=depth), "obs": ["plain"], "valid": True})
        # Literal rejection
        lit = g.literal()
        for bad in (g.junk_flat(), g.junk_flat(), 99, "zz", ["f", "1.0"], True, 1):
            member = any(type(bad) is type(m) and bad == m for m in lit[1])
            ops.append({"op": "mar", "ty": lit, "val": bad, "obs": [], "valid": False, "member": member})
        return ops
    return f


def explore(ctx):
    res = Result()
    res.rule = RULE
    depth = 3 if ctx.tier == "quick" else 4
    n = ctx.n(160, 2500)
    jobs = core.gen_jobs(ctx, n, "c06", dict(max_depth=depth, unions="any"), make_ops(depth))
    real, model = core.run_jobs(jobs)
    res.programs = len(jobs)
    for job, op, r_, m_ in core.iter_results(jobs, real, model):
        case = {"ann": enc.pyexpr(op["ty"], job["prog"]), "val": op["val"]}
        res.case(case, op["ty"][0] not in enc.SCALAR_EXPR)
        inp = {"prog": job["prog"], "ty": op["ty"], "val": op["val"], **case}
        core.compare(res, "mar", inp, r_, m_, unordered=enc.has_set(op["ty"], job["prog"]))
        if op["valid"]:
            if "ok" not in r_:
                # a valid value that a multi-member union cannot marshal is C08's business, not C06's
                res.count("oracle:valid-value-rejected:" + r_["err"])
                continue
            bad = []
            if r_.get("plain"):
                bad.append("not plain: " + r_["plain"])
            if r_.get("json") is not True:
                bad.append(f"json.dumps rejects it: {r_.get('json')}")
            if r_.get("deterministic") is False:
                bad.append("two calls differ")
            if r_.get("shares_with_input"):
                bad.append("shares a mutable container with the input")
            if r_.get("shares_between_calls"):
                bad.append("two calls share a mutable container")
            if r_.get("input_unmodified") is False:
                bad.append("input was modified")
            if bad:
                res.failures.append({"what": "; ".join(bad), "input": inp, "real": {"ok": r_["ok"]}})
            else:
                res.count("oracle:plain-fresh-ok")
        else:
            if op["member"]:
                continue
            if "ok" in r_:
                res.failures.append({"what": "a non-member of a Literal type was emitted", "input": inp, "real": {"ok": r_["ok"]}})
            elif r_["err"] != "value":
                res.failures.append({"what": f"a non-member of a Literal type raised {r_['err']} instead of ValueError", "input": inp, "real": r_})
            else:
                res.count("oracle:literal-rejected")
    check_subclass_instances(res)
    return res


# ---- subclass instances (the quantifier names them: IntEnum, str subclasses, pendulum temporals, OrderedDict / deque containers)
SUB_PRELUDE = """
import collections, collections.abc, dataclasses, datetime, decimal, enum, typing
class Level(enum.IntEnum):
    LOW = 1
    HIGH = 2
class Flag(enum.IntFlag):
    A = 1
    B = 2
class Color(str, enum.Enum):
    RED = "red"
class MyInt(int):
    pass
class Celsius(float):
    pass
class S(str):
    pass
class MyDec(decimal.Decimal):
    pass
class MyList(list):
    pass
class MyDict(dict):
    pass
@dataclasses.dataclass
class Reading:
    sensor: int
    level: int
    value: float
    name: str
    history: list[int]
    by_slot: dict[int, float]
    opt: typing.Optional[int] = None
@dataclasses.dataclass
class Ping:
    pass
class Pong(typing.NamedTuple):
    pass
@dataclasses.dataclass
class Stamp:
    on: datetime.date
import typing_extensions
class ExtTD(typing_extensions.TypedDict):
    # declared through the backport (NotRequired / ReadOnly on older Pythons): still a TypedDict, fields marshalled by their types
    name: str
    level: Level
    amount: decimal.Decimal
    when: datetime.date
    tags: typing.List[str]
    counts: typing.Dict[str, int]
    note: typing_extensions.NotRequired[str]
@dataclasses.dataclass
class Envelope:
    kind: str
    body: typing.Union[Ping, Stamp]
    sent: typing.Union[Ping, datetime.date]
    trail: list[typing.Union[Ping, Stamp]]
R = typing.TypeVar("R", bound=typing.Sequence[decimal.Decimal])
D = typing.TypeVar("D", bound=decimal.Decimal)
O = typing.TypeVar("O", bound=typing.Optional[datetime.date])
C = typing.TypeVar("C", decimal.Decimal, datetime.date)
@dataclasses.dataclass
class Table(typing.Generic[R, D, O, C]):
    # a generic class, unsubscripted: every member is marshalled by the bound / the constraints of its variable
    rows: typing.List[R]
    cell: D
    day: O
    either: C
    header: typing.Optional[R] = None
class Key(str, enum.Enum):
    NAME = "name"
    A = "a"
class PlainTD(typing.TypedDict):
    a: int
    name: str
class CustomMap(collections.abc.Mapping):
    def __init__(self, d):
        self._d = dict(d)
    def __getitem__(self, k):
        return self._d[k]
    def __iter__(self):
        return iter(self._d)
    def __len__(self):
        return len(self._d)
try:
    import pendulum
except Exception:
    pendulum = None
"""
SUB_CASES = [
    ("int", "True"), ("int", "Level.HIGH"), ("int", "Flag.A | Flag.B"), ("int", "MyInt(5)"), ("float", "Celsius(21.5)"), ("float", "True"),
    ("float", "Level.LOW"), ("float", "MyInt(3)"), ("str", "S('ab')"), ("str", "Color.RED"), ("bool", "True"),
    ("list[int]", "[True, Level.LOW, MyInt(2)]"), ("list[int]", "collections.deque([1, True])"), ("list[int]", "MyList([1, 2])"),
    ("list[str]", "[S('a'), Color.RED]"), ("dict[int, float]", "{Level.LOW: Celsius(1.5), True: 2}"),
    ("dict[str, int]", "collections.OrderedDict([('a', True), (S('b'), Level.HIGH)])"), ("dict[str, int]", "MyDict(a=1)"),
    ("typing.Optional[int]", "False"), ("typing.Optional[float]", "Celsius(0.5)"), ("tuple[int, str]", "(True, S('x'))"),
    ("tuple[int, ...]", "(Level.LOW, True)"), ("set[int]", "{True, Level.HIGH}"), ("decimal.Decimal", "MyDec('1.5')"),
    ("Reading", "Reading(MyInt(7), Level.HIGH, Celsius(36.6), S('n'), [True, Level.LOW], {Level.LOW: 0.5}, False)"),
    ("list[Reading]", "[Reading(True, 2, 1, Color.RED, MyList([1]), MyDict(), None)]"),
    ("datetime.datetime", "pendulum.datetime(2020, 1, 2, 3, 4, 5) if pendulum else datetime.datetime(2020, 1, 2, tzinfo=datetime.timezone.utc)"),
    ("datetime.date", "pendulum.date(2020, 1, 2) if pendulum else datetime.date(2020, 1, 2)"),
    ("datetime.timedelta", "pendulum.duration(days=1, seconds=5) if pendulum else datetime.timedelta(days=1, seconds=5)"),
    ("typing.Union[int, str]", "True"), ("typing.Union[float, None]", "Celsius(2.5)"),
    # structured types WITHOUT fields (marker classes): still reduced to plain data, and not a catch-all member of a union
    ("Ping", "Ping()"), ("Pong", "Pong()"), ("list[Ping]", "[Ping(), Ping()]"), ("dict[str, Ping]", "{'a': Ping()}"),
    ("typing.Optional[Ping]", "Ping()"), ("typing.Union[Ping, datetime.date]", "datetime.date(2024, 2, 29)"),
    ("typing.Union[Ping, Stamp]", "Ping()"),
    ("Envelope", "Envelope('ping', Ping(), datetime.date(2024, 2, 29), [Ping()])"),
    ("ExtTD", "{'name': 'w', 'level': Level.HIGH, 'amount': decimal.Decimal('12.50'), 'when': datetime.date(2024, 2, 29), 'tags': ['a'], "
              "'counts': collections.OrderedDict(x=1)}"),
    ("Table", "Table([[decimal.Decimal('1.10')], (MyDec('2'),)], decimal.Decimal('3'), datetime.date(2024, 2, 29), datetime.date(2024, 3, 1), [decimal.Decimal('0')])"),
    ("list[Table]", "[Table([], MyDec('3'), None, decimal.Decimal('4'))]"),
    # subscripted iterables that are not Collections (Iterator / Generator / Reversible): members are marshalled by their type all the same
    ("typing.Iterator[datetime.date]", "iter([datetime.date(2020, 1, 1), datetime.date(2021, 2, 3)])"),
    ("typing.Generator[decimal.Decimal, None, None]", "(d for d in [decimal.Decimal('1.0'), MyDec('2.50')])"),
    ("typing.Reversible[datetime.date]", "[datetime.date(2020, 1, 1)]"), ("typing.Iterator[Stamp]", "iter([Stamp(datetime.date(2021, 2, 3))])"),
    ("typing.Iterator[int]", "iter([Level.LOW, True])"), ("typing.Iterator[typing.List[int]]", "iter([[1, 2], [3]])"),
    ("dict[str, typing.Iterator[datetime.date]]", "{'a': iter([datetime.date(2020, 1, 1)])}"),
    ("collections.abc.Iterator[datetime.date]", "iter([datetime.date(2020, 1, 1)])"),
    # the KEYS of a mapping given for a structured type: spelled with a str subclass or a str enum member, they name the same fields
    ("PlainTD", "{Key.A: 1, Key.NAME: 'n'}"), ("PlainTD", "{S('a'): True, S('name'): S('n')}"), ("list[PlainTD]", "[{Key.A: 1, 'name': 'n'}]"),
    ("dict[str, PlainTD]", "{Key.A: {S('a'): 1, Key.NAME: Color.RED}}"), ("typing.Optional[PlainTD]", "collections.OrderedDict([(Key.A, 1), (Key.NAME, 'n')])"),
    ("PlainTD", "CustomMap({Key.A: Level.LOW, S('name'): 'n'})"), ("Stamp", "{Key('a'): 1, S('on'): datetime.date(2024, 2, 29)}"),
    ("ExtTD", "{Key.NAME: 'w', S('level'): Level.HIGH, 'amount': decimal.Decimal('1'), 'when': datetime.date(2024, 2, 29), 'tags': [], 'counts': {S('k'): 1}}"),
    ("list[ExtTD]", "[{'name': S('w'), 'level': Level.LOW, 'amount': MyDec('1'), 'when': datetime.date(2024, 2, 29), 'tags': MyList(['a']), 'counts': {}}]"),
]


def _sub_child(job):
    import json as _json
    import sys
    import types
    import warnings
    warnings.simplefilter("ignore")
    import typelib
    mod = types.ModuleType("vm_c06_sub")
    sys.modules["vm_c06_sub"] = mod
    exec(SUB_PRELUDE, mod.__dict__)
    out = []
    for texpr, vexpr in job:
        T, v = eval(texpr, mod.__dict__), eval(vexpr, mod.__dict__)
        rec = {"t": texpr, "v": vexpr}
        try:
            m = typelib.marshal(v, t=T)
        except Exception as e:  # noqa: BLE001
            rec["err"] = f"{type(e).__name__}: {e}"[:160]
            out.append(rec)
            continue
        rec["shown"] = repr(m)[:160]
        bad = []
        why = core.plain_reason(m)
        if why:
            bad.append("not plain: " + why)
        try:
            _json.dumps(m)
        except Exception as e:  # noqa: BLE001
            bad.append(f"json.dumps rejects it: {type(e).__name__}")
        ids_in, ids_out = set(), set()
        core._walk_ids(v, ids_in)
        core._walk_ids(m, ids_out)
        if ids_in & ids_out:
            bad.append("shares a mutable container with the input")
        rec["bad"] = bad
        out.append(rec)
    return out


def check_subclass_instances(res):
    from .. import iso
    core.import_typelib()
    out = iso.map_isolated(_sub_child, [SUB_CASES], timeout=120)[0]
    if not isinstance(out, list):
        raise RuntimeError(f"harness: subclass probe failed: {out}")
    for rec in out:
        res.case({"ann": rec["t"], "value": rec["v"]}, True)
        inp = {"subclass_case": [rec["t"], rec["v"]]}
        if "err" in rec:
            # a valid subclass instance must be marshalled like an instance of the base class
            res.failures.append({"what": f"marshal of a valid subclass instance raised {rec['err']}", "input": inp})
        elif rec["bad"]:
            res.failures.append({"what": "; ".join(rec["bad"]) + f" (output {rec['shown']})", "input": inp})
        else:
            res.count("oracle:subclass-instance-plain-ok")


def witness(fid):
    return None


def replay(failure):
    inp = failure["input"]
    if "subclass_case" in inp:
        from .. import iso
        core.import_typelib()
        out = iso.map_isolated(_sub_child, [[tuple(inp["subclass_case"])]], timeout=60)[0]
        print(json.dumps(out, indent=1))
        return bool(out[0].get("err") or out[0].get("bad"))
    job = {"prog": inp["prog"], "ops": [{"op": "mar", "ty": inp["ty"], "val": inp["val"], "obs": ["plain"]}]}
    real, model = core.run_jobs([job])
    r_ = real[0][0]
    print(json.dumps({"annotation": inp["ann"], "value": inp["val"], "real": r_, "model": model[0][0]}, indent=1)[:3000])
    if "Literal" in failure["what"]:
        return "ok" in r_ or r_.get("err") != "value"
    return "ok" in r_ and bool(r_.get("plain") or r_.get("json") is not True or r_.get("deterministic") is False
                               or r_.get("shares_with_input") or r_.get("shares_between_calls") or r_.get("input_unmodified") is False)
