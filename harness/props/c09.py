"""C09 — The type graph is a complete dependency order with every cycle cut.

Real side (one forked child per synthesised program): `graph.static_order(root)` for many roots, and the ABSTRACT
annotation graph of everything reachable from the root, extracted from the real type objects with the real helpers
(`inspection.unwrap / isstdlibtype / isliteral / isunresolvable`, `graph._level`), ids assigned by `==` / hash exactly
like the `visited` set and graphlib identify objects.

  * correspondence: the Lean driver op `graph.order` (Model/Graph.lean: the BFS of get_type_graph + graphlib's
    insertion-ordered Kahn) runs on that extracted graph; its node sequence must equal the real one position by
    position — (type id, unwrapped id, var, cyclic, is-forward-reference); the extracted graph must satisfy the
    decidable well-formedness hypothesis `Graph.wf` of the theorems, the model's own sequence must pass the
    `checkTopo` certificate and the loop must finish within `Graph.fuelBound`;
  * oracle (no model, members recomputed with typing.get_args / typing.get_type_hints / dataclasses.fields):
    terminates, no duplicate node, last node = root, every node preceded by a node for each direct member, every
    ForwardRef node flagged cyclic, every flagged node a revisit, `refs.evaluate` of every deferred reference is exactly
    the member it stands for, string-valued alias = one deferred node, and str / ForwardRef / NewType / value-alias /
    repeated / un-memoised calls give the same sequence up to the root label.
"""
from __future__ import annotations

import hashlib
import itertools
import json

from .. import core, enc, iso, lean, universe
from ..runner import Result

ID = "C09"
LEVEL = "proof"
LEVEL_TEXT = ("Kernel-checked theorems over ALL finite annotation graphs (no bound on size) about an executable model of "
              "get_type_graph's breadth-first loop and of graphlib's static_order: C09.build_terminates (the loop finishes "
              "within the explicit bound Graph.fuelBound, under the decidable hypothesis Graph.wf: every cycle of the member "
              "relation passes through a named or qualified (ClassVar[C] / Final[C]) non-stdlib type, members of stdlib types are stdlib, unwrap idempotent; "
              "loop_diverges + loopG_not_wf + qualified_needed (class A: x: ClassVar[A] before 9671f4f): the hypothesis is necessary), edges_acyclic (the edges handed to graphlib have no "
              "cycle, so CycleError is impossible; stdClosed_needed: a cycle at the shape of the isstdlibtype defects repaired by "
              "612940b / f6f9920), alias_root_same_graph (NewType / value-alias root vs the type it stands for: same add calls up "
              "to the root label), leaf_root_single (string-valued alias: one node), and for ANY topological order o of the produced edges (IsTopoOrder, "
              "graphlib's contract; checkTopo_sound: the certificate evaluated on every sequence the model reports is sound): "
              "order_nodup, root_last, members_precede, ref_iff_flagged_named / ref_flagged (a node is deferred by a forward reference — in `type`, or "
              "for a qualified class in `unwrapped` only — iff flagged cyclic and its type is cuttable), flagged_revisit (every flagged node revisits a type that "
              "has an unflagged walked node in the sequence), deferred_denotes (every deferred node carries exactly the name "
              "and type id of a member of a later node; uref rule). Model tied to /repo per run by an exact node-sequence "
              "correspondence on annotation graphs EXTRACTED from the real objects with the real helpers, plus an independent "
              "oracle on the real node list.")
LEVEL_NOTE = ("Trusted: Lean kernel; axioms propext, Classical.choice, Quot.sound; the hand-written model Model/Graph.lean "
              "(tied by correspondence, not verified); that graphlib returns a topological order of the edges it is given "
              "(the model's insertion-ordered Kahn is compared exactly with graphlib's output on every case and its output is "
              "certificate-checked, but its correctness for all graphs is not proved); the harness (graph extraction, oracle). "
              "Not proved, observed by the oracle only: what a type's members ARE (inspection.* / typing), that "
              "refs.evaluate(ForwardRef(child)) is the child object (name resolution), the spelling-invariance clause "
              "(str / ForwardRef / NewType / alias / memoised roots), unhashable annotations.")
TECHNIQUE = ("Lean 4 proofs over an executable model (BFS with explicit visited list / FIFO queue / fuel over an abstract "
             "annotation graph; loop invariants, a potential function for termination, a 4-class rank for acyclicity) + "
             "graph extraction from the real objects, exact differential correspondence and an independent invariant oracle "
             "in forked children")
DESIGN_REF = "DESIGN.md §5 C09"
MODULES = ["TypelibModel.Props.C09"]
TABLES = False
RULE = ("programs = (0) per edge kind the two shapes of the fix history (Head -> LNode -> LNode through the same annotation under "
        "the same field name; a self-referential class, its field annotation also as root); (a) every adjacency structure (self loops included) over 1-2 synthesised classes and a sample (quick) / all "
        "512 (thorough) over 3, a sample over 4, every DAG (strict upper triangle: sharing) over 3 and over 4 (a sample in quick); "
        "every edge drawn from {Optional[X], X | None, list[X], dict[str, X], "
        "tuple[X, ...], X itself, ClassVar[X], Final[X], Final[Optional[X]], ClassVar[list[X]] (dataclass / plain classes only), NewType of X, TypeAliasType of X, TypeAliasType of list[X], string-valued TypeAliasType of X / "
        "of list[X]}, field names chosen per target so that equal (name, annotation) pairs recur in different classes, optional "
        "second edge to the same target, class flavours dataclass / NamedTuple / TypedDict / plain, nested qualnames, "
        "same-named classes in two modules; (b) universe.Gen programs with g.ty(depth) annotations. Roots: every class, every "
        "class inside every container kind (sampled in quick), every alias, generated annotations; each root also through a "
        "fresh NewType and a fresh value alias, by dotted name, by ForwardRef, repeated and un-memoised. One forked child per "
        "program. A case = one (program, root); non-trivial when the sequence has more than one node; distinct = distinct "
        "(program, root).")
ASSUMPTIONS = [
    "annotations are hashable (an unhashable one raises TypeError at graph.py:138 before anything is built)",
    "the annotation graph handed to the model is extracted by the real inspection.* / graph._level helpers: what the members of a "
    "type are is outside the theorems (the oracle recomputes them with typing / dataclasses)",
    "graphlib.TopologicalSorter.static_order returns a topological order of the edges it was given (IsTopoOrder hypothesis); the "
    "exact order is compared with the model's Kahn on every case",
    "no two distinct classes of a program share module and qualified name (ForwardRef equality is by name and module)",
]
TRUSTED = ["harness/props/c09.py (program synthesis, graph extraction, oracle)", "lean/TypelibModel/Drv/Graph.lean (driver glue)",
           "hand-written model Model/Graph.lean tied to graph.py by this correspondence"]

FIELD_ONLY = ["classvar", "final", "final_optional", "classvar_list"]     # legal at the top of a field annotation only
EDGE_KINDS = FIELD_ONLY + ["optional", "pipe", "none_first", "pipe_none_first", "union_alias", "union_newtype", "list", "dict", "vartuple", "direct", "newtype", "alias", "alias_generic", "aliasstr",
              "aliasstr_generic"]
CONTAINERS = ["optional", "pipe", "none_first", "pipe_none_first", "list", "dict", "vartuple", "tuple2", "nested"]
FLAVOURS = ["dataclass", "dataclass", "dataclass", "namedtuple", "typeddict", "plain"]


# ----------------------------------------------------------------------------------------------- program synthesis

def _alias(prog, kind, target, module):
    # the same alias object is reused for the same (kind, body): two fields then carry the very same annotation
    for name, a in prog["aliases"].items():
        if a["kind"] == kind and a["target"] == target and a.get("reuse"):
            return ["wrap", "newtype" if kind == "newtype" else "alias", target, {"name": name}]
    name = f"{'NT' if kind == 'newtype' else 'AL'}{len(prog['aliases'])}"
    prog["aliases"][name] = {"name": name, "module": module, "kind": kind, "target": target,
                             "reuse": prog.get("reuse_aliases", False)}
    return ["wrap", "newtype" if kind == "newtype" else "alias", target, {"name": name}]


def edge_type(kind, j, prog, module, flavour="dataclass"):
    target = ["cls", j]
    if kind in FIELD_ONLY and flavour not in ("dataclass", "plain"):
        kind = "optional"        # ClassVar / Final are not legal in NamedTuple / TypedDict fields
    if kind == "classvar":
        return ["wrap", "classvar", target]
    if kind == "final":
        return ["wrap", "final", target]
    if kind == "final_optional":
        return ["wrap", "final", ["union", [target, ["none"]], {"sp": "optional"}]]
    if kind == "classvar_list":
        return ["wrap", "classvar", ["coll", "list", target, {"sp": "builtin"}]]
    if kind == "optional":
        return ["union", [target, ["none"]], {"sp": "optional"}]
    if kind == "pipe":
        return ["union", [target, ["none"]], {"sp": "pipe"}]
    if kind == "none_first":
        return ["union", [["none"], target], {"sp": "typing"}]
    if kind == "pipe_none_first":
        return ["union", [["none"], target], {"sp": "pipe"}]
    if kind == "union_alias":        # Union[Alias(Optional[X]), int]: a union hidden behind a value alias
        return ["union", [_alias(prog, "alias", ["union", [target, ["none"]], {"sp": "optional"}], module), ["int"]],
                {"sp": "typing"}]
    if kind == "union_newtype":      # Union[NewType(X), None, str]
        return ["union", [_alias(prog, "newtype", target, module), ["none"], ["str"]], {"sp": "typing"}]
    if kind == "list":
        return ["coll", "list", target, {"sp": "builtin"}]
    if kind == "dict":
        return ["dict", ["str"], target, {"sp": "builtin"}]
    if kind == "vartuple":
        return ["coll", "vartuple", target]
    if kind == "direct":
        return target
    if kind == "newtype":
        return _alias(prog, "newtype", target, module)
    if kind == "alias":
        return _alias(prog, "alias", target, module)
    if kind == "alias_generic":
        return _alias(prog, "alias", ["coll", "list", target, {"sp": "builtin"}], module)
    if kind == "aliasstr":
        return _alias(prog, "aliasstr", target, module)
    if kind == "aliasstr_generic":
        return _alias(prog, "aliasstr", ["coll", "list", target, {"sp": "builtin"}], module)
    raise ValueError(kind)


def container(kind, inner):
    if kind == "optional":
        return ["union", [inner, ["none"]], {"sp": "optional"}]
    if kind == "pipe":
        return ["union", [inner, ["none"]], {"sp": "pipe"}]
    if kind == "none_first":
        return ["union", [["none"], inner], {"sp": "typing"}]
    if kind == "pipe_none_first":
        return ["union", [["none"], inner], {"sp": "pipe"}]
    if kind == "list":
        return ["coll", "list", inner, {"sp": "builtin"}]
    if kind == "dict":
        return ["dict", ["str"], inner, {"sp": "builtin"}]
    if kind == "vartuple":
        return ["coll", "vartuple", inner]
    if kind == "tuple2":
        return ["tuple", [inner, inner], {"sp": "builtin"}]
    if kind == "nested":
        return ["dict", ["str"], ["coll", "list", inner, {"sp": "builtin"}], {"sp": "builtin"}]
    raise ValueError(kind)


def topo_program(k, adj, rng, tag, style):
    """k classes, adj = set of (i, j) edges (class i has a field whose annotation mentions class j)."""
    prog = {"classes": [], "aliases": {}, "reuse_aliases": rng.random() < 0.6}
    two_mods = style in ("samename", "multimod")
    mods = [f"vm_{tag}_a", f"vm_{tag}_b"] if two_mods else [f"vm_{tag}_a"]
    for i in range(k):
        module = mods[i % len(mods)]
        name = "Node" if (style == "samename" and i < 2) else f"Node{i}"
        qual = f"Outer{i}.{name}" if (style == "nested" and i % 2 == 0) else name
        kind = rng.choice(FLAVOURS)
        prog["classes"].append({"id": i, "name": name, "qualname": qual, "module": module, "kind": kind, "opts": [],
                                "fields": [], "required": [], "defaults": [], "members": [], "mixin": "none"})
    kinds_used = []
    for i in range(k):
        c = prog["classes"][i]
        fields = []
        for j in range(k):
            if (i, j) not in adj:
                continue
            ek = rng.choice(EDGE_KINDS)
            kinds_used.append(ek)
            # the field name depends on the target only: equal (name, annotation) pairs recur across classes
            fields.append([f"t{j}", edge_type(ek, j, prog, c["module"], c["kind"])])
            if rng.random() < 0.3:
                ek2 = rng.choice(EDGE_KINDS)
                kinds_used.append(ek2)
                fields.append([f"u{j}", edge_type(ek2, j, prog, c["module"], c["kind"])])
        if rng.random() < 0.5 or not fields:
            fields.append(["val", [rng.choice(["int", "str", "date", "decimal"])]])
        if rng.random() < 0.15:
            fields.append(["opt", ["union", [["int"], ["none"]], {"sp": "optional"}]])
        c["fields"] = fields
        c["required"] = [f for f, _ in fields]
    return prog, kinds_used


def roots_for(prog, rng, all_containers):
    roots = []
    for c in prog["classes"]:
        if c["kind"] == "enum":
            continue
        roots.append({"ty": ["cls", c["id"]], "kind": "class"})
        kinds = CONTAINERS if all_containers else rng.sample(CONTAINERS, 2)
        for ck in kinds:
            roots.append({"ty": container(ck, ["cls", c["id"]]), "kind": "in:" + ck})
    for name, a in prog["aliases"].items():
        w = "newtype" if a["kind"] == "newtype" else "alias"
        roots.append({"ty": ["wrap", w, a["target"], {"name": name}], "kind": "root-" + a["kind"]})
    return roots


def all_adj(k):
    pairs = [(i, j) for i in range(k) for j in range(k)]
    for bits in itertools.product((0, 1), repeat=len(pairs)):
        yield {p for p, b in zip(pairs, bits) if b}


def all_dags(k):
    pairs = [(i, j) for i in range(k) for j in range(i + 1, k)]
    for bits in itertools.product((0, 1), repeat=len(pairs)):
        yield {p for p, b in zip(pairs, bits) if b}


def is_cyclic(k, adj):
    reach = {i: {j for (a, j) in adj if a == i} for i in range(k)}
    for _ in range(k):
        for i in range(k):
            for j in list(reach[i]):
                reach[i] |= reach[j]
    return any(i in reach[i] for i in range(k))


GENERIC_SRC = """
from __future__ import annotations
import dataclasses, typing
T = typing.TypeVar("T"); K = typing.TypeVar("K"); V = typing.TypeVar("V")
@dataclasses.dataclass
class Item:
    x: int
@dataclasses.dataclass
class Page(typing.Generic[T]):
    items: typing.List[T]
    n: int = 0
@dataclasses.dataclass
class Pair(typing.Generic[K, V]):
    key: K
    value: V
@dataclasses.dataclass
class Report:
    first: Page[Item]
    second: Page[Item]
    third: Page[int]
    pair: Pair[str, Item]
    again: typing.Optional[Pair[str, Item]] = None
@dataclasses.dataclass
class Tree:
    kids: typing.Dict[str, Pair[str, Tree]]
    more: typing.List[Pair[str, Tree]]
    page: typing.Optional[Page[Tree]] = None
@dataclasses.dataclass
class Book:
    a: Page[Page[Item]]
    b: typing.List[Page[Page[Item]]]
    c: Page[Item]
"""


def generic_job():
    """User-defined generic classes, the same parametrisation reached several times (fields, sharing, cycles)."""
    roots = ["Report", "Tree", "Book", "typing.List[Report]", "typing.Optional[Tree]", "typing.Dict[str, Book]", "Page[Item]",
             "Pair[str, Tree]", "typing.Tuple[Page[Item], Page[Item], Page[int]]"]
    return {"prog": {"src": GENERIC_SRC, "module": "vm_c09_generic"}, "roots": [{"ty": ["expr", e], "kind": "generic"} for e in roots],
            "family": "generic", "meta": {}}


GENALIAS_SRC = """
from __future__ import annotations
import dataclasses, typing
type Pair[T] = tuple[T, T]
type Box[T] = dict[str, T]
type Rows[K, V] = list[dict[K, V]]
@dataclasses.dataclass
class Node:
    x: int
@dataclasses.dataclass
class Other:
    y: str
@dataclasses.dataclass
class Holder:
    first: Pair[Node]
    second: Pair[Other]
    third: Box[Node]
    again: Pair[Node]
@dataclasses.dataclass
class Tree:
    kids: Box[Tree]
    pair: typing.Optional[Pair[Tree]] = None
"""


TVBOUND_SRC = """
import dataclasses, typing
@dataclasses.dataclass
class Leaf:
    x: int
@dataclasses.dataclass
class Branch:
    kids: typing.List[Leaf]
ClassT = typing.TypeVar("ClassT", bound=Leaf)
UnionT = typing.TypeVar("UnionT", bound=typing.Union[Leaf, Branch])
OptionalT = typing.TypeVar("OptionalT", bound=typing.Optional[Branch])
ListT = typing.TypeVar("ListT", bound=typing.List[Leaf])
LeafId = typing.NewType("LeafId", Leaf)
NewTypeT = typing.TypeVar("NewTypeT", bound=LeafId)
CnT = typing.TypeVar("CnT", Leaf, str)
@dataclasses.dataclass
class UnionBox(typing.Generic[UnionT]):
    item: UnionT
    named: typing.Dict[str, UnionT]
@dataclasses.dataclass
class ClassBox(typing.Generic[ClassT]):
    item: ClassT
"""


def tvbound_job():
    """TypeVars stand for their bound (a class, a union, an Optional, a parametrised generic, a NewType) or the union of their
    constraints: the type they stand for is a member like any other and has a node before the node that contains it."""
    roots = ["list[ClassT]", "list[UnionT]", "dict[str, OptionalT]", "tuple[ListT, int]", "set[NewTypeT]", "typing.Optional[list[UnionT]]",
             "list[CnT]", "tuple[UnionT, ListT]", "dict[str, list[NewTypeT]]"]
    return {"prog": {"src": TVBOUND_SRC, "module": "vm_c09_tvbound"}, "roots": [{"ty": ["expr", e], "kind": "typevar-bound"} for e in roots],
            "family": "tvbound", "meta": {}}


def genalias_job():
    """PEP 695 generic aliases, subscripted: a node like any other, preceded by its arguments; two parametrisations of one alias
    are two types, and a deferred node for one denotes it parameters included."""
    roots = ["Pair[Node]", "list[Box[Other]]", "Holder", "Pair[int]", "dict[str, Pair[Other]]", "typing.Optional[Box[Node]]", "Tree",
             "Rows[str, Node]", "tuple[Pair[Node], Pair[Other], Pair[Node]]", "list[Holder]"]
    return {"prog": {"src": GENALIAS_SRC, "module": "vm_c09_genalias"}, "roots": [{"ty": ["expr", e], "kind": "generic-alias"} for e in roots],
            "family": "genalias", "meta": {}}


FORMNAME_SRC = """
from __future__ import annotations
import dataclasses, typing
@dataclasses.dataclass
class Span:
    start: int
    end: int
@dataclasses.dataclass
class Literal:
    # a user class that happens to be called like a typing form (an AST model: Expr = BinOp | Literal)
    value: typing.Union[int, str]
    span: Span
@dataclasses.dataclass
class Final:
    inner: Literal
@dataclasses.dataclass
class Annotated:
    by: typing.List[Span]
@dataclasses.dataclass
class BinOp:
    left: typing.Union[BinOp, Literal]
    right: typing.Optional[Final] = None
    notes: typing.Optional[Annotated] = None
"""


def formname_job():
    """User classes NAMED like typing's special forms: they are structured classes, walked member by member."""
    roots = ["Literal", "Final", "Annotated", "BinOp", "list[Literal]", "dict[str, typing.Optional[Literal]]", "typing.Union[Literal, Span]",
             "tuple[Final, Annotated]"]
    return {"prog": {"src": FORMNAME_SRC, "module": "vm_c09_formname"}, "roots": [{"ty": ["expr", e], "kind": "form-named-class"} for e in roots],
            "family": "formname", "meta": {}}


FWDARG_SRC = """
from __future__ import annotations
import dataclasses, typing
from typing import Literal
@dataclasses.dataclass
class Item:
    x: int
@dataclasses.dataclass
class Node:
    value: int
    kids: typing.List[Node]
    item: typing.Optional[Item] = None
@dataclasses.dataclass
class Ping:
    pong: typing.Optional[Pong] = None
@dataclasses.dataclass
class Pong:
    ping: typing.Optional[Ping] = None
    items: typing.Dict[str, Item] = dataclasses.field(default_factory=dict)
IntList = list[int]
Mode = typing.Literal["r", "w"]
def R(text):
    return typing.ForwardRef(text, module="vm_c09_fwdarg")
"""


# Decoys: THIS module (the one that calls the library) binds the names used by the reference jobs to unrelated objects. A reference
# carries its own module; what the calling module calls `Item` is irrelevant.
class _Decoy:
    wrong = True


Item = Node = Ping = Pong = IntList = Mode = Leaf = Tree = Order = Customer = Seg = Forest = Point = _Decoy


def fwdarg_job():
    """A ForwardRef(module=...) as ARGUMENT of a generic, naming a class, a recursive class, a type expression, a module
    variable holding an anonymous type: a member like any other (its node is the evaluated type with its own members)."""
    roots = ["list[R('Item')]", "dict[str, R('Item')]", "list[R('list[int]')]", "tuple[int, R('dict[str, Node]')]", "typing.Optional[R('Node')]",
             "list[R('Node')]", "dict[str, R('IntList')]", "list[R('Mode')]", "list[R(\"Literal['r', 'w']\")]", "typing.Union[R('Ping'), R('Pong'), None]",
             "tuple[R('Ping'), R('Pong')]", "list[R('Item | None')]", "dict[str, list[R('tuple[Item, Item]')]]", "typing.List[R('Item')]",
             "tuple[R('Item'), R('Item')]", "list[R('typing.Optional[Node]')]"]
    return {"prog": {"src": FWDARG_SRC, "module": "vm_c09_fwdarg"}, "roots": [{"ty": ["expr", e], "kind": "fwdarg"} for e in roots],
            "family": "fwdarg", "meta": {}}


SHADOW_SRC = """
from __future__ import annotations
import dataclasses, typing
class vm_c09_shadow:
    # an outer class NAMED LIKE ITS MODULE: the qualified names of the classes inside start with the module's name
    @dataclasses.dataclass
    class Point:
        x: int = 0
    @dataclasses.dataclass
    class Node:
        value: int
        kids: typing.List[vm_c09_shadow.Node]
        at: typing.Optional[vm_c09_shadow.Point] = None
@dataclasses.dataclass
class Seg:
    a: vm_c09_shadow.Point
    b: vm_c09_shadow.Point
@dataclasses.dataclass
class Forest:
    first: vm_c09_shadow.Node
    rest: typing.List[vm_c09_shadow.Node]
"""


def shadow_job():
    roots = ["Seg", "typing.List[Seg]", "Forest", "vm_c09_shadow.Node", "typing.Optional[vm_c09_shadow.Node]",
             "typing.Tuple[vm_c09_shadow.Point, vm_c09_shadow.Point]", "typing.Dict[str, Forest]"]
    return {"prog": {"src": SHADOW_SRC, "module": "vm_c09_shadow"}, "roots": [{"ty": ["expr", e], "kind": "shadow"} for e in roots],
            "family": "outer-class-named-like-module", "meta": {}}


REDEF_V1 = """
import dataclasses, typing
class Leaf:
    def __init__(self, weight: 'int'):
        self.weight = weight
class Tree:
    def __init__(self, leaf: 'Leaf', kids: 'typing.List[Tree]'):
        self.leaf, self.kids = leaf, kids
class Order:
    def __init__(self, name: 'str', customer: 'Customer', lines: 'typing.Tuple[str, ...]' = ()):
        self.name, self.customer, self.lines = name, customer, lines
"""
REDEF_V2 = """
import dataclasses, typing
class Leaf:
    def __init__(self, label: 'str', ratio: 'float'):
        self.label, self.ratio = label, ratio
class Tree:
    def __init__(self, leaf: 'Leaf', kids: 'typing.List[Tree]'):
        self.leaf, self.kids = leaf, kids
@dataclasses.dataclass
class Customer:
    name: str
class Order:
    def __init__(self, name: 'str', customer: 'Customer', lines: 'typing.Tuple[str, ...]' = ()):
        self.name, self.customer, self.lines = name, customer, lines
"""


def redefinition_job():
    """Classes annotated on __init__ with strings, walked once, then DEFINED AGAIN under the same names in the same module name (a
    reload, a notebook cell run twice) -- and a member that did not exist at the first walk: the graph of the new classes is made of
    the new classes (a reference is a name, what it names is looked up at each walk)."""
    return {"prog": {"src": REDEF_V2, "module": "vm_c09_redef", "pre_src": REDEF_V1, "pre_roots": ["Tree", "typing.Dict[str, Order]", "Order"]},
            "roots": [{"ty": ["expr", e], "kind": "redefined"} for e in ("Tree", "Order", "typing.List[Tree]", "typing.Dict[str, Order]")],
            "family": "redefined-classes", "meta": {}}


def build_jobs(ctx):
    rng = ctx.rng
    jobs = []
    quick = ctx.tier == "quick"
    topo = []
    for k in (1, 2):
        topo += [(k, adj) for adj in all_adj(k)]
    three = [(3, adj) for adj in all_adj(3)]
    pairs4 = [(i, j) for i in range(4) for j in range(4)]
    # DAGs with sharing: every subset of the strict upper triangle (3 classes: all 8; 4 classes: all 64 / a sample)
    topo += [(3, adj) for adj in all_dags(3)]
    dags4 = [(4, adj) for adj in all_dags(4)]
    if quick:
        topo += rng.sample(three, min(len(three), ctx.n(280, 512)))
        topo += rng.sample(dags4, min(len(dags4), ctx.n(16, 64)))
        for _ in range(ctx.n(10, 0)):
            topo.append((4, {p for p in pairs4 if rng.random() < 0.25}))
    else:
        topo += three + dags4
        for _ in range(ctx.n(0, 500)):
            topo.append((4, {p for p in pairs4 if rng.random() < 0.3}))
    # fixed shapes from the fix history of graph.py, one per edge kind: Head -> LNode -> LNode through the SAME annotation
    # under the SAME field name, and a self-referential class whose field annotation is also the root
    for n, ek in enumerate(EDGE_KINDS):
        for shape in ("head", "self"):
            prog = {"classes": [], "aliases": {}, "reuse_aliases": True}
            names = ["Head", "LNode"] if shape == "head" else ["Node"]
            for i, nm in enumerate(names):
                prog["classes"].append({"id": i, "name": nm, "qualname": nm, "module": f"vm_f{n}{shape}_a", "kind": "dataclass",
                                        "opts": [], "fields": [], "required": [], "defaults": [], "members": [], "mixin": "none"})
            tgt = len(names) - 1
            for c in prog["classes"]:
                c["fields"] = [["x", edge_type(ek, tgt, prog, c["module"])]]
                c["required"] = ["x"]
            roots = roots_for(prog, rng, True) + [{"ty": prog["classes"][0]["fields"][0][1], "kind": "field-annotation"}]
            jobs.append({"prog": prog, "roots": roots, "family": "fixed",
                         "meta": {"k": len(names), "edges": len(names), "cyclic": True, "style": "plain", "edge_kinds": [ek]}})
    for n, (k, adj) in enumerate(topo):
        style = rng.choice(["plain", "plain", "nested", "samename", "multimod"])
        prog, kinds_used = topo_program(k, adj, rng, f"t{n}", style)
        jobs.append({"prog": prog, "roots": roots_for(prog, rng, not quick or k < 3), "family": "topology",
                     "meta": {"k": k, "edges": len(adj), "cyclic": is_cyclic(k, adj), "style": style,
                              "edge_kinds": sorted(set(kinds_used))}})
    for n in range(ctx.n(280, 1500)):
        g = universe.Gen(rng, universe.Cfg(any_ok=True, classes=(0, 3), enums=(0, 1)))
        prog = g.program(f"u{n}")
        roots = [{"ty": g.ty(3), "kind": "annotation"} for _ in range(4)]
        roots += [{"ty": ["cls", cid], "kind": "class"} for cid in g.struct_ids]
        roots += [{"ty": container(rng.choice(CONTAINERS), ["cls", cid]), "kind": "in:container"} for cid in g.struct_ids]
        # aliases are registered while annotations are generated: the program is complete only now
        jobs.append({"prog": prog, "roots": roots, "family": "universe", "meta": {"k": len(g.struct_ids)}})
    for inp in (ctx.focus or [])[:30]:
        if isinstance(inp, dict) and "prog" in inp and "root" in inp:
            jobs.append({"prog": inp["prog"], "roots": [inp["root"]], "family": "focus", "meta": {}})
    jobs.append(generic_job())
    jobs.append(genalias_job())
    jobs.append(tvbound_job())
    jobs.append(formname_job())
    jobs.append(fwdarg_job())
    jobs.append(shadow_job())
    jobs.append(redefinition_job())
    return jobs


# ----------------------------------------------------------------------------------------------- real side (child)

class _Skip(Exception):
    pass


class _Timeout(BaseException):
    pass


LOOP_LIMIT = {"s": 2.0}       # CPU seconds of the child; a walk of these graphs takes milliseconds


def with_alarm(fn):
    """Run fn() under a limit on the CPU time of this process (SIGVTALRM, immune to a loaded machine): a walk that
    does not terminate becomes an observation instead of a dead child.  A timeout seen in a shared child is
    confirmed by the parent in a fresh fork with a 5 s limit before it counts (at most 12 of them per run: each one is a failing input)."""
    import signal

    def handler(sig, frame):
        raise _Timeout()

    old = signal.signal(signal.SIGVTALRM, handler)
    signal.setitimer(signal.ITIMER_VIRTUAL, LOOP_LIMIT["s"])
    try:
        return fn()
    finally:
        signal.setitimer(signal.ITIMER_VIRTUAL, 0)
        signal.signal(signal.SIGVTALRM, old)


def extract(T, cap=400):
    """The abstract annotation graph reachable from T, by the real helpers; ids by == / hash."""
    import inspect
    import typing
    from typelib import constants, graph
    from typelib.py import inspection, refs
    ids, order, child_ids = {}, [], set()

    def tid(t):
        try:
            if t in ids:
                return ids[t]
        except TypeError:
            raise _Skip("unhashable")
        ids[t] = len(order)
        order.append(t)
        return ids[t]

    root = tid(T)
    child_ids.add(root)
    infos = []
    i = 0
    while i < len(order):
        if i >= cap:
            raise _Skip("too-big")
        t = order[i]
        u = inspection.unwrap(t)
        named = bool(inspect.isclass(t) or inspection.istypealiastype(t) or hasattr(t, "__supertype__"))
        leaf = bool(inspection.isliteral(u) or inspection.isunresolvable(u))
        kids = []
        if not leaf:
            for var, child in graph._level(u):
                if child in (constants.empty, typing.Any):
                    continue
                # a member given as a reference (a string hint taken from a signature, a ForwardRef argument of a generic) names the
                # type it evaluates to
                if type(child) is typing.ForwardRef:
                    try:
                        child = refs.evaluate(child)
                    except (NameError, AttributeError, TypeError, SyntaxError):
                        pass
                cid = tid(child)
                child_ids.add(cid)
                kids.append([var, cid])
        infos.append({"named": named, "qualified": bool((not named) and (u is not t) and inspect.isclass(u)), "stdlib": bool(inspection.isstdlibtype(u)), "leaf": leaf, "unw": tid(u),
                      "ucls": bool(inspect.isclass(u)), "kids": kids})
        i += 1
    return infos, ids, child_ids, root


def node_view(n, ids, child_ids, infos):
    """A real TypeNode in the model's alphabet: [type id, unwrapped id, var, cyclic, deferred-by-reference, qual].
    deferred: `type` is a ForwardRef built by graph.py (qual False), or `type` is the annotation itself and only
    `unwrapped` is such a ForwardRef (qual True; recognised by `unwrapped` not being unwrap(type))."""
    import typing
    from typelib.py import refs

    def ident(x):
        try:
            return ids.get(x, -1)
        except TypeError:
            return -1

    t = n.type
    if type(t) is typing.ForwardRef and not (ident(t) in child_ids):
        try:
            e, eu = refs.evaluate(t), refs.evaluate(n.unwrapped)
        except BaseException as ex:  # noqa: BLE001
            return ["unresolved", repr(t), f"{type(ex).__name__}: {ex}"[:120], bool(n.cyclic), True, False]
        return [ident(e), ident(eu), n.var, bool(n.cyclic), True, False]
    ti = ident(t)
    if type(n.unwrapped) is typing.ForwardRef and ti >= 0 and ident(n.unwrapped) != infos[ti]["unw"]:
        try:
            eu = refs.evaluate(n.unwrapped)
        except BaseException as ex:  # noqa: BLE001
            return [ti, "unresolved:" + repr(n.unwrapped), n.var, bool(n.cyclic), True, True]
        return [ti, ident(eu), n.var, bool(n.cyclic), True, True]
    return [ti, ident(n.unwrapped), n.var, bool(n.cyclic), False, False]


# ---- independent oracle (nothing of typelib except refs.evaluate for the deferred_denotes clause) ----

def o_unwrap(t):
    import typing
    for _ in range(64):
        if isinstance(t, typing.TypeAliasType):
            v = t.__value__
            if isinstance(v, str):
                return ("<string alias>", v)
            t = v
            continue
        if hasattr(t, "__supertype__"):
            t = t.__supertype__
            continue
        if typing.get_origin(t) in (typing.Final, typing.ClassVar) and typing.get_args(t):
            t = typing.get_args(t)[0]
            continue
        return t
    return t


def o_members(t):
    """Direct members of an annotation: generic arguments, then field types of a class (typing / dataclasses only)."""
    import collections.abc
    import dataclasses
    import inspect
    import typing
    u = o_unwrap(t)
    if isinstance(u, tuple) or isinstance(u, (str, typing.ForwardRef)):
        return []
    og = typing.get_origin(u)
    if og is typing.Literal or og is collections.abc.Callable or u is typing.Any:
        return []
    ms = [(None, a) for a in typing.get_args(u)]
    if inspect.isclass(u):
        try:
            hints = typing.get_type_hints(u)
        except Exception:  # noqa: BLE001
            hints = {}
        if dataclasses.is_dataclass(u):
            names = [f.name for f in dataclasses.fields(u)]
            ms += [(k, hints[k]) for k in names if k in hints] + [(k, h) for k, h in hints.items() if k not in names]
        elif "__annotations__" in vars(u) or hasattr(u, "_fields") or hasattr(u, "__required_keys__"):
            ms += list(hints.items())
        elif not hints and inspect.isfunction(vars(u).get("__init__")):
            # a class annotated on its constructor only: the parameters are its fields
            try:
                ms += [(k, h) for k, h in typing.get_type_hints(u.__init__).items() if k != "return"]
            except Exception:  # noqa: BLE001
                pass
    # a TypeVar stands for its bound / the union of its constraints (a free one for Any: no member)
    # (as a generic ARGUMENT; a field annotated with a TypeVar has a node of the TypeVar itself, which this oracle does not follow)
    ms = [(v, (m.__bound__ if m.__bound__ is not None else typing.Union[m.__constraints__] if m.__constraints__ else typing.Any)
           if isinstance(m, typing.TypeVar) and v is None else m) for v, m in ms]
    return [(v, o_deref(m)) for v, m in ms if m is not typing.Any and not isinstance(m, typing.TypeVar)]


def o_deref(m):
    """A member spelled as a reference with a module denotes what its text evaluates to there (Python's own eval, not the library's)."""
    import sys
    import typing
    if type(m) is typing.ForwardRef and m.__forward_module__ in sys.modules:
        try:
            return eval(m.__forward_arg__, vars(sys.modules[m.__forward_module__]))
        except Exception:  # noqa: BLE001
            return m
    return m


def oracle(seq, T, refs):
    import typing
    bad = []

    def denote(n):
        if type(n.type) is typing.ForwardRef and n.cyclic:
            return refs.evaluate(n.type)
        return n.type

    n_nodes = len(seq)
    if n_nodes == 0:
        return ["empty sequence"]
    if len(set(seq)) != n_nodes:
        bad.append("duplicate node")
    last = seq[-1]
    if not (last.type == T and last.var is None and last.cyclic is False):
        bad.append(f"last node is not the root: {last!r}")
    den = []
    for n in seq:
        try:
            den.append(denote(n))
        except BaseException as e:  # noqa: BLE001
            den.append(("<unresolvable>", repr(n.type)))
            bad.append(f"deferred node does not evaluate: {n.type!r}: {type(e).__name__}: {e}"[:200])
    def udeferred(n):
        """`type` is the annotation itself, `unwrapped` a forward reference built by graph.py (not what unwrapping a
        string-valued alias gives)."""
        if type(n.type) is typing.ForwardRef or type(n.unwrapped) is not typing.ForwardRef:
            return False
        u = o_unwrap(n.type)
        return not isinstance(u, tuple) and type(u) is not typing.ForwardRef

    udef = [udeferred(n) for n in seq]
    # a deferred node is not walked: nothing is required before it
    members = [[] if ((type(n.type) is typing.ForwardRef or ud) and n.cyclic) else o_members(d)
               for n, d, ud in zip(seq, den, udef)]
    for i, n in enumerate(seq):
        is_ref = type(n.type) is typing.ForwardRef
        if (is_ref or udef[i]) and not n.cyclic and n.type != T:
            bad.append(f"forward-reference node not flagged cyclic: {n!r}")
        # members precede
        for v, m in members[i]:
            if not any(den[j] == m for j in range(i)):
                bad.append(f"member {v}: {m!r} of {n.type!r} has no node before it")
        if n.cyclic:
            # a flagged node is a revisit: an unflagged node of the same type (up to unwrapping) exists
            u = o_unwrap(den[i])
            if not any((not seq[j].cyclic) and j != i and o_unwrap(den[j]) == u for j in range(n_nodes)):
                bad.append(f"flagged node is not a revisit: {n!r}")
            # it stands for exactly one member of a later node (parameters included)
            hit = False
            for j in range(i + 1, n_nodes):
                for v, m in members[j]:
                    if m == den[i] and (n.var is None or v is None or v == n.var):
                        hit = True
            if not hit:
                bad.append(f"deferred node {n!r} denotes {den[i]!r}, which is no member of any later node")
            if is_ref or udef[i]:
                try:
                    eu = refs.evaluate(n.unwrapped)
                except BaseException as e:  # noqa: BLE001
                    eu = ("<unresolvable>",)
                want = u if (isinstance(u, type) or udef[i]) else den[i]
                if eu != want:
                    bad.append(f"deferred node {n!r}: unwrapped evaluates to {eu!r}, expected {want!r}")
    return bad


def field_only(T):
    import typing
    return typing.get_origin(T) in (typing.ClassVar, typing.Final)


def key_of(n):
    return (n.type, n.unwrapped, n.var, n.cyclic)


def spelling(T, seq, graph, refs, strict):
    """str / ForwardRef / NewType / value alias / repeated / un-memoised inputs: same sequence up to the root label.
    `unwrap` is memoised on `==` and equal unions may list their members in different orders (the known
    order-insensitive cache-key finding of C05 / C12): in a process that has already seen the other spelling of a
    union, a difference in the ORDER of the nodes only is reported as "order-only" and re-checked by the parent in a
    fresh fork (`strict`), where it counts."""
    import inspect
    import typing
    bad, done, order_only = [], [], []

    def same_upto_root(other, label):
        lo, ls = other[-1], seq[-1]
        if not (lo.type == label and lo.unwrapped == ls.unwrapped and lo.var is None and lo.cyclic is False):
            return False
        a, b = [key_of(n) for n in other[:-1]], [key_of(n) for n in seq[:-1]]
        if a == b:
            return True
        if not strict and len(a) == len(b) and all(x in b for x in a) and all(x in a for x in b):
            order_only.append(repr(label))
            return True
        return False

    try:
        again = graph.static_order(T)
        if list(again) != list(seq):
            bad.append("a repeated call returns a different sequence")
        fresh = list(graph.itertypes(T))
        if fresh != list(seq):
            bad.append("itertypes (not memoised) differs from static_order")
        done += ["repeat", "itertypes"]
        if not field_only(T):       # ClassVar[...] / Final[...] are legal at the top of a field annotation only
            nt = typing.NewType("RootNT", T)
            if not same_upto_root(with_alarm(lambda: list(graph.static_order(nt))), nt):
                bad.append("NewType of the root: sequence differs beyond the root label")
            al = typing.TypeAliasType("RootAL", T)
            if not same_upto_root(with_alarm(lambda: list(graph.static_order(al))), al):
                bad.append("value alias of the root: sequence differs beyond the root label")
            done += ["newtype", "alias"]
        # (a TEXT that starts with the module's name is read as module-qualified: for a class whose outer class is named like the
        #  module the text of its qualified name is ambiguous, so no text spellings of it are demanded)
        if (inspect.isclass(T) and "<locals>" not in T.__qualname__ and T.__module__ not in ("builtins",)
                and T.__qualname__.split(".")[0] != T.__module__):
            dotted = f"{T.__module__}.{T.__qualname__}"
            if list(graph.static_order(dotted)) != list(seq):
                bad.append(f"static_order({dotted!r}) differs from static_order of the class")
            fr = typing.ForwardRef(T.__qualname__, module=T.__module__)
            if list(graph.static_order(fr)) != list(seq):
                bad.append("static_order(ForwardRef) differs from static_order of the class")
            done += ["str", "forwardref"]
    except BaseException as e:  # noqa: BLE001
        bad.append(f"spelling variant raised {type(e).__name__}: {e}"[:200])
    return bad, done, order_only


def one_root(T, extra_models=True, strict=False):
    import typing
    from typelib import graph
    from typelib.py import refs
    out = {"root": repr(T)[:160]}
    seq = None
    try:
        seq = with_alarm(lambda: list(graph.static_order(T)))
    except _Timeout:
        out["real"] = {"err": "Timeout", "msg": f"static_order did not return within {LOOP_LIMIT['s']} CPU s (the loop does not terminate)"}
    except BaseException as e:  # noqa: BLE001
        out["real"] = {"err": type(e).__name__, "msg": str(e)[:200]}
    try:
        infos, ids, child_ids, root = extract(T)
    except _Skip as s:
        out["skip"] = str(s)
        return out
    out["tys"], out["rootid"] = infos, root
    if seq is None:
        return out
    out["real"] = [node_view(n, ids, child_ids, infos) for n in seq]
    out["oracle"] = oracle(seq, T, refs)
    sp_bad, sp_done, order_only = spelling(T, seq, graph, refs, strict)
    out["oracle"] += sp_bad
    out["spelled"] = sp_done
    if order_only:
        out["order_only"] = order_only
    if isinstance(T, typing.TypeAliasType) and isinstance(T.__value__, str):
        n = seq[0]  # noqa
        if not (len(seq) == 1 and n.type is T and type(n.unwrapped) is typing.ForwardRef
                and n.unwrapped.__forward_arg__ == T.__value__ and not n.cyclic and n.var is None):
            out["oracle"].append(f"string-valued alias is not a single deferred node: {seq!r}"[:300])
        out["stralias"] = True
    out["flags"] = {"ref": any(v[4] for v in out["real"]), "qual": any(v[5] for v in out["real"]), "rewalk": any(v[3] and not v[4] for v in out["real"]),
                    "n": len(seq)}
    # the same root through a NewType and a value alias: two more graphs for the correspondence
    if extra_models and not field_only(T):
        out["variants"] = []
        for mk in (lambda: typing.NewType("RootNT", T), lambda: typing.TypeAliasType("RootAL", T)):
            try:
                V = mk()
                vseq = with_alarm(lambda: list(graph.static_order(V)))
                vinfos, vids, vchild, vroot = extract(V)
                out["variants"].append({"tys": vinfos, "rootid": vroot, "real": [node_view(n, vids, vchild, vinfos) for n in vseq]})
            except BaseException:  # noqa: BLE001
                pass
    return out


def run_prog(job):
    import warnings
    warnings.simplefilter("ignore")
    import typelib  # noqa: F401
    if job.get("cold"):
        LOOP_LIMIT["s"] = 5.0
    try:
        if "src" in job["prog"]:
            # a program given as Python source (constructs the class-spec encoding has no term for: user generics, ...)
            import sys
            import types
            if job["prog"].get("pre_src"):
                # an earlier generation of the same module: walked once (errors of that walk are not judged), then replaced
                from typelib import graph as _g
                mod0 = types.ModuleType(job["prog"]["module"])
                sys.modules[job["prog"]["module"]] = mod0
                exec(compile(job["prog"]["pre_src"], job["prog"]["module"] + ".py", "exec"), mod0.__dict__)
                for e in job["prog"].get("pre_roots", []):
                    try:
                        list(_g.static_order(eval(e, mod0.__dict__)))
                    except Exception:  # noqa: BLE001
                        pass
            mod = types.ModuleType(job["prog"]["module"])
            sys.modules[job["prog"]["module"]] = mod
            exec(compile(job["prog"]["src"], job["prog"]["module"] + ".py", "exec"), mod.__dict__)

            class P:  # noqa: N801
                @staticmethod
                def annotation(ts):
                    return eval(ts[1], mod.__dict__)
        else:
            P = enc.Program(job["prog"])
    except BaseException as e:  # noqa: BLE001
        return {"setup_err": f"{type(e).__name__}: {e}"[:300]}
    outs = []
    for r in job["roots"]:
        try:
            T = P.annotation(r["ty"])
        except BaseException as e:  # noqa: BLE001
            outs.append({"setup_err": f"annotation: {type(e).__name__}: {e}"[:200]})
            continue
        outs.append(one_root(T, strict=bool(job.get("cold"))))
    return {"roots": outs}


# ----------------------------------------------------------------------------------------------- comparison (parent)

def model_op(tys, rootid):
    return {"op": "graph.order", "root": rootid, "tys": tys}


def compare(res, inp, real, tys, rootid, m, what):
    def disagree(w, realv, modelv):
        res.count("DISAGREE:" + w)
        res.disagreements.append({"what": w, "input": inp, "real": realv, "model": modelv})

    if isinstance(m, dict) and "bad" in m:
        raise RuntimeError(f"harness: driver rejected the op: {m}")
    if not m.get("wf"):
        disagree(what + ": the extracted annotation graph violates Graph.wf (hypothesis of the theorems)", {"tys": tys}, m)
        return
    if isinstance(real, dict):      # the real call raised
        if real.get("err") == "CycleError" and m.get("cycle"):
            res.count("agree:" + what + ":cycle")
        else:
            disagree(what + ": real call raised", real, {k: m.get(k) for k in ("nodes", "cycle", "outOfFuel")})
        return
    if m.get("outOfFuel") or m.get("cycle"):
        disagree(what + ": model does not produce a sequence", real, {k: m.get(k) for k in ("cycle", "outOfFuel", "fuel")})
        return
    if m["nodes"] != real:
        disagree(what + ": node sequence", real, m["nodes"])
        return
    if not m.get("topo"):
        disagree(what + ": the model's sequence fails checkTopo", real, m["nodes"])
        return
    if m["steps"] > m["fuel"]:
        disagree(what + ": more pops than Graph.fuelBound", m["steps"], m["fuel"])
        return
    res.count("agree:" + what)


def _timed_out(o):
    return (isinstance(o.get("real"), dict) and o["real"].get("err") == "Timeout") or \
        any("_Timeout" in v for v in o.get("oracle", []) or [])


def evaluate(jobs, res, cold=False):
    core.import_typelib()
    outs = iso.map_isolated(run_prog, jobs, timeout=120.0)
    lines, index = [], []
    for ji, (job, out) in enumerate(zip(jobs, outs)):
        if not isinstance(out, dict) or "crash" in out:
            # a child that died or timed out: the loop did not terminate (or the harness broke) on this program
            res.failures.append({"what": "static_order did not finish (child crashed or timed out)",
                                 "input": {"prog": job["prog"], "root": None, "roots": job["roots"]}, "real": out})
            continue
        if "setup_err" in out:
            raise RuntimeError(f"harness: program does not materialise: {out['setup_err']}\n{json.dumps(job['prog'])[:1500]}")
        for ri, (r, o) in enumerate(zip(job["roots"], out["roots"])):
            if "setup_err" in o:
                res.count("root-annotation-not-evaluable")
                continue
            if "skip" in o:
                res.skipped += 1
                res.count("skip:" + o["skip"])
                continue
            lines.append(model_op(o["tys"], o["rootid"]))
            index.append((ji, ri, None))
            for vi, v in enumerate(o.get("variants", [])):
                lines.append(model_op(v["tys"], v["rootid"]))
                index.append((ji, ri, vi))
    # order-only differences between spellings under warm caches: once more, alone, in a fresh fork
    if not cold:
        again = [{"prog": job["prog"], "roots": [r], "family": job.get("family"), "meta": {}, "cold": True, "timeout": _timed_out(o)}
                 for job, out in zip(jobs, outs) if isinstance(out, dict) and "roots" in out
                 for r, o in zip(job["roots"], out["roots"]) if o.get("order_only") or _timed_out(o)]
        slow, fast = [], []
        for j in again:
            (slow if j.pop("timeout", False) else fast).append(j)
        again = fast + slow[:12]
        if len(slow) > 12:
            res.count("timeout:not-rechecked (12 others were)", len(slow) - 12)
        if again:
            res.count("rechecked-in-a-fresh-fork (order-only spelling difference under warm caches, or timeout)", len(again))
            sub = Result()
            evaluate(again, sub, cold=True)
            res.failures += sub.failures
            res.disagreements += sub.disagreements
    answers = lean.drive(lines) if lines else []
    res.programs += len(jobs)
    pkeys = {}
    for (ji, ri, vi), m in zip(index, answers):
        job = jobs[ji]
        r, o = job["roots"][ri], outs[ji]["roots"][ri]
        inp = {"prog": job["prog"], "root": r, "root_repr": o.get("root")}
        if not cold and _timed_out(o):
            continue        # judged by the cold re-run above
        if vi is not None:
            v = o["variants"][vi]
            compare(res, inp, v["real"], v["tys"], v["rootid"], m, "alias-root" if vi else "newtype-root")
            continue
        if ji not in pkeys:
            pkeys[ji] = hashlib.sha1(json.dumps(job["prog"], sort_keys=True).encode()).hexdigest()[:12]
        real = o.get("real")
        nontrivial = isinstance(real, list) and len(real) > 1
        res.case({"prog": pkeys[ji], "root": r["ty"], "n": len(real) if isinstance(real, list) else None}, nontrivial)
        res.count("family:" + job.get("family", "?"))
        res.count("root:" + r.get("kind", "?"))
        meta = job.get("meta", {})
        if ri == 0 and job.get("family") in ("topology", "fixed"):
            res.count(f"topology:k={meta.get('k')}:{'cyclic' if meta.get('cyclic') else 'dag'}")
            res.count("style:" + meta.get("style", "?"))
            for ek in meta.get("edge_kinds", []):
                res.count("edge:" + ek)
        # ---------------- oracle on the real library (independent of the model)
        if isinstance(real, dict):
            what = ("static_order does not terminate" if real.get("err") == "Timeout" else f"static_order raised {real.get('err')}")
            res.failures.append({"what": what, "input": inp, "real": real})
        else:
            fl = o.get("flags", {})
            if fl.get("ref"):
                res.count("real:has-forward-reference")
            if fl.get("qual"):
                res.count("real:has-deferred-qualified-annotation")
            if fl.get("rewalk"):
                res.count("real:has-rewalked-node")
            if o.get("stralias"):
                res.count("real:string-alias-root")
            for s in o.get("spelled", []):
                res.count("spelling:" + s)
            if o.get("oracle"):
                res.failures.append({"what": "the node sequence violates the property: " + o["oracle"][0][:200],
                                     "input": inp, "violations": o["oracle"][:8]})
            else:
                res.count("oracle:ok")
        # ---------------- correspondence with the Lean model
        compare(res, inp, real, o["tys"], o["rootid"], m, "order")


# ---- the sequence belongs to the caller: whatever it does to the list it got, the next call (for the type, its name, a reference to
# it) returns the complete order again
def _caller_child(_job):
    import dataclasses
    import sys
    import types
    import typing
    import warnings
    warnings.simplefilter("ignore")
    from typelib import graph
    from typelib.py import refs
    mod = types.ModuleType("vm_c09_caller")
    sys.modules["vm_c09_caller"] = mod
    exec("from __future__ import annotations\nimport dataclasses, typing\n@dataclasses.dataclass\nclass Tree:\n    label: str\n"
         "    kids: typing.List[Tree]\n    parent: typing.Optional[Tree] = None\n", mod.__dict__)
    bad = []

    def keys(seq):
        return [(repr(n.type), n.var, n.cyclic) for n in seq]
    for T, spellings in ((mod.Tree, [mod.Tree, refs.forwardref("Tree", module="vm_c09_caller")]), (typing.Dict[str, typing.List[int]], [typing.Dict[str, typing.List[int]]])):
        first = graph.static_order(T)
        want = keys(first)
        for what in ("pop", "reverse", "clear", "sort"):
            got = graph.static_order(T)
            try:
                if what == "pop":
                    got.pop()
                elif what == "reverse":
                    got.reverse()
                elif what == "clear":
                    got.clear()
                else:
                    got.sort(key=lambda n: repr(n.type))
            except (AttributeError, TypeError):
                pass                      # an immutable sequence: nothing a caller can do to it
            for sp in spellings:
                again = keys(graph.static_order(sp))
                if again != want:
                    bad.append(f"after a caller did .{what}() to the list static_order({T!r}) gave it, static_order({sp!r}) returns "
                               f"{len(again)} nodes ending in {again[-1][0] if again else None}; it returned {len(want)} ending in {want[-1][0]}"[:400])
    return bad


def caller_mutation_probe(res):
    from .. import iso
    bad = iso.map_isolated(_caller_child, [None], timeout=60.0)[0]
    if not isinstance(bad, list):
        raise RuntimeError(f"harness: caller-mutation probe failed: {bad}")
    res.case({"family": "caller-edits-the-returned-sequence"}, True)
    for b in bad:
        res.failures.append({"what": b, "input": {"caller_mutation": True}})
    if not bad:
        res.count("oracle:memoised-order-survives-the-caller", 8)


def explore(ctx):
    res = Result()
    res.rule = RULE
    jobs = build_jobs(ctx)
    evaluate(jobs, res)
    core.import_typelib()
    caller_mutation_probe(res)
    return res


def witness(fid):
    return None


def replay(failure):
    inp = failure["input"]
    if inp.get("caller_mutation"):
        from .. import iso
        core.import_typelib()
        bad = iso.map_isolated(_caller_child, [None], timeout=60.0)[0]
        print(json.dumps(bad, indent=1, default=str)[:3000])
        return bool(bad)
    roots = [inp["root"]] if inp.get("root") else inp.get("roots", [])
    res = Result()
    evaluate([{"prog": inp["prog"], "roots": roots, "family": "replay", "meta": {}}], res)
    print(json.dumps({"root": inp.get("root_repr"), "failures": [{k: v for k, v in f.items() if k != "input"} for f in res.failures[:4]],
                      "disagreements": [{k: v for k, v in d.items() if k != "input"} for d in res.disagreements[:4]]},
                     indent=1, default=str)[:6000])
    return bool(res.failures)
