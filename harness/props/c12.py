"""C12 — Results depend only on (type, input), never on call history."""
from __future__ import annotations

import copy
import json
import re
import sys
import warnings

from .. import core, enc, iso, lean, universe
from ..runner import Result

ID = "C12"
LEVEL = "proof"
LEVEL_TEXT = ("Kernel-checked refinement theorem C12.memo_refines_pure over the abstract memo machine (Model/Cache.lean: a heap of "
              "objects with identities, memo tables (site, key class) -> ref, per site its key function, pure result function, "
              "returnsShared and resultMutable): IF every site is key-congruent AND every site returns a fresh copy or immutable "
              "results THEN for ALL finite histories of {call, deep-mutate an earlier input or result, read it back, clear caches} "
              "(induction on the list, no length bound) the outputs with memo tables equal the outputs of evaluating each call "
              "purely into brand-new objects; relative forms memo_refines_pure_on / history_independent_unless_aliased (congruence is "
              "needed only among the arguments a history really uses: the exclusion predicate of finding unionOrderKey is decidable) "
              "and good_sites_history_independent over the declared classification of the real cache sites; inputs_unmutated; both "
              "hypotheses shown necessary by kernel-checked counterexamples (noncongruent_breaks at a 2-call history, "
              "shared_mutable_breaks at call-mutate-call). The theorem is about the abstract machine; each real site's side "
              "conditions (key congruence, fresh-or-immutable results, the declared classification of every discovered cache site) are "
              "CHECKED (tested, not proved) on the real code on every run, and seeded operation histories run in one warm process "
              "are compared operation by operation with the same operation alone in a cold process. LRU eviction and threads are "
              "outside the model.")
LEVEL_NOTE = ("Trusted: Lean kernel; axioms propext, Classical.choice, Quot.sound (at most); the hand-written model Model/Cache.lean "
              "and the site table `classify` (tied to the code by the per-run site discovery and obligations, not verified against "
              "the Python source); the harness's notion of 'cold' (a fork of a zygote that has only imported typelib). The routine "
              "caches are NOT key-congruent (Union[int, str] == Union[str, int]): histories that alias such keys are the known "
              "finding unionOrderKey; the theorem covers all other histories (history_independent_unless_aliased) and the harness "
              "checks that every warm/cold difference is exactly the one the memo machine predicts (the first-built member order "
              "serves the class).")
TECHNIQUE = ("Lean 4 refinement proof (simulation invariant, induction on the operation list) over a generic memo-table state "
             "machine; per-site obligations tested on the real functions with equal-but-distinct keys (2-call and "
             "call-mutate-call histories, each against a cold process); seeded operation histories warm vs cold with "
             "delta-debugging; abstract-level cross-check of the memo machine's prediction through the compiled driver")
DESIGN_REF = "DESIGN.md §5 C12"
MODULES = ["TypelibModel.Props.C12"]
TABLES = False
RULE = ("(A) per-site obligations: every cache site discovered in the imported library (module attributes with cache_clear) must be "
        "classified in the Lean site table; every site and every public value-level entry point (strload, load, decode, dateparse, "
        "isoformat, marshal, unmarshal, encode, decode, routine builders described by their behaviour on probe inputs) is run on "
        "groups of equal-but-distinct keys - equal text as str / str subclass / str-enum member / bytes / bytearray / memoryview; "
        "equal instants with different UTC offsets (datetime, time, pendulum); 1 / 1.0 / True / Decimal(1) / Fraction(1) / IntEnum; "
        "annotations built twice, both member orders of unions (typing, PEP 604, Optional, nested in builtin and typing generics), "
        "Literal member orders - as 2-call histories [f(ki), f(kj)] for every ordered pair (including i = j: two equal objects) and "
        "call-mutate-call histories [r = f(k); deep-mutate r; f(k)], each in a fresh fork, against f(kj) alone in a fresh fork "
        "(quick tier: the calls of one key group share their forks - every call on ki, then every call on kj - and a difference is "
        "re-run as the 2-call history; thorough tier: one call per fork); "
        "results returned twice are checked for identity / shared mutable substructure. (B) seeded histories (quick: <= 12 ops) over "
        "small synthesised programs: build marshaller/unmarshaller/codec, marshal, unmarshal, typelib.encode, typelib.decode, "
        "deep-mutate an earlier result, deep-mutate an earlier input, read an earlier result back, clear every cache "
        "(cache_clear on every cached function found + typing's caches); the type pool contains union twins (one member order "
        "permuted) and inputs are re-used as equal-but-distinct twins; the whole history runs in ONE warm fork, each operation alone "
        "in a cold fork; inputs are snapshotted before/after every call. A history is non-trivial when it has >= 2 typed calls; "
        "distinct = distinct (ops) encodings. Failing histories are delta-debugged to a minimal one.")
ASSUMPTIONS = [
    "cold = a fresh fork of a process that has imported typelib and nothing else (import-time cache contents are part of 'cold')",
    "outcomes are compared as values (enc.from_py + canon; error class only, never messages or addresses); routine objects are "
    "observed through their class and their behaviour on probe inputs",
    "cache keys are hashable objects that are not mutated (Python's own requirement): deep mutation applies to results and to "
    "inputs of marshal/unmarshal/encode/decode, never to annotations",
    "'clear caches' clears every cache_clear-bearing function of the typelib modules and typing's own generic-alias caches "
    "(typing._cleanups); LRU eviction (100 000 entries) and threads are outside the model",
]
TRUSTED = ["harness/props/c12.py (key groups, describe/deep_mutate, history generator, annotation class / spelling forms)",
           "lean/TypelibModel/Drv/Cache.lean (driver glue)",
           "hand-written model Model/Cache.lean + site table `classify`, tied to the code by the per-run obligations"]

FINDING = "unionOrderKey"
MUT = "MUT"

# ================================================================================================ site table

# attribute (module.attr) -> entry of Model/Cache.lean `RealSite`; typelib.py.inspection.* defaults to inspectPredicate
SITE_ENTRY = {
    "typelib.serdes._strload": "strloadRaw",
    "typelib.serdes.dateparse": "dateparse",
    "typelib.serdes.get_items_iter": "getItemsIter",
    "typelib.marshals.api.marshaller": "marshaller",
    "typelib.unmarshals.api.unmarshaller": "unmarshaller",
    "typelib.codecs.codec": "codec",
    "typelib.graph._static_order": "staticOrder",
    "typelib.py.inspection.cached_type_hints": "cachedTypeHints",
    "typelib.py.inspection.cached_signature": "cachedSignature",
    "typelib.py.inspection.safe_get_params": "cachedTypeHints",
    "typelib.py.inspection.cached_simple_attributes": "cachedSimpleAttrs",
    "typelib.py.inspection.unwrap": "inspectUnwrap",
    "typelib.py.inspection.origin": "inspectUnwrap",
    "typelib.py.inspection.resolve_supertype": "inspectUnwrap",
    "typelib.py.inspection.normalize_typevar": "inspectUnwrap",
    "typelib.py.refs._resolve_module_name": "resolveModuleName",
    "typelib.py.future.transform": "futureTransform",
    "typelib.binding._get_binding": "getBinding",
}
# entries that are not functools caches (checked by dedicated probes)
NON_FUNCTION_ENTRIES = {"strload", "typeContext", "delayedResolved", "typingGenericCache"}


def entry_of(site):
    if site in SITE_ENTRY:
        return SITE_ENTRY[site]
    if site.startswith("typelib.py.inspection."):
        return "inspectPredicate"
    return None


def _typelib_modules():
    return [m for n, m in sorted(sys.modules.items()) if (n == "typelib" or n.startswith("typelib.")) and m is not None]


def _discover(_job):
    """Child: import every typelib submodule, list the cache sites."""
    import importlib
    import pkgutil
    warnings.simplefilter("ignore")
    import typelib
    for m in pkgutil.walk_packages(typelib.__path__, "typelib."):
        try:
            importlib.import_module(m.name)
        except Exception:  # noqa: BLE001 - optional contrib modules
            pass
    found = {}
    for mod in _typelib_modules():
        for k, v in list(vars(mod).items()):
            if hasattr(v, "cache_clear") and hasattr(v, "cache_info") and callable(v):
                found.setdefault(id(v), (v, []))[1].append(f"{mod.__name__}.{k}")
    canon = []
    for v, names in found.values():
        # canonical name: the attribute in the module that defines the function (functools copies __module__);
        # functools.cache(issubclass) reports `builtins`: take the typelib attribute
        own = sorted(n for n in names if n.rsplit(".", 1)[0] == getattr(v, "__module__", None))
        canon.append({"name": (own or sorted(names, key=lambda n: (-n.count("."), n)))[0], "aliases": sorted(names)})
    return sorted(canon, key=lambda d: d["name"])


def clear_all_caches():
    """`cache_clear()` on every cached function found in the typelib modules, and typing's own caches."""
    import typing
    n = 0
    seen = set()
    for mod in _typelib_modules():
        for v in list(vars(mod).values()):
            if hasattr(v, "cache_clear") and id(v) not in seen:
                seen.add(id(v))
                try:
                    v.cache_clear()
                    n += 1
                except Exception:  # noqa: BLE001
                    pass
    for f in getattr(typing, "_cleanups", []):
        f()
    return n


# ================================================================================================ describe / mutate

_ADDR = re.compile(r"0x[0-9a-fA-F]+")
MUTABLE_CLASSES = ("list", "dict", "set", "bytearray", "deque")


def _is_mutable_container(x):
    import collections
    return isinstance(x, (list, dict, set, bytearray, collections.deque))


def describe(x, depth=0):
    """Value of an arbitrary result as JSON data, without addresses; annotations keep their member order."""
    import collections
    import dataclasses
    import datetime
    import enum
    import inspect
    import types
    import typing
    t = type(x)
    if depth > 40:
        return "<deep>"
    if t is int and x.bit_length() > 4000:
        return ["bigint", x.bit_length(), x % 1000003]        # (its decimal text may be beyond the interpreter's own digit limit)
    if t is bool:
        return ["bool", x]            # (True == 1 in Python: compared results must tell them apart)
    if x is None or t in (int, str):
        return x
    if t is float:
        return ["f", repr(x)]
    if isinstance(x, enum.Enum):
        return ["enum", t.__qualname__, x.name]
    if t in (bytes, bytearray):
        return [t.__name__, bytes(x).decode("latin1")]
    if t in (list, tuple, collections.deque):
        return [t.__name__, [describe(e, depth + 1) for e in x]]
    if t in (set, frozenset):
        return [t.__name__, sorted((describe(e, depth + 1) for e in x), key=lambda j: json.dumps(j, default=str))]
    if t is dict:
        return ["dict", [[describe(k, depth + 1), describe(v, depth + 1)] for k, v in x.items()]]
    if isinstance(x, type):
        return ["class", f"{x.__module__}.{x.__qualname__}"]
    if isinstance(x, types.UnionType) or typing.get_origin(x) is not None or isinstance(x, (typing.TypeVar, typing.ForwardRef)):
        return ["ann", _ADDR.sub("0x", repr(x))]
    if isinstance(x, datetime.datetime):
        return ["datetime", t.__name__ if t.__module__ != "datetime" else "", x.isoformat()]
    if isinstance(x, (datetime.date, datetime.time)):
        return [t.__name__, x.isoformat()]
    if isinstance(x, datetime.timedelta):
        return ["timedelta", x.days, x.seconds, x.microseconds]
    if isinstance(x, types.MappingProxyType):
        return ["mappingproxy", [[describe(k, depth + 1), _ADDR.sub("0x", str(v))] for k, v in x.items()]]
    if isinstance(x, inspect.Signature):
        return ["signature", _ADDR.sub("0x", str(x))]
    if dataclasses.is_dataclass(x) and not isinstance(x, type):
        fields = []
        for f in dataclasses.fields(x):
            try:
                fields.append([f.name, describe(getattr(x, f.name), depth + 1)])
            except AttributeError:
                fields.append([f.name, "<unset>"])
        return ["obj", t.__qualname__, fields]
    if hasattr(x, "_fields") and isinstance(x, tuple):
        return ["nt", t.__qualname__, [describe(e, depth + 1) for e in x]]
    if inspect.isfunction(x) or inspect.isbuiltin(x) or inspect.ismethod(x):
        return ["fn", getattr(x, "__qualname__", repr(x))]
    r = enc.from_py(x, None)
    if not (isinstance(r, list) and r and r[0] == "x"):
        return r
    return ["x", f"{t.__module__}.{t.__qualname__}", _ADDR.sub("0x", repr(x))[:160]]


def deep_mutate(x, depth=0, seen=None):
    """Deep, deterministic in-place mutation of everything mutable reachable from x: append to lists and deques, set a
    dict key, add to sets, extend bytearrays, recursively (through tuples and object attributes too).  Returns the
    number of containers changed."""
    import collections
    seen = set() if seen is None else seen
    if depth > 60 or id(x) in seen:
        return 0
    seen.add(id(x))
    n = 0
    if isinstance(x, list):
        for e in list(x):
            n += deep_mutate(e, depth + 1, seen)
        x.append(MUT)
        return n + 1
    if isinstance(x, collections.deque):
        for e in list(x):
            n += deep_mutate(e, depth + 1, seen)
        x.append(MUT)
        return n + 1
    if isinstance(x, dict):
        for v in list(x.values()):
            n += deep_mutate(v, depth + 1, seen)
        x[MUT] = MUT
        return n + 1
    if isinstance(x, set):
        x.add(MUT)
        return 1
    if isinstance(x, bytearray):
        x.extend(MUT.encode())
        return 1
    if isinstance(x, (tuple, frozenset)):
        for e in x:
            n += deep_mutate(e, depth + 1, seen)
        return n
    if x is None or isinstance(x, (bool, int, float, str, bytes, type)):
        return 0
    names = []
    if hasattr(x, "__dict__") and isinstance(getattr(x, "__dict__", None), dict):
        names += list(vars(x))
    for klass in type(x).__mro__:
        sl = klass.__dict__.get("__slots__", ())
        names += [sl] if isinstance(sl, str) else list(sl)
    mod = getattr(type(x), "__module__", "")
    if not (mod.startswith("vm_") or mod.startswith("c12_") or mod == "__main__"):
        return 0     # only objects of the synthesised programs are opened
    for nm in names:
        try:
            n += deep_mutate(getattr(x, nm), depth + 1, seen)
        except AttributeError:
            pass
    return n


def _mutable_ids(x, acc, depth=0):
    """ids of the mutable builtin containers reachable from a result through containers and through instances of the
    synthesised classes (never through classes, annotations or library objects)."""
    import collections
    if depth > 100 or isinstance(x, type):
        return
    if isinstance(x, (list, dict, set, collections.deque, bytearray)):
        if id(x) in acc:
            return
        acc.add(id(x))
    if isinstance(x, dict):
        for k, v in x.items():
            _mutable_ids(k, acc, depth + 1)
            _mutable_ids(v, acc, depth + 1)
    elif isinstance(x, (list, tuple, set, frozenset, collections.deque)):
        for e in x:
            _mutable_ids(e, acc, depth + 1)
    else:
        mod = getattr(type(x), "__module__", "")
        if mod.startswith("vm_") or mod.startswith("c12_"):
            names = list(vars(x)) if hasattr(x, "__dict__") else []
            for klass in type(x).__mro__:
                sl = klass.__dict__.get("__slots__", ())
                names += [sl] if isinstance(sl, str) else list(sl)
            for nm in names:
                try:
                    _mutable_ids(getattr(x, nm), acc, depth + 1)
                except AttributeError:
                    pass


# ================================================================================================ (A) per-site obligations

KEYS_MOD = "c12_keys"
KEYS_SRC = '''
import dataclasses, datetime, decimal, enum, fractions, typing

class S(str):
    """a plain str subclass"""

class SE(str, enum.Enum):
    null = "null"
    one = "1"
    lst = "[1,2]"
    obj = '{"a": [1]}'
    day = "2020-01-02"
    word = "abc"
    true = "true"

class IE(enum.IntEnum):
    one = 1
    zero = 0

@dataclasses.dataclass
class DC:
    x: int
    y: typing.List[int] = dataclasses.field(default_factory=list)

@dataclasses.dataclass
class Invoice:
    """fields of every special kind: init=False, ClassVar, default_factory, kw_only"""
    net: int
    rate: int = 20
    gross: int = dataclasses.field(init=False, default=0)
    RATE_CAP: typing.ClassVar[int] = 100
    tags: typing.List[str] = dataclasses.field(default_factory=list, kw_only=True)
    def __post_init__(self):
        self.gross = self.net + self.net * self.rate // 100

class NT(typing.NamedTuple):
    a: int
    b: str = "b"

class TD(typing.TypedDict):
    a: int

def tz(seconds):
    return datetime.timezone(datetime.timedelta(seconds=seconds))

UTC = datetime.timezone.utc
'''


def _keys_ns():
    """Child: the namespace in which key and call expressions are evaluated."""
    import collections
    import datetime
    import decimal
    import fractions
    import types
    import typing
    warnings.simplefilter("ignore")
    import typelib
    from typelib import graph, serdes
    from typelib.py import inspection
    mod = sys.modules.get(KEYS_MOD)
    if mod is None:
        mod = types.ModuleType(KEYS_MOD)
        mod.__file__ = f"<{KEYS_MOD}>"
        sys.modules[KEYS_MOD] = mod
        exec(compile(KEYS_SRC, f"{KEYS_MOD}.py", "exec"), mod.__dict__)
    ns = {"typing": typing, "datetime": datetime, "decimal": decimal, "fractions": fractions, "collections": collections,
          "typelib": typelib, "serdes": serdes, "graph": graph, "inspection": inspection, "probe": _probe_routine,
          "probe_codec": _probe_codec, "SITE": _site_lookup}
    try:
        import pendulum
        ns["pendulum"] = pendulum
    except ImportError:
        pass
    ns.update({k: v for k, v in vars(mod).items() if not k.startswith("__")})
    return ns


_SITES_CACHE = {}


def _site_lookup(name):
    if not _SITES_CACHE:
        import importlib
        for m in ("typelib.binding", "typelib.py.future", "typelib.py.refs"):
            try:
                importlib.import_module(m)
            except Exception:  # noqa: BLE001
                pass
    mod, attr = name.rsplit(".", 1)
    return getattr(sys.modules[mod], attr)


PROBE_UM = ["5", 5, None, "abc", "null", 1.5, True, [1, "2"], {"a": "1"}, "[1, 2]", b"7", "2020-01-02"]
PROBE_MAR = [5, "5", None, 1.5, True, [1, "2"], {"a": 1}, (1, 2)]


def _outcome(fn):
    try:
        return {"ok": describe(fn())}
    except BaseException as e:  # noqa: BLE001
        if isinstance(e, (KeyboardInterrupt, SystemExit, MemoryError)):
            raise
        return {"err": enc.err_class(e)}


def _probe_routine(r):
    """A routine object is observed through its class and what it does to a fixed list of inputs."""
    from typelib.marshals import routines as mr
    inputs = PROBE_MAR if isinstance(r, mr.AbstractMarshaller) else PROBE_UM
    return ["routine", type(r).__qualname__, [_outcome(lambda v=v: r(copy.deepcopy(v))) for v in inputs]]


def _probe_codec(c):
    return ["codec", type(c).__qualname__, [_outcome(lambda v=v: c.encode(copy.deepcopy(v))) for v in PROBE_MAR],
            [_outcome(lambda v=v: c.decode(v)) for v in (b"5", b'"5"', b"[1, 2]", b"null", b'{"a": 1}')]]


def _site_child(job):
    """Child: for every key index of job['seq'] in order (a fresh key object each time) evaluate every call expression of
    job['calls']; optionally deep-mutate every result right after it is returned.  Per step, per call: outcome, class /
    mutability of the result, whether it IS the object the same call returned in an earlier step, whether it shares mutable
    structure with it, whether the key object changed during the call."""
    ns = _keys_ns()
    if job.get("tt"):
        ns["TT"] = eval(job["tt"], dict(ns))
    out = []
    prev = [[] for _ in job["calls"]]
    for step, ki in enumerate(job["seq"]):
        recs = []
        for ci, call in enumerate(job["calls"]):
            k = eval(job["keys"][ki], dict(ns))
            before = _outcome(lambda: k)
            rec = {}
            try:
                r = eval(call, dict(ns, K=k))
                rec["out"] = {"ok": describe(r)}
                rec["key_changed"] = before != _outcome(lambda: k)
                rec["cls"] = type(r).__name__
                rec["mutable"] = _is_mutable_container(r)
                ids = set()
                _mutable_ids(r, ids)
                rec["has_mutable"] = bool(ids)
                rec["same_as"] = [i for i, (pr, _) in enumerate(prev[ci]) if pr is r]
                rec["shares_with"] = [i for i, (_, pids) in enumerate(prev[ci]) if ids & pids]
                prev[ci].append((r, ids))
                if job.get("mutate"):
                    rec["mutated"] = deep_mutate(r)
            except BaseException as e:  # noqa: BLE001
                if isinstance(e, (KeyboardInterrupt, SystemExit, MemoryError)):
                    raise
                rec["out"] = {"err": enc.err_class(e), "msg": f"{type(e).__name__}: {e}"[:160]}
                rec["key_changed"] = before != _outcome(lambda: k)
                prev[ci].append((object(), set()))
            recs.append(rec)
        if step == 0 and len(job["seq"]) > 1:
            k1, k2 = eval(job["keys"][job["seq"][0]], dict(ns)), eval(job["keys"][job["seq"][1]], dict(ns))
            try:
                eq = bool(k1 == k2) and hash(k1) == hash(k2)
            except TypeError:
                eq = bool(k1 == k2)
            for rec in recs:
                rec["keys_equal"] = eq
        out.append(recs)
    return out


def _texts(t, se=None):
    # (the third spelling builds a NEW plain str object at every evaluation: equal texts are not always one interned object)
    ks = [repr(t), f"S({t!r})", f"str({t.encode()!r}, 'utf-8')"]
    if se:
        ks.append(f"SE.{se}")
    ks += [f"{t!r}.encode()", f"bytearray({t!r}.encode())", f"memoryview({t!r}.encode())"]
    return ks


# (call expression, entry of the site table that memoises it (None: nothing keyed by K), public operation?)
TEXT_CALLS = [
    ("serdes.strload(K)", "strload", True), ("serdes.load(K)", "strload", True), ("serdes.decode(K)", None, True),
    ("typelib.unmarshal(int, K)", "strload", True), ("typelib.unmarshal(str, K)", "strload", True),
    ("typelib.unmarshal(list[int], K)", "strload", True), ("typelib.unmarshal(dict[str, list[int]], K)", "strload", True),
    ("typelib.unmarshal(tuple[int, ...], K)", "strload", True), ("typelib.unmarshal(set[int], K)", "strload", True),
    ("typelib.unmarshal(datetime.date, K)", "dateparse", True),
    ("typelib.unmarshal(typing.Union[int, str], K)", "strload", True),
    ("typelib.unmarshal(typing.Optional[int], K)", "strload", True), ("typelib.unmarshal(SE, K)", "strload", True),
    ("typelib.unmarshal(IE, K)", "strload", True), ("typelib.unmarshal(list[SE], [K, K])", "strload", True),
    ("typelib.unmarshal(bool, K)", "strload", True), ("typelib.unmarshal(typing.Literal['1', 1, None], K)", "strload", True),
    ("typelib.marshal(K)", None, True), ("typelib.encode(K)", None, True), ("typelib.decode(list[int], K)", None, True),
    ("typelib.decode(typing.Any, K)", None, True),
]
TEXT_GROUPS = [
    {"name": "text:null", "keys": _texts("null", "null")}, {"name": "text:1", "keys": _texts("1", "one")},
    {"name": "text:[1,2]", "keys": _texts("[1,2]", "lst")}, {"name": "text:obj", "keys": _texts('{"a": [1]}', "obj")},
    {"name": "text:tuple", "keys": _texts("(1, [2])")}, {"name": "text:set", "keys": _texts("{1, 2}")},
    {"name": "text:word", "keys": _texts("abc", "word")}, {"name": "text:date", "keys": _texts("2020-01-02", "day")},
    {"name": "text:csv", "keys": _texts("1,2")}, {"name": "text:true", "keys": _texts("true", "true")},
    {"name": "text:1.0", "keys": _texts("1.0")},
    # a text that is the NAME of a member of SE (and of IE), not a value: no routine may start to know it after having seen it once
    # EMPTY collections: nothing to convert, still a container of the call's own
    {"name": "text:empty-list", "keys": _texts("[]") + ["[]", "()"]}, {"name": "text:empty-dict", "keys": _texts("{}") + ["{}"]},
    {"name": "text:member-name", "keys": _texts("word")}, {"name": "text:member-name-2", "keys": _texts("one")},
]
STR_ONLY_CALLS = [("serdes.dateparse(K, datetime.date)", "dateparse", True),
                  ("serdes.dateparse(K, datetime.datetime)", "dateparse", True),
                  ("SITE('typelib.serdes._strload')(K)", "strloadRaw", False),
                  ("SITE('typelib.py.future.transform')(K)", "futureTransform", False)]
STR_ONLY_GROUPS = [
    {"name": "str:date", "keys": ["'2020-01-02'", "S('2020-01-02')", "SE.day"]},
    {"name": "str:null", "keys": ["'null'", "S('null')", "SE.null"]},
    {"name": "str:lst", "keys": ["'[1,2]'", "S('[1,2]')", "SE.lst", "b'[1,2]'"]},
    {"name": "str:ann", "keys": ["'int | str'", "S('int | str')", "'str | int'"]},
]

# TT = the group's class.  (No `typelib.marshal(K)` without t: static_order(pendulum.DateTime) does not terminate.)
DT_CALLS = [
    ("serdes.isoformat(K)", None, True), ("typelib.marshal(K, t=TT)", None, True),
    ("typelib.marshal(K, t=typing.Union[TT, str])", None, True),
    ("typelib.encode(K, t=TT)", None, True), ("typelib.unmarshal(datetime.datetime, K)", None, True),
    ("typelib.unmarshal(str, K)", None, True), ("typelib.unmarshal(datetime.date, K)", None, True),
    ("typelib.unmarshal(datetime.time, K)", None, True), ("typelib.marshal([K, K], t=list[TT])", None, True),
    ("typelib.marshal({K: 1}, t=dict[TT, int])", None, True),
    ("typelib.unmarshal(typing.Union[datetime.datetime, datetime.time, str], K)", None, True),
    ("typelib.unmarshal(float, K)", None, True), ("typelib.unmarshal(TT, K)", None, True),
]
DT_GROUPS = [
    {"name": "instant", "tt": "datetime.datetime",
     "keys": ["datetime.datetime(2020, 1, 1, 12, 0, tzinfo=UTC)", "datetime.datetime(2020, 1, 1, 17, 30, tzinfo=tz(19800))",
              "datetime.datetime(2020, 1, 1, 7, 0, tzinfo=tz(-18000))", "pendulum.datetime(2020, 1, 1, 12)",
              "datetime.datetime(2020, 1, 2, 0, 0, 0, 5, tzinfo=tz(43200))"]},
    {"name": "time", "tt": "datetime.time",
     "keys": ["datetime.time(12, 0, tzinfo=UTC)", "datetime.time(17, 30, tzinfo=tz(19800))",
              "datetime.time(7, 0, tzinfo=tz(-18000))", "datetime.time(12, 0)"]},
    {"name": "timedelta", "tt": "datetime.timedelta",
     "keys": ["datetime.timedelta(days=1)", "datetime.timedelta(hours=24)", "pendulum.duration(days=1)",
              "datetime.timedelta(seconds=86400.0)"]},
]

NUM_CALLS = [
    ("typelib.unmarshal(int, K)", None, True), ("typelib.unmarshal(float, K)", None, True), ("typelib.unmarshal(str, K)", None, True),
    ("typelib.unmarshal(bool, K)", None, True), ("typelib.unmarshal(decimal.Decimal, K)", None, True),
    ("typelib.unmarshal(typing.Union[int, str], K)", None, True),
    ("typelib.unmarshal(typing.Union[bool, float, int], K)", None, True),
    ("typelib.unmarshal(datetime.datetime, K)", None, True), ("typelib.unmarshal(datetime.timedelta, K)", None, True),
    ("typelib.unmarshal(datetime.date, K)", None, True), ("typelib.unmarshal(typing.Literal[1, True], K)", None, True),
    ("typelib.unmarshal(list[int], [K, K])", None, True), ("typelib.unmarshal(dict[int, int], {K: K})", None, True),
    ("typelib.marshal(K)", None, True), ("typelib.marshal(K, t=float)", None, True),
    ("typelib.marshal([K], t=list[int])", None, True), ("typelib.encode(K)", None, True), ("typelib.unmarshal(IE, K)", None, True),
    ("typelib.marshal(K, t=typing.Union[bool, int, float])", None, True),
]
NUM_GROUPS = [
    {"name": "one", "keys": ["1", "1.0", "True", "decimal.Decimal(1)", "fractions.Fraction(1)", "IE.one"]},
    {"name": "zero", "keys": ["0", "0.0", "False", "-0.0", "decimal.Decimal('0.0')"]},
]

# `aliased`: the keys of the group are == but spell a union (or Literal) differently: the shape of finding unionOrderKey
TYPE_GROUPS = [
    {"name": "union", "keys": ["typing.Union[int, str]", "typing.Union[str, int]", "(int | str)", "(str | int)"], "aliased": True},
    {"name": "optional", "keys": ["typing.Optional[int]", "typing.Union[None, int]", "(int | None)", "(None | int)"], "aliased": True},
    {"name": "union3", "keys": ["typing.Union[int, float, str]", "typing.Union[str, float, int]", "typing.Union[float, str, int]"],
     "aliased": True},
    {"name": "list[int]", "keys": ["list[int]", "typing.List[int]", "list[int]"]},
    {"name": "list[union]", "keys": ["list[typing.Union[int, str]]", "list[typing.Union[str, int]]"], "aliased": True},
    {"name": "List[union]", "keys": ["typing.List[typing.Union[int, str]]", "typing.List[typing.Union[str, int]]"], "aliased": True},
    {"name": "dict[optional]", "keys": ["dict[str, typing.Union[int, None]]", "dict[str, typing.Union[None, int]]"], "aliased": True},
    {"name": "literal", "keys": ["typing.Literal[1, 'a']", "typing.Literal['a', 1]"], "aliased": True},
    {"name": "literal-1", "keys": ["typing.Literal[1]", "typing.Literal[True]", "typing.Literal[1, True]"]},
    {"name": "tuple", "keys": ["tuple[int, str]", "typing.Tuple[int, str]", "tuple[int, ...]"]},
    {"name": "classes", "keys": ["DC", "NT", "TD", "SE", "int", "datetime.datetime"], "classes": True},
    {"name": "datetime-union", "keys": ["typing.Union[datetime.date, datetime.datetime]",
                                        "typing.Union[datetime.datetime, datetime.date]"], "aliased": True},
]
ROUTINE_CALLS = [
    ("probe(typelib.unmarshaller(K))", "unmarshaller", True), ("probe(typelib.marshaller(K))", "marshaller", True),
    ("probe_codec(typelib.codec(K))", "codec", True), ("graph._static_order(K)", "staticOrder", False),
    ("typelib.unmarshal(K, '5')", "unmarshaller", True), ("typelib.marshal('5', t=K)", "marshaller", True),
    ("typelib.unmarshal(K, ['5', 5])", "unmarshaller", True), ("typelib.unmarshal(K, {'a': '5', 'x': '7'})", "unmarshaller", True),
    ("typelib.encode(5, t=K)", "marshaller", True), ("typelib.decode(K, b'\"5\"')", "unmarshaller", True),
]
# sites whose arguments are classes / callables, not annotations
CLASS_KEYED = ("cachedSignature", "getBinding", "cachedTypeHints", "getItemsIter", "cachedSimpleAttrs")
DEDICATED = ("marshaller", "unmarshaller", "codec", "staticOrder", "strloadRaw", "dateparse", "futureTransform",
             "resolveModuleName")


def _plan_sites(sites, per_call):
    """Batches of part (A): (group, [(call, entry, public)]).  quick: all public calls of a group share their forks (each
    fork runs every call on k_i, then every call on k_j), and so do all internal sites; thorough: one call per fork."""
    batches = []

    def add(g, calls):
        if per_call:
            batches.extend((g, [c]) for c in calls)
        elif calls:
            batches.append((g, list(calls)))
    for g in TEXT_GROUPS:
        add(g, TEXT_CALLS)
    for g in STR_ONLY_GROUPS:
        add(g, [c for c in STR_ONLY_CALLS if c[2]])
        add(g, [c for c in STR_ONLY_CALLS if not c[2]])
    for g in DT_GROUPS:
        add(g, DT_CALLS)
    for g in NUM_GROUPS:
        add(g, NUM_CALLS)
    for g in TYPE_GROUPS:
        add(g, [c for c in ROUTINE_CALLS if c[2]])
        internal = [c for c in ROUTINE_CALLS if not c[2]]
        for s in sites:
            e = entry_of(s["name"])
            if e in DEDICATED or (e in CLASS_KEYED and not g.get("classes")):
                continue
            internal.append((f"SITE({s['name']!r})(K)", e or "UNCLASSIFIED", False))
        add(g, internal)
    return batches


def _same_out(a, b):
    if "ok" in a and "ok" in b:
        return a["ok"] == b["ok"]
    if "err" in a and "err" in b:
        return a["err"] == b["err"]
    return False


def _short(o):
    s = json.dumps(o, default=str)
    return s if len(s) < 300 else s[:300] + "..."


def _confirm_pair(job, ci, i, j):
    """The 2-call history [call(k_i), call(k_j)] and the call on k_j alone, each in its own fork."""
    base = {"keys": job["keys"], "calls": [job["calls"][ci]], "tt": job.get("tt"), "mutate": job.get("mutate")}
    w, c = iso.map_isolated(_site_child, [dict(base, seq=[i, j]), dict(base, seq=[j], mutate=False)], timeout=30.0)
    if isinstance(w, dict) or isinstance(c, dict):
        return None
    return not _same_out(w[1][0]["out"], c[0][0]["out"])


def check_sites(ctx, res, table):
    """Part (A).  Returns the list of discovered sites."""
    per_call = ctx.tier != "quick"
    sites = iso.map_isolated(_discover, [None], timeout=120.0)[0]
    if isinstance(sites, dict) and "crash" in sites:
        raise RuntimeError(f"harness: site discovery failed: {sites}")
    by_entry = {}
    for s in sites:
        e = entry_of(s["name"])
        res.count("sites:discovered")
        if e is None or e not in table:
            res.count("sites:UNCLASSIFIED")
            res.disagreements.append({"what": f"site-table: cache site {s['name']} is not classified in Model/Cache.lean "
                                              f"(RealSite / classify); every memoised function must be declared",
                                      "input": {"site": s["name"]}, "real": "memoised (has cache_clear)", "model": "no entry"})
            continue
        by_entry.setdefault(e, []).append(s["name"])
    for e in table:
        if e not in by_entry and e not in NON_FUNCTION_ENTRIES:
            res.count("sites:declared-but-absent:" + e)
    res.extra["cache_sites"] = {e: sorted(v) for e, v in sorted(by_entry.items())}

    batches = _plan_sites(sites, per_call)
    cold_jobs, cold_index, warm_jobs = [], {}, []
    for bi, (g, calls) in enumerate(batches):
        n = len(g["keys"])
        base = {"g": g["name"], "keys": g["keys"], "calls": [c[0] for c in calls], "meta": calls, "tt": g.get("tt"),
                "aliased": bool(g.get("aliased"))}
        for ki in range(n):
            cold_index[(bi, ki)] = len(cold_jobs)
            cold_jobs.append(dict(base, seq=[ki]))
        for i in range(n):
            for j in range(n):
                warm_jobs.append(dict(base, b=bi, seq=[i, j]))
            if any(c[2] for c in calls):
                warm_jobs.append(dict(base, b=bi, seq=[i, i], mutate=True))
    cold = iso.map_isolated(_site_child, cold_jobs, timeout=60.0)
    warm = iso.map_isolated(_site_child, warm_jobs, timeout=60.0)
    res.count("siteA:cold-forks", len(cold_jobs))
    res.count("siteA:warm-forks", len(warm_jobs))
    for x, jb in list(zip(cold, cold_jobs)) + list(zip(warm, warm_jobs)):
        if isinstance(x, dict) and "crash" in x:
            raise RuntimeError(f"harness: site child crashed: {x} for {jb['g']} {jb['calls'][:3]} {jb['seq']}")

    observed = {}
    model_lines, model_meta = [], []
    confirm_budget = [12]
    for job, w in zip(warm_jobs, warm):
        i, j = job["seq"]
        cj = cold[cold_index[(job["b"], j)]][0]
        ci_ = cold[cold_index[(job["b"], i)]][0]
        mut = bool(job.get("mutate"))
        for ci, (call, entry, public) in enumerate(job["meta"]):
            first, second = w[0][ci], w[1][ci]
            c2, c1 = cj[ci], ci_[ci]
            decl = table.get(entry)
            ob = observed.setdefault(entry, {"differs": 0, "ok": 0, "shared_mutable": 0, "shared_immutable": 0, "fresh_mutable": 0})
            hist = {"call": call, "keys": [job["keys"][i], job["keys"][j]], "mutate_first_result": mut, "site_entry": entry,
                    "tt": job.get("tt")}
            res.case({"call": call, "k1": job["keys"][i], "k2": job["keys"][j], "mut": mut}, i != j or mut)
            ok_first = _same_out(first["out"], c1["out"])
            ok_second = _same_out(second["out"], c2["out"])
            res.count("siteA:" + ("mutate" if mut else "pair") + ":" + ("public" if public else "internal") + ":"
                      + ("same-as-cold" if ok_second else "DIFFERS"))
            keys_equal = True if i == j else bool(first.get("keys_equal"))
            uses = not _same_out(c1["out"], c2["out"])
            tagged = (job["aliased"] and not mut and i != j and decl is not None and not decl["congruent"])
            if public:
                if not ok_first and len(job["calls"]) == 1:
                    res.failures.append({"what": f"{call} with K = {job['keys'][i]} is not deterministic across cold processes",
                                         "input": hist, "warm": first["out"], "cold": c1["out"]})
                if not ok_second:
                    ob["differs"] += 1
                    f = {"what": (f"call-mutate-call: {call} with K = {job['keys'][j]} returned {_short(second['out'])} after "
                                  f"the caller deep-mutated the previous result; alone in a cold process: {_short(c2['out'])}") if mut
                         else (f"{call} with K = {job['keys'][j]} returned {_short(second['out'])} after the same call with the "
                               f"{'equal ' if keys_equal else ''}key {job['keys'][i]}; alone in a cold process: {_short(c2['out'])}"),
                         "input": hist, "warm": second["out"], "cold": c2["out"]}
                    if tagged:
                        f["finding"] = FINDING
                    elif len(job["calls"]) > 1:
                        if confirm_budget[0] > 0:
                            confirm_budget[0] -= 1
                            f["two_call_history_reproduces"] = _confirm_pair(job, ci, i, j)
                        if not f.get("two_call_history_reproduces"):
                            # the forks of the quick tier run a whole batch of calls: that batch is the history
                            hist["batch"], hist["batch_index"] = job["calls"], ci
                            f["what"] += (f"  [history: each of the {len(job['calls'])} calls of the batch with K = {job['keys'][i]}"
                                          f"{', deep-mutating every result' if mut else ''}, then the first {ci + 1} of them with K = "
                                          f"{job['keys'][j]}; see input.batch]")
                    res.failures.append(f)
                else:
                    ob["ok"] += 1
                if second.get("key_changed") or first.get("key_changed"):
                    res.failures.append({"what": f"{call} mutated its input {job['keys'][j]}", "input": hist})
            else:
                ob["differs" if (not ok_second and i != j) else "ok"] += 1
            # ---- what is returned twice for one key
            if i == j and not mut and "ok" in second["out"] and "same_as" in second:
                shared = bool(second["same_as"]) or bool(second["shares_with"])
                if second.get("has_mutable"):
                    ob["shared_mutable" if shared else "fresh_mutable"] += 1
                    if shared and public:
                        res.failures.append({"what": f"{call} with K = {job['keys'][j]} returned the same mutable {second['cls']} "
                                                     f"object (or shared mutable substructure) twice", "input": hist})
                elif shared:
                    ob["shared_immutable"] += 1
            # ---- abstract cross-check (public calls): the memo machine instantiated with the declared flags
            if public:
                d = decl or {"shared": False, "mutable": True}
                site = {"shared": bool(d["shared"]) if decl else False,
                        "mutable": bool(d["mutable"]) if decl else bool(second.get("has_mutable", False)),
                        "forgets": bool(decl is not None and keys_equal and i != j), "uses": bool(uses)}
                ops = [["call", 0, 0, 0]] + ([["mutate", 1]] if mut else []) + [["call", 0, 0, 0 if i == j else 1]]
                model_lines.append({"op": "cache.run", "sites": [site], "ops": ops})
                model_meta.append((call, entry, hist, ok_second, site))
    if model_lines:
        answers = lean.drive(model_lines)
        for (call, entry, hist, ok_second, site), m in zip(model_meta, answers):
            if "bad" in m:
                raise RuntimeError(f"driver: {m}")
            pred_equal = m["cached"][-1] == m["cold"][-1]
            if pred_equal == ok_second:
                res.count("siteA:memo-machine-agrees")
            elif pred_equal and not ok_second:
                res.count("siteA:MEMO-MACHINE-DISAGREES")
                res.disagreements.append({"what": f"the memo machine with the declared classification of "
                                                  f"{entry or 'an unmemoised function'} predicts the cold result for {call}; the real "
                                                  f"code differs", "input": hist, "real": "differs from cold",
                                          "model": {"site": site, "cached": m["cached"], "cold": m["cold"]}})
            else:
                # predicted sharing that the code does not show (the real key function forgets less than ==, e.g.
                # strload separates nothing it should not; typing returned the first object itself)
                res.count("siteA:memo-machine-overpredicts")
    # ---- the declared classification against what was observed
    for entry, ob in sorted(observed.items(), key=lambda kv: str(kv[0])):
        decl = table.get(entry)
        res.count(f"class:{entry}:" + json.dumps(ob, sort_keys=True))
        if decl is None:
            continue
        if decl["congruent"] and ob["differs"]:
            res.count(f"class:{entry}:DECLARED-CONGRUENT-BUT-NOT")
            res.disagreements.append({"what": f"site-table: {entry} is declared key-congruent but {ob['differs']} equal-key "
                                              f"histories differ from the cold run", "input": {"entry": entry}, "real": ob,
                                      "model": decl})
        if not decl["congruent"] and not ob["differs"]:
            res.count(f"class:{entry}:declared-noncongruent-no-witness(stale?)")
        if ob["shared_mutable"] and not (decl["shared"] and decl["mutable"]):
            res.count(f"class:{entry}:RETURNS-SHARED-MUTABLE-UNDECLARED")
            res.disagreements.append({"what": f"site-table: {entry} returned one mutable object twice but is declared "
                                              f"{'fresh' if not decl['shared'] else 'immutable'}", "input": {"entry": entry},
                                      "real": ob, "model": decl})
    return sites


# ------------------------------------------------------------------------------------------------ internal shared-mutable sites

def _internal_child(_job):
    """Child: the two library-internal sites that hand out a cached mutable object are only read by their callers:
    static_order's list and cached_type_hints' dict are unchanged by building and running routines; and the probe of what a
    direct caller of the public graph.static_order can do."""
    ns = _keys_ns()
    import typing
    import typelib
    from typelib import graph
    from typelib.py import inspection
    DC, NT, Invoice = ns["DC"], ns["NT"], ns["Invoice"]
    out = {"internal_mutation": [], "public_paths": []}
    for T in (DC, list[DC], typing.Optional[DC], dict[str, typing.Union[int, str]], NT, tuple[int, str], Invoice, list[Invoice]):
        lst = graph.static_order(T)
        snap = describe(lst)
        hints = inspection.cached_type_hints(T) if isinstance(T, type) else None
        hsnap = describe(hints) if hints is not None else None
        for build in (typelib.marshaller, typelib.unmarshaller, typelib.codec):
            build(T)
        for v in ({"x": "1", "y": ["2"]}, [{"x": 1}], None, {"a": "5"}, (1, "b"), "[1, 2]", {"net": "100"}, [{"net": 1, "rate": 2}], Invoice(5)):
            for f in (lambda: typelib.unmarshal(T, copy.deepcopy(v)), lambda: typelib.marshal(copy.deepcopy(v), t=T),
                      lambda: typelib.encode(copy.deepcopy(v), t=T)):
                try:
                    f()
                except Exception:  # noqa: BLE001
                    pass
        lst2 = graph.static_order(T)
        if describe(lst2) != snap:       # (identity is not demanded: since dd76572 every caller gets a list of its own)
            out["internal_mutation"].append(["static_order", repr(T), snap, describe(lst2)])
        if hints is not None and (inspection.cached_type_hints(T) is not hints or describe(hints) != hsnap):
            out["internal_mutation"].append(["cached_type_hints", repr(T), hsnap, describe(hints)])
    # does a routine / codec / TypeNode expose the cached list or dict?
    T = list[DC]
    lst = graph.static_order(T)
    ids = {id(lst), id(inspection.cached_type_hints(DC))}
    if hasattr(graph, "_static_order"):
        ids.add(id(graph._static_order(T)))
    for name, obj in (("marshaller", typelib.marshaller(T)), ("unmarshaller", typelib.unmarshaller(T)), ("codec", typelib.codec(T))):
        seen, todo = set(), [obj]
        while todo and len(seen) < 5000:
            o = todo.pop()
            if id(o) in seen or isinstance(o, (type, str, bytes, int, float)) or o is None:
                continue
            seen.add(id(o))
            if id(o) in ids:
                out["public_paths"].append(f"{name}: reaches a cached {'list' if o is lst else 'dict'} through its attributes")
            if isinstance(o, dict):
                todo += list(o.values())
            elif isinstance(o, (list, tuple, set, frozenset)):
                todo += list(o)
            else:
                for klass in type(o).__mro__:
                    for s in klass.__dict__.get("__slots__", ()) if not isinstance(klass.__dict__.get("__slots__", ()), str) else ():
                        if hasattr(o, s):
                            todo.append(getattr(o, s))
                if hasattr(o, "__dict__") and isinstance(o.__dict__, dict):
                    todo += list(o.__dict__.values())
    # the direct caller of the public function
    U = dict[str, int]
    cold_probe = describe(_probe_routine(typelib.unmarshaller(U)))
    clear_all_caches()
    got = graph.static_order(U)
    out["static_order_public"] = "static_order" in getattr(graph, "__all__", ())
    out["static_order_returns_cached_list"] = graph.static_order(U) is got and isinstance(got, list)
    got.clear()
    after = describe(_probe_routine(typelib.unmarshaller(U)))
    out["static_order_direct_mutation_changes_routines"] = after != cold_probe
    # a caller who walks the graph of a type itself (graph.itertypes / graph.static_order are public) before the first routine for
    # it is built: the routines built afterwards are those of a process that never looked (judged against the other spelling of the
    # same type, which nobody walked)
    out["graph_walk"] = []
    pairs = [(dict[str, list[int]], typing.Dict[str, typing.List[int]]), (list[tuple[int, str]], typing.List[typing.Tuple[int, str]]),
             (typing.Optional[list[float]], typing.Optional[typing.List[float]]), (set[int], typing.Set[int])]
    for cold_t, walked_t in pairs:
        for walk in (lambda t: [list(graph.itertypes(t)), list(graph.itertypes(t))], lambda t: [graph.static_order(t), list(graph.itertypes(t))]):
            clear_all_caches()
            cold = [describe(_probe_routine(typelib.unmarshaller(cold_t))), describe(_probe_routine(typelib.marshaller(cold_t))),
                    describe(_probe_codec(typelib.codec(cold_t)))]
            clear_all_caches()
            walks = walk(walked_t)
            if not walks[0]:
                raise RuntimeError(f"harness: the first walk of {walked_t} is empty")
            got = [describe(_probe_routine(typelib.unmarshaller(walked_t))), describe(_probe_routine(typelib.marshaller(walked_t))),
                   describe(_probe_codec(typelib.codec(walked_t)))]
            if got != cold:
                k = next(i for i in range(3) if got[i] != cold[i])
                out["graph_walk"].append([repr(walked_t), f"{('unmarshaller', 'marshaller', 'codec')[k]} built after the caller walked the graph "
                                                          f"behaves unlike the one of a process that did not: {_short(got[k])} vs {_short(cold[k])}"])
    # string references: the routine caches are keyed by the bare string, refs._resolve_module_name by (string, None),
    # but what the string names depends on the caller's frame
    import types
    src = ("import dataclasses, typelib\n@dataclasses.dataclass\nclass Node:\n    {f}: int\n"
           "def um(v):\n    return typelib.unmarshal('Node', v)\n")
    mods = []
    for name, f in (("c12_ref_a", "a"), ("c12_ref_b", "b")):
        m = types.ModuleType(name)
        sys.modules[name] = m
        exec(compile(src.format(f=f), name, "exec"), m.__dict__)
        mods.append(m)
    clear_all_caches()
    try:
        first, second = mods[0].um({"a": 1, "b": 2}), mods[1].um({"a": 1, "b": 2})
        out["string_reference_served_by_first_caller"] = type(second) is type(first)
    except Exception as e:  # noqa: BLE001
        out["string_reference_served_by_first_caller"] = f"{type(e).__name__}"
    return out


# ================================================================================================ annotation forms (type specs)

def _body(ts):
    return [x for x in ts if not isinstance(x, dict)]


def ordered_form(ts):
    """The spelling: everything Python can see of the anonymous structure, member order included."""
    b, h = _body(ts), enc.hints(ts)
    tag = b[0]
    if tag == "union":
        return ["union", h.get("sp", "typing"), [ordered_form(m) for m in b[1]]]
    if tag == "lit":
        return ["lit", [[type(v).__name__, v] for v in b[1]]]
    if tag == "coll":
        return ["coll", b[1], h.get("sp", "builtin"), ordered_form(b[2])]
    if tag == "tuple":
        return ["tuple", h.get("sp", "builtin"), [ordered_form(e) for e in b[1]]]
    if tag == "dict":
        return ["dict", h.get("sp", "builtin"), ordered_form(b[1]), ordered_form(b[2])]
    if tag == "wrap":
        return ["wrap", b[1], h.get("name"), ordered_form(b[2]) if b[1] in ("final", "classvar") else None]
    return b


def class_form(ts):
    """The key class: what Python's == / hash make of the annotation (unions and Literals are sets; a union of one
    member is that member; Optional / PEP 604 / typing.Union spellings are one)."""
    b, h = _body(ts), enc.hints(ts)
    tag = b[0]
    if tag == "union":
        ms = []
        for m in b[1]:
            c = class_form(m)
            ms += c[1] if (isinstance(c, list) and c and c[0] == "union") else [c]
        uniq = []
        for c in sorted(ms, key=lambda j: json.dumps(j, sort_keys=True)):
            if c not in uniq:
                uniq.append(c)
        return uniq[0] if len(uniq) == 1 else ["union", uniq]
    if tag == "lit":
        return ["lit", sorted(([type(v).__name__, v] for v in b[1]), key=json.dumps)]
    if tag == "coll":
        return ["coll", b[1], h.get("sp", "builtin"), class_form(b[2])]
    if tag == "tuple":
        return ["tuple", h.get("sp", "builtin"), [class_form(e) for e in b[1]]]
    if tag == "dict":
        return ["dict", h.get("sp", "builtin"), class_form(b[1]), class_form(b[2])]
    if tag == "wrap":
        return ["wrap", b[1], h.get("name"), class_form(b[2]) if b[1] in ("final", "classvar") else None]
    return b


def unionlikes(ts, prog, out, seen):
    """Every anonymous union / Literal reachable from ts (class fields and alias targets included), post-order."""
    b, h = _body(ts), enc.hints(ts)
    tag = b[0]
    if tag == "union":
        for m in b[1]:
            unionlikes(m, prog, out, seen)
        out.append(ts)
    elif tag == "lit":
        if len(b[1]) > 1:
            out.append(ts)
    elif tag == "coll":
        unionlikes(b[2], prog, out, seen)
    elif tag == "tuple":
        for e in b[1]:
            unionlikes(e, prog, out, seen)
    elif tag == "dict":
        unionlikes(b[1], prog, out, seen)
        unionlikes(b[2], prog, out, seen)
    elif tag == "wrap":
        key = ("alias", h.get("name"))
        if b[1] in ("final", "classvar"):
            unionlikes(b[2], prog, out, seen)
        elif key not in seen:
            seen.add(key)
            unionlikes(b[2], prog, out, seen)
    elif tag == "cls":
        key = ("cls", b[1])
        if key not in seen:
            seen.add(key)
            for _, ft in prog["classes"][b[1]]["fields"]:
                unionlikes(ft, prog, out, seen)
    return out


def _ck(j):
    return json.dumps(j, sort_keys=True)


class Spellings:
    """Union classes of one history and the spellings in which they occur."""

    def __init__(self):
        self.classes = {}       # class key -> index
        self.variants = []      # per class: list of ordered-form keys
        self.specs = []         # per class: list of specs

    def add(self, u):
        ck, ok = _ck(class_form(u)), _ck(ordered_form(u))
        ci = self.classes.setdefault(ck, len(self.classes))
        if ci == len(self.variants):
            self.variants.append([])
            self.specs.append([])
        if ok not in self.variants[ci]:
            self.variants[ci].append(ok)
            self.specs[ci].append(u)
        return ci, self.variants[ci].index(ok)


def history_aliasing(prog, ops):
    """The exclusion predicate of finding unionOrderKey on a history (Python side; Lean: aliasedKeys): the annotations of
    the history contain two unions (or Literals) that are == but list their members in different orders.  Also: per typed
    op the (class, variant) pairs of its union-likes, and whether one op's closure contains two spellings of one class."""
    sp = Spellings()
    per_op, ambiguous = [], False
    for op in ops:
        if "ty" not in op:
            per_op.append(None)
            continue
        us = unionlikes(op["ty"], prog, [], set())
        pairs, own = [], {}
        for u in us:
            c, v = sp.add(u)
            if own.setdefault(c, v) != v:
                ambiguous = True
            if (c, v) not in pairs:
                pairs.append((c, v))
        per_op.append(pairs)
    aliased = any(len(v) > 1 for v in sp.variants)
    return {"aliased": aliased, "ambiguous": ambiguous, "per_op": per_op, "sp": sp}


def respell(ts, prog, served, sp):
    """ts with every union-like replaced by the served spelling of its class."""
    b, h = _body(ts), enc.hints(ts)
    tag = b[0]
    if tag in ("union", "lit"):
        if tag == "lit" and len(b[1]) <= 1:
            return ts
        ci = sp.classes.get(_ck(class_form(ts)))
        u = ts
        if ci is not None and ci in served and served[ci] < len(sp.specs[ci]):
            u = sp.specs[ci][served[ci]]
        ub, uh = _body(u), enc.hints(u)
        if ub[0] == "union":
            return ["union", [respell(m, prog, served, sp) for m in ub[1]]] + ([uh] if uh else [])
        return u
    if tag == "coll":
        return ["coll", b[1], respell(b[2], prog, served, sp)] + ([h] if h else [])
    if tag == "tuple":
        return ["tuple", [respell(e, prog, served, sp) for e in b[1]]] + ([h] if h else [])
    if tag == "dict":
        return ["dict", respell(b[1], prog, served, sp), respell(b[2], prog, served, sp)] + ([h] if h else [])
    if tag == "wrap" and b[1] in ("final", "classvar"):
        return ["wrap", b[1], respell(b[2], prog, served, sp)] + ([h] if h else [])
    return ts


def respell_prog(prog, served, sp):
    p = copy.deepcopy(prog)
    for c in p["classes"]:
        c["fields"] = [[fn, respell(ft, prog, served, sp)] for fn, ft in c["fields"]]
    for a in p.get("aliases", {}).values():
        a["target"] = respell(a["target"], prog, served, sp)
    return p


# ================================================================================================ (B) histories

CALL_OPS = ("mar", "um", "enc", "dec")


def _history_child(job):
    """Child: run a history on the real library in THIS process.  Per op: outcome (None for ops without one), and
    whether a call changed its input."""
    warnings.simplefilter("ignore")
    import typelib
    P = enc.Program(job["prog"])
    ops = job["ops"]
    outs, results, inputs, notes = [], {}, {}, []
    for i, op in enumerate(ops):
        kind = op["op"]
        if kind == "clear":
            clear_all_caches()
            outs.append(None)
            continue
        if kind in ("mutres", "mutin"):
            store = results if kind == "mutres" else inputs
            if op["of"] in store:
                deep_mutate(store[op["of"]])
            outs.append(None)
            continue
        if kind == "read":
            if op["of"] in results:
                outs.append({"ok": enc.from_py(results[op["of"]], P)})
            else:
                outs.append({"none": True})
            continue
        try:
            ann = P.annotation(op["ty"])
        except BaseException as e:  # noqa: BLE001
            outs.append({"crash": f"annotation: {type(e).__name__}: {e}"})
            continue
        if kind == "build":
            fn = {"marshaller": typelib.marshaller, "unmarshaller": typelib.unmarshaller, "codec": typelib.codec}[op["what"]]
            outs.append(enc.run_real(lambda: fn(ann), P))
            continue
        try:
            v = enc.to_py(op["val"], P)
        except BaseException as e:  # noqa: BLE001
            outs.append({"crash": f"value: {type(e).__name__}: {e}"})
            continue
        inputs[i] = v
        before = enc.from_py(v, P)
        box = {}

        def call():
            if kind == "mar":
                box["r"] = typelib.marshal(v, t=ann)
            elif kind == "um":
                box["r"] = typelib.unmarshal(ann, v)
            elif kind == "enc":
                box["r"] = typelib.encode(v, t=ann)
            else:
                box["r"] = typelib.decode(ann, v)
            return box["r"]
        o = enc.run_real(call, P)
        if "r" in box:
            results[i] = box["r"]
        after = enc.from_py(v, P)
        if before != after and not (isinstance(before, list) and before and before[0] == "x"):
            o["input_mutated"] = {"before": before, "after": after}
        outs.append(o)
    return outs


def cold_deps(ops, j):
    """The history an operation's outcome is a function of, by the property: the operation itself; for `read i`: op i, the
    user's own mutations of result i / input i in between, and the read."""
    op = ops[j]
    if op["op"] in CALL_OPS or op["op"] == "build":
        return [dict(op)]
    if op["op"] == "read":
        i = op["of"]
        seq = [dict(ops[i])]
        for k in range(i + 1, j):
            if ops[k]["op"] in ("mutres", "mutin") and ops[k]["of"] == i:
                seq.append({"op": ops[k]["op"], "of": 0})
        seq.append({"op": "read", "of": 0})
        return seq
    return None


def scrub(o):
    """Addresses never take part in a comparison (str(memoryview) = '<memory at 0x7f…>' can end up inside a result)."""
    return json.loads(_ADDR.sub("0x", json.dumps(o)))


def same_outcome(a, b, unordered=False):
    if a is None or b is None:
        return a is b
    a, b = scrub(a), scrub(b)
    if "crash" in a or "crash" in b:
        return ("crash" in a) == ("crash" in b)
    if "none" in a or "none" in b:
        return ("none" in a) == ("none" in b)
    if "ok" in a and "ok" in b:
        c = enc.canon_unordered if unordered else enc.canon
        return c(a["ok"]) == c(b["ok"])
    if "err" in a and "err" in b:
        return a["err"] == b["err"]
    return False


def _unordered(prog, ops, j):
    op = ops[j]
    if op["op"] == "read":
        op = ops[op["of"]]
    return "ty" in op and enc.has_set(op["ty"], prog)


# ---- generation

def permute_union(rng, ts):
    """A twin of ts: one of its anonymous unions / Literals with its members in another order (None if there is none)."""
    b, h = _body(ts), enc.hints(ts)
    tag = b[0]
    tail = [h] if h else []
    if tag in ("union", "lit") and len(b[1]) >= 2 and rng.random() < 0.75:
        ms = list(b[1])
        for _ in range(8):
            rng.shuffle(ms)
            if ms != list(b[1]):
                break
        if ms == list(b[1]):
            return None
        if tag == "union":
            sp = h.get("sp", "typing")
            if sp == "optional":
                sp = "typing"        # Optional[X] can only be spelled with None last
            return ["union", ms, {"sp": rng.choice([sp, sp, "pipe", "typing"])}]
        return ["lit", ms]
    kids = []
    if tag == "union":
        kids = [("u", i) for i in range(len(b[1]))]
    elif tag == "coll":
        kids = [("c", 0)]
    elif tag == "tuple":
        kids = [("t", i) for i in range(len(b[1]))]
    elif tag == "dict":
        kids = [("d", 1), ("d", 0)]
    rng.shuffle(kids)
    for kind, i in kids:
        if kind in ("u", "t"):
            tw = permute_union(rng, b[1][i])
            if tw is not None:
                ms = list(b[1])
                ms[i] = tw
                return [tag, ms] + tail
        elif kind == "c":
            tw = permute_union(rng, b[2])
            if tw is not None:
                return ["coll", b[1], tw] + tail
        else:
            tw = permute_union(rng, b[1 + i])
            if tw is not None:
                out = ["dict", b[1], b[2]] + tail
                out[1 + i] = tw
                return out
    return None


def twin_value(rng, v, prog):
    """An equal-but-distinct input: 1 / 1.0 / True, an equal instant at another offset, equal text in another carrier,
    a str-enum member equal to the text; recursively inside containers.  None if there is nothing to change."""
    if isinstance(v, bool):
        return int(v)
    if isinstance(v, int) and v in (0, 1):
        return rng.choice([bool(v), ["f", f"{v}.0"]])
    if isinstance(v, int) and abs(v) < 2 ** 50:
        return ["f", f"{v}.0"]
    if isinstance(v, str):
        members = [["m", c["id"], i] for c in prog["classes"] if c["kind"] == "enum" and c["mixin"] == "str"
                   for i, (_, mv) in enumerate(c["members"]) if mv == v]
        if members and rng.random() < 0.6:
            return rng.choice(members)
        return ["b", rng.choice(["bytes", "bytearray", "mview"]), v]
    if isinstance(v, list) and v:
        tag = v[0]
        if tag == "f" and float(v[1]).is_integer() and abs(float(v[1])) < 2 ** 50:
            return int(float(v[1]))
        if tag == "dt":
            off = rng.choice([o for o in (0, 19800, -18000, 3600, 43200) if o != v[2]])
            lo, hi = (1 - 719163) * universe.US_DAY, (universe.MAX_ORD - 719163 + 1) * universe.US_DAY - 1
            if lo <= v[1] + off * 1000000 <= hi:
                return ["dt", v[1], off]
            return None
        if tag == "b":
            return ["b", rng.choice([k for k in ("bytes", "bytearray", "mview", "mviewW") if k != v[1]]), v[2]]
        if tag in ("l", "t", "dq") and v[1]:
            idx = list(range(len(v[1])))
            rng.shuffle(idx)
            for i in idx:
                tw = twin_value(rng, v[1][i], prog)
                if tw is not None:
                    xs = list(v[1])
                    xs[i] = tw
                    return [tag, xs]
        if tag == "d" and v[1]:
            idx = list(range(len(v[1])))
            rng.shuffle(idx)
            for i in idx:
                tw = twin_value(rng, v[1][i][1], prog)
                if tw is not None:
                    kvs = [list(kv) for kv in v[1]]
                    kvs[i][1] = tw
                    return ["d", kvs]
        if tag == "o" and v[2]:
            idx = list(range(len(v[2])))
            rng.shuffle(idx)
            for i in idx:
                tw = twin_value(rng, v[2][i][1], prog)
                if tw is not None:
                    kvs = [list(kv) for kv in v[2]]
                    kvs[i][1] = tw
                    return ["o", v[1], kvs]
    return None


DISCRIMINATING = ["5", "1", "1.5", "null", "true", "[1, 2]", '{"a": 1}', "2020-01-02", "abc", "0", "12:30:00", "P1D", "None", "7"]


def gen_history(rng, g, prog, max_len, force_twins):
    depth = 2
    pool = [g.ty(depth) for _ in range(rng.randint(1, 3))]
    if force_twins or rng.random() < 0.5:
        base = rng.choice([["union", [["int"], ["str"]], {"sp": "typing"}], ["union", [["str"], ["int"], ["none"]], {"sp": "typing"}],
                           ["coll", "list", ["union", [["float"], ["str"]], {"sp": "pipe"}], {"sp": "builtin"}],
                           ["dict", ["str"], ["union", [["int"], ["str"]], {"sp": "typing"}], {"sp": rng.choice(["builtin", "typing"])}],
                           ["union", [["date"], ["datetime"], ["str"]], {"sp": "typing"}],
                           ["union", [["bool"], ["int"], ["float"], ["str"]], {"sp": "typing"}]])
        pool.append(base)
    for t in list(pool):
        if rng.random() < (0.9 if force_twins else 0.5):
            tw = permute_union(rng, t)
            if tw is not None:
                pool.append(tw)
    rng.shuffle(pool)
    n = rng.randint(3, max_len)
    ops, calls = [], []
    used_vals = {}
    while len(ops) < n:
        r = rng.random()
        if r < 0.10:
            ops.append({"op": "build", "what": rng.choice(["marshaller", "unmarshaller", "codec"]), "ty": rng.choice(pool)})
        elif r < 0.66 or not calls:
            ts = rng.choice(pool)
            kind = rng.choice(["um", "um", "um", "mar", "mar", "enc", "dec"])
            ck = _ck(class_form(ts))
            if kind in ("mar", "enc"):
                prev = used_vals.get(("v", ck))
                if prev is not None and rng.random() < 0.5:
                    v = prev if rng.random() < 0.5 else (twin_value(rng, prev, prog) or prev)
                else:
                    v = g.value(ts, budget=2) if rng.random() < 0.85 else g.junk()
                used_vals[("v", ck)] = v
            elif kind == "um":
                prev = used_vals.get(("w", ck))
                x = rng.random()
                if prev is not None and x < 0.35:
                    v = prev if rng.random() < 0.5 else (twin_value(rng, prev, prog) or prev)
                elif x < 0.6:
                    v = rng.choice(DISCRIMINATING)
                elif x < 0.8:
                    v = g.value(ts, budget=2)
                else:
                    v = g.junk()
                used_vals[("w", ck)] = v
            else:
                w = rng.choice([g.junk_flat(), g.junk_flat(), rng.choice(DISCRIMINATING)])
                try:
                    text = universe.render_json(w) if universe.is_plain_wire(w) else str(w)
                except ValueError:
                    text = "null"
                v = ["b", rng.choice(["bytes", "bytes", "bytearray"]), text]
            if _has_iter(v):
                continue
            calls.append(len(ops))
            ops.append({"op": kind, "ty": ts, "val": v})
        elif r < 0.86:
            # deep-mutate an earlier result / input; often followed by the same call again (call-mutate-call), with the
            # same or an equal-but-distinct input
            i = rng.choice(calls)
            ops.append({"op": "mutres" if r < 0.78 else "mutin", "of": i})
            if rng.random() < 0.6:
                again = copy.deepcopy(ops[i])
                if rng.random() < 0.3:
                    again["val"] = twin_value(rng, again["val"], prog) or again["val"]
                calls.append(len(ops))
                ops.append(again)
        elif r < 0.94:
            ops.append({"op": "read", "of": rng.choice(calls)})
        else:
            ops.append({"op": "clear"})
    return ops


def _has_iter(v):
    if isinstance(v, list) and v:
        if v[0] == "it":
            return True
        if v[0] in ("l", "t", "s", "fs", "dq"):
            return any(_has_iter(x) for x in v[1])
        if v[0] == "d":
            return any(_has_iter(k) or _has_iter(x) for k, x in v[1])
        if v[0] == "o":
            return any(_has_iter(x) for _, x in v[2])
    return False


# ---- shrinking

def drop_op(ops, k):
    """ops without op k (and without the ops that refer to it), references renumbered."""
    keep, remap = [], {}
    for i, op in enumerate(ops):
        if i == k or ("of" in op and op["of"] not in remap):
            continue
        remap[i] = len(keep)
        o = dict(op)
        if "of" in o:
            o["of"] = remap[o["of"]]
        keep.append(o)
    return keep


def fails_at_end(prog, ops_list):
    """For each history: does its LAST operation differ, warm, from the cold run?  (one warm fork + one cold fork each)"""
    jobs = []
    for ops in ops_list:
        jobs.append({"prog": prog, "ops": ops})
        jobs.append({"prog": prog, "ops": cold_deps(ops, len(ops) - 1)})
    outs = iso.map_isolated(_history_child, jobs, timeout=120.0)
    res = []
    for i, ops in enumerate(ops_list):
        w, c = outs[2 * i], outs[2 * i + 1]
        if isinstance(w, dict) or isinstance(c, dict):
            res.append(False)
            continue
        res.append(not same_outcome(w[-1], c[-1], _unordered(prog, ops, len(ops) - 1)))
    return res


def minimise(prog, ops, j):
    """Delta-debug ops[:j+1] (greedy removal of single operations until none can go) keeping 'the last operation differs
    from cold'."""
    cur = ops[:j + 1]
    if not fails_at_end(prog, [cur])[0]:
        return cur, False
    for _ in range(12):
        cands = [drop_op(cur, k) for k in range(len(cur) - 1)]
        cands = [c for c in cands if c and len(c) < len(cur) and c[-1].get("op") == cur[-1].get("op")]
        if not cands:
            break
        verdicts = fails_at_end(prog, cands)
        nxt = [c for c, v in zip(cands, verdicts) if v]
        if not nxt:
            break
        cur = min(nxt, key=len)
    return cur, True


def show_history(prog, ops):
    out = []
    for op in ops:
        if "ty" in op:
            ann = enc.pyexpr(op["ty"], prog)
            if op["op"] == "build":
                out.append(f"{op['what']}({ann})")
            elif op["op"] == "mar":
                out.append(f"marshal({json.dumps(op['val'])}, t={ann})")
            elif op["op"] == "um":
                out.append(f"unmarshal({ann}, {json.dumps(op['val'])})")
            elif op["op"] == "enc":
                out.append(f"encode({json.dumps(op['val'])}, t={ann})")
            else:
                out.append(f"decode({ann}, {json.dumps(op['val'])})")
        elif op["op"] == "clear":
            out.append("clear caches")
        else:
            out.append({"mutres": "deep-mutate result of #", "mutin": "deep-mutate input of #", "read": "read result of #"}[op["op"]]
                       + str(op["of"]))
    return out


def check_histories(ctx, res):
    quick = ctx.tier == "quick"
    n_hist = ctx.n(160, 3000)
    max_len = 12 if quick else 30
    rng = ctx.rng
    hists = []
    for i in range(n_hist):
        g = universe.Gen(rng, universe.Cfg(max_depth=2, classes=(0, 2), enums=(0, 1), any_ok=False))
        prog = g.program(tag=f"c12_{i}")
        ops = gen_history(rng, g, prog, max_len, force_twins=(i % 3 == 0))
        hists.append({"prog": prog, "ops": ops})
    for d in ctx.focus:
        if isinstance(d, dict) and "prog" in d and "ops" in d:
            hists.append({"prog": d["prog"], "ops": d["ops"]})
    res.programs = len(hists)
    # ---- warm: the whole history in one fork; cold: every operation alone
    warm = iso.map_isolated(_history_child, hists, timeout=180.0)
    cold_jobs, cold_at = [], {}
    for hi, h in enumerate(hists):
        for j in range(len(h["ops"])):
            deps = cold_deps(h["ops"], j)
            if deps is not None:
                cold_at[(hi, j)] = len(cold_jobs)
                cold_jobs.append({"prog": h["prog"], "ops": deps})
    cold = iso.map_isolated(_history_child, cold_jobs, timeout=180.0)
    res.count("hist:cold-forks", len(cold_jobs))
    # ---- the memo machine's prediction (abstract level): which spelling serves every union class at every op
    infos = [history_aliasing(h["prog"], h["ops"]) for h in hists]
    lines = []
    for h, info in zip(hists, infos):
        aops = []
        for op, pairs in zip(h["ops"], info["per_op"]):
            if op["op"] == "clear":
                aops.append(["clear"])
            for c, v in pairs or []:
                aops.append(["call", 0, c, v])
        lines.append({"op": "cache.run", "sites": [{"shared": True, "mutable": False, "forgets": True, "uses": True}], "ops": aops})
    answers = lean.drive(lines) if lines else []
    served_at = []           # per history, per op: {class: served variant} / None
    for h, info, m in zip(hists, infos, answers):
        if "bad" in m:
            raise RuntimeError(f"driver: {m}")
        if bool(m["aliased"]) != info["aliased"]:
            res.disagreements.append({"what": "exclusion predicate unionOrderKey: Lean aliasedKeys vs Python history_aliasing",
                                      "input": {"prog": h["prog"], "ops": h["ops"]}, "real": info["aliased"], "model": m["aliased"]})
        it = iter(x for x in m["cached"] if x is not None)
        per = []
        for op, pairs in zip(h["ops"], info["per_op"]):
            if pairs is None:
                per.append(None)
                continue
            sv = {}
            for c, v in pairs:
                got = next(it)
                sv[got[0]] = got[1]
            per.append(sv)
        served_at.append(per)
    # ---- predicted outcomes where the served spelling is not the op's own
    pred_jobs, pred_at = [], {}
    for hi, (h, info) in enumerate(zip(hists, infos)):
        if not info["aliased"] or info["ambiguous"]:
            continue
        for j, op in enumerate(h["ops"]):
            sv = served_at[hi][j]
            if sv is None or op["op"] not in CALL_OPS + ("build",):
                continue
            own = dict(info["per_op"][j])
            if all(sv.get(c) == v for c, v in own.items()):
                continue
            p2 = respell_prog(h["prog"], sv, info["sp"])
            o2 = dict(op)
            o2["ty"] = respell(op["ty"], h["prog"], sv, info["sp"])
            pred_at[(hi, j)] = len(pred_jobs)
            pred_jobs.append({"prog": p2, "ops": [o2]})
    pred = iso.map_isolated(_history_child, pred_jobs, timeout=180.0) if pred_jobs else []
    res.count("hist:predicted-forks", len(pred_jobs))

    new_failures = []
    diverged = set()         # (history, op) whose outcome differs from cold: reading that result back adds nothing
    for hi, (h, w) in enumerate(zip(hists, warm)):
        prog, ops, info = h["prog"], h["ops"], infos[hi]
        if isinstance(w, dict) and "crash" in w:
            raise RuntimeError(f"harness: history child failed: {w}")
        typed = sum(1 for op in ops if op["op"] in CALL_OPS)
        res.case({"ops": ops}, typed >= 2)
        res.count("hist:len", len(ops))
        res.count("hist:aliased" if info["aliased"] else "hist:unaliased")
        for j, op in enumerate(ops):
            res.count("op:" + op["op"])
            if (hi, j) not in cold_at:
                continue
            c = cold[cold_at[(hi, j)]]
            if isinstance(c, dict) and "crash" in c:
                raise RuntimeError(f"harness: cold child failed: {c}")
            wo, co = w[j], c[-1]
            if isinstance(wo, dict) and "crash" in wo or isinstance(co, dict) and "crash" in co:
                if not same_outcome(wo, co):
                    raise RuntimeError(f"harness: materialisation differs warm/cold: {wo} / {co}")
                res.count("hist:op-crash(harness)")
                continue
            res.evaluations += 1
            unordered = _unordered(prog, ops, j)
            inp = {"prog": prog, "ops": ops, "at": j, "history": show_history(prog, ops[:j + 1])}
            if isinstance(wo, dict) and "input_mutated" in wo:
                res.failures.append({"what": f"operation #{j} {show_history(prog, [op])[0]} mutated its input",
                                     "input": inp, "detail": wo["input_mutated"]})
            if op["op"] == "read" and (hi, op["of"]) in diverged:
                res.count("hist:read-of-an-already-diverged-result")
                continue
            if same_outcome(wo, co, unordered):
                res.count("hist:op-same-as-cold")
                if (hi, j) in pred_at:
                    p = pred[pred_at[(hi, j)]]
                    if not isinstance(p, dict) and not same_outcome(p[-1], co, unordered):
                        # the machine says another spelling serves this op and that spelling's cold outcome differs,
                        # yet the warm outcome is the op's own: the machine over-predicts sharing
                        res.count("hist:model-overpredicts")
                        res.extra.setdefault("overpredicted", []).append(show_history(prog, ops[:j + 1])[-4:])
                continue
            diverged.add((hi, j))
            explained = None
            if (hi, j) in pred_at:
                p = pred[pred_at[(hi, j)]]
                explained = (not isinstance(p, dict)) and same_outcome(wo, p[-1], unordered)
            if info["aliased"] and op["op"] != "read" and (explained or (explained is None and info["ambiguous"])):
                res.count("hist:diff-explained-by-memo-machine" if explained else "hist:diff-in-ambiguous-history")
                res.failures.append({"what": f"operation #{j} {show_history(prog, [op])[0]} gives {_short(wo)} after the history, "
                                             f"{_short(co)} alone in a cold process (served by the first-built member order)",
                                     "input": inp, "warm": wo, "cold": co, "finding": FINDING})
            else:
                new_failures.append((hi, j, wo, co, info, explained))
    # ---- everything else is a new violation: minimise before reporting
    for hi, j, wo, co, info, explained in new_failures[:6]:
        h = hists[hi]
        small, reproduced = minimise(h["prog"], h["ops"], j)
        sinfo = history_aliasing(h["prog"], small)
        f = {"what": f"history dependence: {show_history(h['prog'], [small[-1]])[0]} gives {_short(wo)} after the history "
                     f"{show_history(h['prog'], small[:-1])}, {_short(co)} alone in a cold process",
             "input": {"prog": h["prog"], "ops": small, "at": len(small) - 1, "history": show_history(h["prog"], small),
                       "original_ops": h["ops"] if len(h["ops"]) <= 40 else None, "original_at": j},
             "warm": wo, "cold": co, "minimised": reproduced, "aliased_history": sinfo["aliased"],
             "memo_machine_explains": explained}
        if reproduced and sinfo["aliased"] and small[-1]["op"] != "read" and explained is not False:
            # the minimal history still contains a permuted union: same shape as the known finding
            typed = [op for op in small if "ty" in op]
            last = small[-1]
            lastc = {c for c, _ in (history_aliasing(h["prog"], [last])["per_op"][0] or [])} if "ty" in last else set()
            f["finding"] = FINDING if lastc and len(typed) >= 2 else None
            if f["finding"] is None:
                del f["finding"]
        res.failures.append(f)
    for hi, j, wo, co, info, explained in new_failures[6:]:
        h = hists[hi]
        res.failures.append({"what": f"history dependence at operation #{j} (not minimised)",
                             "input": {"prog": h["prog"], "ops": h["ops"], "at": j,
                                       "history": show_history(h["prog"], h["ops"][:j + 1])}, "warm": wo, "cold": co})
    res.extra["histories"] = len(hists)
    res.extra["max_history_length"] = max_len


# ================================================================================================ explore

# ================================================================================================ part (C): one routine, many inputs

SEQ_PRELUDE = """
import dataclasses, datetime, decimal, typing
@dataclasses.dataclass
class Row:
    key: int | str
    tags: typing.Optional[list[int] | list[str]] = None
@dataclasses.dataclass
class Invoice:
    net: int
    rate: int = 20
    gross: int = dataclasses.field(init=False, default=0)
    def __post_init__(self):
        self.gross = self.net + self.net * self.rate // 100
class Pt2:
    # fields known from __init__ only; a subclass overrides __init__ with MORE parameters
    def __init__(self, x: int, y: int):
        self.x, self.y = x, y
    def __repr__(self):
        return f"{type(self).__name__}({vars(self)})"
class Pt3(Pt2):
    def __init__(self, x: int, y: int, z: int):
        super().__init__(x, y)
        self.z = z
class Span:
    # no class-level annotations, no slots: what an instance holds is read from the instance -- and instances differ
    def __init__(self, start: int, stop: typing.Optional[int] = None):
        self.start = start
        if stop is not None:
            self.stop = stop
    def __repr__(self):
        return f"Span({vars(self)})"
"""
SEQ_TYPES = ["int | str", "typing.Union[int, str, None]", "list[int] | list[str]", "int | float", "float | str", "datetime.date | str",
             "decimal.Decimal | str", "bool | int | str", "dict[str, int | str]", "list[int | str]", "tuple[int | str, ...]", "Row",
             "typing.Optional[Row]", "int | datetime.date", "float | datetime.timedelta", "str", "int", "list[int]", "Invoice", "list[Invoice]",
             "Span", "dict[str, int]", "Pt2", "Pt3", "datetime.timedelta", "datetime.date", "datetime.datetime", "datetime.time",
             # mappings whose KEY types share an origin (Literal, tuple) and differ in their arguments only
             "dict[typing.Literal['a', 'b'], int]", "dict[typing.Literal['a'], int]", "dict[tuple[int, str], float]", "dict[tuple[str, int], float]",
             "dict[tuple[int, int, int], str]",
             # Literal forms which compare EQUAL (1 == True, typing ignores the order of members) and are different annotations
             "typing.Literal[1, True]", "typing.Literal[True, 1]", "typing.Literal[0, False, 'a']", "typing.Literal['a', False, 0]",
             "list[typing.Literal[True, 1]]"]
LIT_TWINS = [["typing.Literal[1, True]", "typing.Literal[True, 1]"], ["typing.Literal[0, False, 'a']", "typing.Literal['a', False, 0]"],
             ["typing.Literal[1, True]", "list[typing.Literal[True, 1]]"]]
LIT_INPUTS = ["True", "1", "False", "0", "'1'", "'a'", "[True, 1]", "'true'"]
KEY_TWINS = [["dict[typing.Literal['a', 'b'], int]", "dict[typing.Literal['a'], int]"], ["dict[tuple[int, str], float]", "dict[tuple[str, int], float]"],
             ["dict[tuple[int, int, int], str]", "dict[tuple[int, str], float]"]]
KEY_INPUTS = ["{'a': '1', 'b': '2'}", "{'b': '2'}", "{'a': '1'}", "{'1,2': '0.5'}", "{'7,8,9': 'x'}", "'{\"1,2\": \"0.5\"}'"]
TEMPORAL_TYPES = ["datetime.timedelta", "datetime.date", "datetime.datetime", "datetime.time", "datetime.date | str", "float | datetime.timedelta"]
TEMPORAL_TEXTS = ["'2020-01-02'", "'PT1H30M'", "'2021-05-06T07:08:09+00:00'", "'12:30:00+00:00'", "b'PT1H30M'", "b'2020-01-02'"]
SEQ_INPUTS = ["'abc'", "'5'", "'1.5'", "5", "1.5", "float('inf')", "True", "None", "['a', 'b']", "['1', '2']", "[1, 2]", "{'k': 'abc'}",
              "{'k': '5'}", "('x', '7')", "'2020-01-02'", "datetime.date(2020, 1, 2)", "{'key': 'abc'}", "{'key': '5'}",
              "Row('abc')", "Row('5', ['1'])", "Row(5, ['a'])", "b'5'", "b'abc'", "datetime.timedelta(seconds=3)", "7200",
              "Invoice(100, 20)", "{'net': 100, 'rate': 20}", "[Invoice(1)]", "[{'net': '3'}]",
              "Span(1)", "Span(1, 5)", "Span(2, 7)", "Pt2(1, 2)", "Pt3(1, 2, 3)", "{'x': '1', 'y': '2'}", "{'x': '1', 'y': '2', 'z': '3'}",
              "'PT1H30M'", "'2021-05-06T07:08:09+00:00'", "'12:30:00+00:00'", "b'PT1H30M'", "b'2020-01-02'",
              # texts and numbers beyond the interpreter's limit for int <-> str conversion (4300 digits)
              "'9' * 5000", "'word ' * 1200", "10 ** 5000", "['7' * 4400]",
              "{'a': '1', 'b': '2'}", "{'b': '2'}", "{'a': '1'}", "{'1,2': '0.5'}", "{'7,8,9': 'x'}", "'{\"1,2\": \"0.5\"}'",
              "1", "False", "0", "'1'", "'a'", "[True, 1]", "'true'"]
SEQ_OPS = ["marshal", "unmarshal", "encode", "decode"]


def _seq_child(job):
    """Runs ops in order on ONE process; returns the described outcome of each."""
    import warnings
    warnings.simplefilter("ignore")
    import sys
    import types
    import typelib
    mod = sys.modules.get("c12_seq")
    if mod is None:
        mod = types.ModuleType("c12_seq")
        sys.modules["c12_seq"] = mod
        exec(SEQ_PRELUDE, mod.__dict__)
    ns = mod.__dict__
    out = []

    def interpreter_state():
        import decimal
        c = decimal.getcontext()
        return {"sys.get_int_max_str_digits()": sys.get_int_max_str_digits(), "sys.getrecursionlimit()": sys.getrecursionlimit(),
                "decimal context": [c.prec, c.rounding, c.Emin, c.Emax, c.capitals, c.clamp, sorted(str(t_) for t_, on in c.traps.items() if on)],
                "sys.getswitchinterval()": sys.getswitchinterval()}
    for op, texpr, xexpr in job:
        T = eval(texpr, ns)
        x = eval(xexpr, ns)
        before = interpreter_state()
        try:
            if op == "marshal":
                r = typelib.marshal(x, t=T)
            elif op == "unmarshal":
                r = typelib.unmarshal(T, x)
            elif op == "encode":
                r = typelib.encode(x, t=T)
            else:
                r = typelib.decode(T, x if isinstance(x, (bytes, str)) else typelib.compat.json.dumps(x))
            out.append(["ok", describe(r)])
        except Exception as e:  # noqa: BLE001
            out.append(["err", enc.err_class(e)])
        after = interpreter_state()
        if after != before:
            # a call that changes a PROCESS-WIDE setting of the interpreter changes what every later call (of any library) does
            out[-1] = out[-1] + [{"interpreter state changed": {k: [before[k], after[k]] for k in before if before[k] != after[k]}}]
    return out


def check_sequences(ctx, res):
    """Part (C): the routine of ONE annotation fed a random sequence of different inputs (same class, different value; different
    classes) must answer each exactly as a cold process does for that input alone -- a routine may not learn from earlier inputs."""
    rng = ctx.rng
    n_seq = ctx.n(4, 40)
    cold_jobs = [[(op, t, x)] for op in SEQ_OPS for t in SEQ_TYPES for x in SEQ_INPUTS]
    warm_jobs = []
    for op in SEQ_OPS:
        for t in SEQ_TYPES:
            for _ in range(n_seq):
                xs = [rng.choice(SEQ_INPUTS) for _ in range(10)]
                warm_jobs.append([(op, t, x) for x in xs])
    # the four operations interleaved on one annotation (a routine of one direction may not change what the other direction answers)
    for t in SEQ_TYPES:
        for _ in range(n_seq):
            warm_jobs.append([(rng.choice(SEQ_OPS), t, rng.choice(SEQ_INPUTS)) for _ in range(12)])
    # several RELATED annotations in one process (a class and its subclass, a class and its Optional, ...): what was built for one
    # may not leak into the other
    groups = [["Pt2", "Pt3"], ["Pt3", "Pt2"], ["Row", "typing.Optional[Row]", "Invoice"], ["Span", "dict[str, int]", "Pt2"], ["Invoice", "list[Invoice]", "Pt3"]]
    for grp in groups:
        for _ in range(max(2, n_seq)):
            warm_jobs.append([(rng.choice(SEQ_OPS), rng.choice(grp), rng.choice(SEQ_INPUTS)) for _ in range(14)])
        # and deterministically: everything for the first, then everything for the second
        warm_jobs.append([(op, t, x) for t in grp[:2] for op in ("unmarshal", "marshal") for x in ("Pt2(1, 2)", "Pt3(1, 2, 3)", "{'x': '1', 'y': '2', 'z': '3'}")])
    # ONE text under two temporal annotations, every ordered pair: what a text is NOT (a duration, for a date routine) may not be
    # remembered against what it is
    for x in TEMPORAL_TEXTS:
        for t1 in TEMPORAL_TYPES:
            for t2 in TEMPORAL_TYPES:
                if t1 != t2:
                    warm_jobs.append([("unmarshal", t1, x), ("unmarshal", t2, x)])
        warm_jobs.append([(op, t, x) for op in ("unmarshal", "decode") for t in TEMPORAL_TYPES] + [("unmarshal", t, x) for t in reversed(TEMPORAL_TYPES)])
    # mapping types whose key annotations share an origin: what one converted a key text to is nothing to the other
    for t1, t2 in KEY_TWINS:
        for a, b in ((t1, t2), (t2, t1)):
            for x in KEY_INPUTS:
                for y in KEY_INPUTS:
                    warm_jobs.append([("unmarshal", a, x), ("unmarshal", b, y)])
    for t1, t2 in LIT_TWINS:
        for a, b in ((t1, t2), (t2, t1)):
            for x in LIT_INPUTS:
                warm_jobs.append([("unmarshal", a, x), ("unmarshal", b, x), ("marshal", a, x), ("marshal", b, x)])
    outs = iso.map_isolated(_seq_child, cold_jobs + warm_jobs, timeout=120.0)
    cold = {}
    for job, o in zip(cold_jobs, outs[:len(cold_jobs)]):
        if not isinstance(o, list):
            raise RuntimeError(f"harness: sequence probe failed: {o}")
        cold[job[0]] = o[0]
    for job, o in zip(warm_jobs, outs[len(cold_jobs):]):
        if not isinstance(o, list):
            raise RuntimeError(f"harness: sequence probe failed: {o}")
        for i, (step, got) in enumerate(zip(job, o)):
            res.case({"seq": list(step), "after": i}, i > 0)
            if len(got) > 2:
                res.failures.append({"what": f"{step[0]}({step[1]}, {step[2][:60]}) changed process-wide interpreter state: {json.dumps(got[2])[:300]}",
                                     "input": {"sequence": [list(step)]}, "warm": got[:2], "cold": cold[step][:2]})
                break
            if got != cold[step]:
                # minimise: the shortest prefix + this step that still differs
                hist = job[:i + 1]
                for k in range(i):
                    cand = [job[k], job[i]]
                    r2 = iso.map_isolated(_seq_child, [cand], timeout=60.0)[0]
                    if isinstance(r2, list) and r2[-1] != cold[step]:
                        hist = cand
                        break
                res.failures.append({"what": f"{step[0]}({step[1]}, {step[2]}) answers differently after other inputs went through the same "
                                             "routine than in a cold process",
                                     "input": {"sequence": [list(h) for h in hist]}, "warm": got, "cold": cold[step]})
                break
            res.count("oracle:sequence-history-independent")


# ---- (D) unparameterised containers: contents are passed through by contract, the container itself is still the call's own
BARE_SRC = """
import collections, dataclasses, typing
@dataclasses.dataclass
class Event:
    name: str
    meta: dict
    tags: list = dataclasses.field(default_factory=list)
class Conf(typing.TypedDict):
    opts: typing.Mapping
"""
BARE_CASES = [("dict", "{'host': 'a1', 'retries': 3}"), ("typing.Mapping", "{'host': 'a1', 'retries': 3}"), ("typing.Dict", "{'k': 1}"),
              ("collections.abc.MutableMapping", "{'k': 1}"), ("None", "{'host': 'a1', 'retries': 3}"), ("list", "[1, 'a', 2.5]"),
              ("typing.List", "[1, 2]"), ("None", "[1, 'a']"), ("typing.Sequence", "[1, 2]"), ("set", "{1, 2}"),
              ("Event", "Event('boot', {'host': 'a1', 'retries': 3}, ['x'])"), ("list[Event]", "[Event('boot', {'k': 1}, [1])]"),
              ("Conf", "{'opts': {'a': 1}}"), ("dict[str, dict]", "{'a': {'k': 1}}"), ("dict[str, list]", "{'a': [1, 2]}")]


def _bare_child(case):
    """marshal / encode of flat values under unparameterised container annotations: r1 = f(x); deep-mutate r1; x and f(x) are as
    in a cold run; deep-mutate x; the earlier result is unchanged; two results share no mutable container with x or each other."""
    warnings.simplefilter("ignore")
    import sys
    import types
    import typelib
    mod = types.ModuleType("vm_c12_bare")
    sys.modules["vm_c12_bare"] = mod
    ns = mod.__dict__
    exec(BARE_SRC, ns)
    t = eval(case[0], ns)
    mk = lambda: eval(case[1], ns)     # noqa: E731
    call = (lambda v: typelib.marshal(v)) if t is None else (lambda v: typelib.marshal(v, t=t))
    out = []
    x = mk()
    cold = describe(call(mk()))
    x0 = describe(x)
    r1 = call(x)
    ids_x, ids_r1 = set(), set()
    _mutable_ids(x, ids_x)
    _mutable_ids(r1, ids_r1)
    if ids_x & ids_r1:
        out.append("the result shares a mutable container with the input")
    r2 = call(x)
    ids_r2 = set()
    _mutable_ids(r2, ids_r2)
    if ids_r1 & ids_r2:
        out.append("two calls returned the same mutable container")
    snap2 = describe(r2)
    deep_mutate(r1)
    if describe(x) != x0:
        out.append(f"deep-mutating a returned result changed the input: {describe(x)!r} (was {x0!r})"[:300])
    r3 = describe(call(mk()))
    if r3 != cold:
        out.append("marshal of an equal fresh input differs after an earlier result was deep-mutated")
    if describe(r2) != snap2:
        out.append("deep-mutating one result changed another call's result")
    y = mk()
    r4 = call(y)
    snap4 = describe(r4)
    deep_mutate(y)
    if describe(r4) != snap4:
        out.append(f"deep-mutating a passed input changed the result returned earlier: {describe(r4)!r} (was {snap4!r})"[:300])
    if t is not None:
        e1 = typelib.encode(mk(), t=t)
        z = mk()
        deep_mutate(typelib.marshal(z, t=t))
        if typelib.encode(z, t=t) != e1:
            out.append("encode differs after the caller deep-mutated an earlier marshal result of the same object")
    return out


def check_bare(ctx, res):
    outs = iso.map_isolated(_bare_child, BARE_CASES, timeout=60.0)
    for case, o in zip(BARE_CASES, outs):
        if not isinstance(o, list):
            raise RuntimeError(f"harness: bare-container probe failed: {case}: {o}")
        res.case({"bare": list(case)}, True)
        if o:
            res.failures.append({"what": f"marshal({case[1]}, t={case[0]}): " + "; ".join(o), "input": {"bare_case": list(case)}, "observed": o})
        else:
            res.count("oracle:bare-container-results-are-the-call's-own")


# ---- references by NAME issued through a helper module (a loader that is handed the name of the type): what one name resolved to --
# or failed to -- is nothing to the next name
REFSEQ_APP = """
import dataclasses
import c12_loader
@dataclasses.dataclass
class Point:
    x: int
    y: int
@dataclasses.dataclass
class Line:
    start: Point
    end: Point
@dataclasses.dataclass
class Tag:
    name: str
def run(seq):
    out = []
    for kind, raw in seq:
        try:
            out.append(["ok", repr(c12_loader.load(kind, raw))])
        except Exception as e:
            out.append(["raised", type(e).__name__])
    return out
"""
REFSEQ_LOADER = "import typelib\ndef load(kind, raw):\n    return typelib.unmarshal(kind, raw)\ndef dump(kind, v):\n    return typelib.marshal(v, t=kind)\n"
REFSEQ_STEPS = {"Point": ("Point", {"x": "1", "y": "2"}), "Line": ("Line", {"start": {"x": 1, "y": 2}, "end": {"x": "3", "y": 4}}),
                "Tag": ("Tag", {"name": 5}), "Pint": ("Pint", {"x": 1}), "Lime": ("Lime", {}), "list[Point]": ("list[Point]", [{"x": 1, "y": "2"}])}
REFSEQ_SEQS = [["Point", "Pint", "Line"], ["Pint", "Point"], ["Lime", "Pint", "Tag", "Line"], ["Point", "Line", "Tag"], ["Tag", "Lime", "Point", "Pint", "Line"],
               ["Pint", "list[Point]"], ["Line", "Pint", "Point", "Tag"]]


@iso.tmp_cleaned
def _refseq_child(seq):
    import importlib
    import os
    import sys
    import tempfile
    import warnings
    warnings.simplefilter("ignore")
    d = tempfile.mkdtemp(prefix="c12ref")
    for name, src in (("c12_app.py", REFSEQ_APP), ("c12_loader.py", REFSEQ_LOADER)):
        with open(os.path.join(d, name), "w") as f:
            f.write(src)
    sys.path.insert(0, d)
    app = importlib.import_module("c12_app")
    return app.run([REFSEQ_STEPS[k] for k in seq])


def check_reference_sequences(res):
    singles = sorted(REFSEQ_STEPS)
    outs = iso.map_isolated(_refseq_child, [[k] for k in singles] + REFSEQ_SEQS, timeout=60.0)
    cold = {}
    for k, o in zip(singles, outs):
        if not isinstance(o, list):
            raise RuntimeError(f"harness: reference sequence probe failed: {o}")
        cold[k] = o[0]
    for seq, o in zip(REFSEQ_SEQS, outs[len(singles):]):
        if not isinstance(o, list):
            raise RuntimeError(f"harness: reference sequence probe failed: {o}")
        for i, (k, got) in enumerate(zip(seq, o)):
            res.case({"refseq": seq[:i + 1]}, i > 0)
            if got != cold[k]:
                res.failures.append({"what": f"load({k!r}, ...) through a helper module answers {got} after {seq[:i]} and {cold[k]} in a cold process",
                                     "input": {"refseq": seq[:i + 1]}})
                break
        else:
            res.count("oracle:reference-by-name-independent-of-earlier-names")


def explore(ctx):
    res = Result()
    res.rule = RULE
    core.import_typelib()
    table = {d["name"]: d for d in lean.drive([{"op": "cache.sites"}])[0]}
    res.extra["site_table"] = {k: {x: v[x] for x in ("congruent", "shared", "mutable", "public", "good")} for k, v in table.items()}
    check_sites(ctx, res, table)
    check_sequences(ctx, res)
    check_bare(ctx, res)
    check_reference_sequences(res)
    internal = iso.map_isolated(_internal_child, [None], timeout=120.0)[0]
    if isinstance(internal, dict) and "crash" in internal:
        raise RuntimeError(f"harness: internal-site probe failed: {internal}")
    for what, T, before, after in internal["internal_mutation"]:
        res.failures.append({"what": f"library code mutated the cached result of {what}({T})", "input": {"site": what, "T": T},
                             "before": before, "after": after})
    for p in internal["public_paths"]:
        res.failures.append({"what": f"a cached mutable object is handed out: {p}", "input": {"path": p}})
    res.count("internal:static_order/cached_type_hints-unchanged-by-callers", 1 if not internal["internal_mutation"] else 0)
    for T, what in internal.get("graph_walk", []):
        res.failures.append({"what": f"{T}: {what}", "input": {"site": "graph-walk", "T": T}})
    res.count("internal:routines-independent-of-earlier-graph-walks", 0 if internal.get("graph_walk") else 8)
    # graph.static_order is not an operation of C12's alphabet, but handing out the memoised list let a caller corrupt every
    # later routine (repaired by dd76572): a recurrence is reported
    if internal.get("static_order_direct_mutation_changes_routines"):
        res.failures.append({"what": "graph.static_order(dict[str, int]).clear() changes the routines built afterwards: the memoised "
                                     "node list is handed out by reference", "input": {"site": "static_order", "T": "dict[str, int]"}})
    res.count("outside-property:graph.static_order-returns-its-cached-list:" + str(internal.get("static_order_returns_cached_list")))
    res.count("outside-property:clearing-that-list-changes-later-routines:"
              + str(internal.get("static_order_direct_mutation_changes_routines")))
    # string references are resolved through the caller's stack frame (refs._resolve_module_name): what a bare string names
    # is not a function of the string; outside the universe of the property, recorded
    res.count("outside-property:unmarshal('Node')-from-a-second-module-gets-the-first-module's-class:"
              + str(internal.get("string_reference_served_by_first_caller")))
    check_histories(ctx, res)
    res.extra["distinct_nontrivial"] = len(res.keys)
    res.extra["exhaustive"] = False
    return res


# ================================================================================================ witness / replay

WITNESS = {"prog": {"classes": [], "aliases": {}},
           "ops": [{"op": "um", "ty": ["union", [["int"], ["str"]], {"sp": "typing"}], "val": "5"},
                   {"op": "um", "ty": ["union", [["str"], ["int"]], {"sp": "typing"}], "val": "5"}]}


def witness(fid):
    """unmarshal(Union[int, str], '5'); unmarshal(Union[str, int], '5') in one process vs the second call alone."""
    if fid != FINDING:
        return None
    core.import_typelib()
    return fails_at_end(WITNESS["prog"], [WITNESS["ops"]])[0]


def replay(failure):
    inp = failure["input"]
    core.import_typelib()
    if "refseq" in inp:
        warm = iso.map_isolated(_refseq_child, [inp["refseq"]], timeout=60.0)[0]
        cold_ = iso.map_isolated(_refseq_child, [[inp["refseq"][-1]]], timeout=60.0)[0]
        print(json.dumps({"sequence": inp["refseq"], "warm": warm, "cold (last step alone)": cold_}, indent=1, default=str)[:3000])
        return not isinstance(warm, list) or warm[-1] != cold_[0]
    if inp.get("site") == "graph-walk":
        o = iso.map_isolated(_internal_child, [None], timeout=120.0)[0]
        print(json.dumps(o.get("graph_walk") if isinstance(o, dict) else o, indent=1, default=str)[:3000])
        return bool(o.get("graph_walk")) if isinstance(o, dict) else True
    if "bare_case" in inp:
        o = iso.map_isolated(_bare_child, [tuple(inp["bare_case"])], timeout=60.0)[0]
        print(json.dumps({"case": inp["bare_case"], "observed": o}, indent=1, default=str))
        return bool(o)
    if "sequence" in inp:
        seq = [tuple(h) for h in inp["sequence"]]
        w, c = iso.map_isolated(_seq_child, [seq, [seq[-1]]], timeout=60.0)
        print(json.dumps({"sequence": inp["sequence"], "warm (last)": w[-1] if isinstance(w, list) else w,
                          "cold (last alone)": c[-1] if isinstance(c, list) else c}, indent=1, default=str))
        return not (isinstance(w, list) and isinstance(c, list) and w[-1] == c[-1])
    if "ops" in inp and "prog" in inp:
        ops = inp["ops"][:inp.get("at", len(inp["ops"]) - 1) + 1]
        jobs = [{"prog": inp["prog"], "ops": ops}, {"prog": inp["prog"], "ops": cold_deps(ops, len(ops) - 1)}]
        w, c = iso.map_isolated(_history_child, jobs, timeout=120.0)
        print(json.dumps({"history": show_history(inp["prog"], ops), "warm (last op)": w[-1] if isinstance(w, list) else w,
                          "cold (last op alone)": c[-1] if isinstance(c, list) else c}, indent=1, default=str)[:4000])
        return not (isinstance(w, list) and isinstance(c, list) and same_outcome(w[-1], c[-1], _unordered(inp["prog"], ops, len(ops) - 1))
                    and "input_mutated" not in (w[-1] or {}))
    if "call" in inp:
        ks = inp["keys"]
        seq = [0, 1] if len(ks) > 1 else [0, 0]
        calls, at = (inp["batch"], inp["batch_index"]) if "batch" in inp else ([inp["call"]], 0)
        base = {"keys": ks, "calls": calls, "tt": inp.get("tt")}
        jobs = [dict(base, seq=seq, mutate=inp.get("mutate_first_result", False)), dict(base, seq=[seq[1]])]
        w, c = iso.map_isolated(_site_child, jobs, timeout=120.0)
        if isinstance(w, dict) or isinstance(c, dict):
            print(json.dumps({"warm": w, "cold": c}, indent=1, default=str)[:3000])
            return True
        if "batch" in inp:
            print(json.dumps({"history": f"each of {calls} with K = {ks[seq[0]]}, then again with K = {ks[seq[1]]}",
                              "observed call": calls[at], "warm": w[-1][at]["out"],
                              "cold (the batch with K = %s only)" % ks[seq[1]]: c[0][at]["out"]}, indent=1, default=str)[:4000])
            return not _same_out(w[-1][at]["out"], c[0][at]["out"])
        print(json.dumps({"history": [f"{inp['call']}  with K = {ks[seq[0]]}"]
                          + (["deep-mutate that result"] if inp.get("mutate_first_result") else [])
                          + [f"{inp['call']}  with K = {ks[seq[1]]}"],
                          "warm (last call)": w[-1][0]["out"], "cold (last call alone)": c[0][0]["out"]}, indent=1, default=str)[:4000])
        return not _same_out(w[-1][0]["out"], c[0][0]["out"])
    print(json.dumps(failure, indent=1, default=str)[:3000])
    return True
