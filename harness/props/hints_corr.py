"""Member hints of a class or callable — inspection.get_type_hints / _hints_from_signature / signature (+ typed_dict_signature,
tuple_signature, the named-tuple exception) / cached_type_hints / cached_signature, and the annotation binding._get_binding takes
per parameter: real code <-> Lean model (Model/Hints.lean).

Run with C17 (`hints_correspondence(res)` at the end of c17.explore; theorems in Props/Hints.lean).

Forked children synthesise, per flavour (annotations POSTPONED: `from __future__ import annotations`, every annotation a
string | EVALUATED: objects, plus explicitly quoted ones), TWO modules that bind some names differently — a class `Money` in each
(different classes), `Extra` / `Tup` (a tuple: not a type) only in the first, `OnlyB` only in the second, `Nope` nowhere — and
GROUPS of related objects built from

  base      plain annotated class (fields m: Money, n: int, e: Extra, cv: ClassVar[Money], an unresolvable q: Nope, t: Tup)
              x no constructor | a constructor whose parameters are the fields | a constructor with OTHER parameters
            | annotated on `__init__` only (postponed / evaluated / explicitly quoted) | nothing at all
            | attributes annotated like constructor parameters with other types (attr: float vs __init__(self, attr: str))
            | dataclass (also with KW_ONLY, ClassVar, an unresolvable field)
            | TypedDict total / total=False x NotRequired / Required keys / keys named like dict methods (items, keys, get)
              / EMPTY / unresolvable hints only; a dict subclass that only has `__total__` (no `__required_keys__`)
            | typing.NamedTuple (with and without defaults) | collections.namedtuple with and without defaults
            | plain tuple subclass with and without annotations
  x layout  the class alone | a subclass in the SAME module | a subclass in the OTHER module (its own fields name Money / OnlyB of
            that module), the subclass adding fields | adding nothing | overriding `__init__` with other parameters
            | a three-class chain across both modules
  + functions (all parameter kinds, unresolvable / non-type / ClassVar annotations, none), bound methods, class and static
    methods, callable instances with and without (own / inherited) class annotations colliding with the parameters of
    `__call__`, `tuple[..]` / `Tuple[..]` aliases, `tuple` itself.

Every group exists TWICE (distinct class objects): one copy is visited base first, the other subclass first, and afterwards
everything is visited again in reverse — all in one process, so that anything a call leaves behind (a `__signature__` on a
base, a memo) is seen by the calls after it.

BEFORE typelib touches an object its description is read with plain Python introspection (`__mro__`,
`vars(cls).get('__annotations__')`, `vars(cls)`, `inspect.signature` of the class that defines `__init__` / `__new__`,
`sys.modules[...]`, `typing.is_typeddict`, `_fields`); the Lean driver answers `hints.get` (both values of `exhaustive`) and
`hints.signature` for the description, which are compared with the real

    inspection.get_type_hints(obj, exhaustive)   inspection.signature(obj)
    inspection.cached_type_hints(obj)            inspection.cached_signature(obj)      (first visit and revisit)
    binding._get_binding(obj): the type each parameter's unmarshaller was built for — asked FROM the second module (where
        `Money` is another class and `Extra` is not bound), from this harness module (where none of the names is bound) and
        from the first module, one copy of every object in the order B, harness, A and the other in the order harness, A, B,
        in one process (`_get_binding` is memoised); compared with `bindTargets` (the annotation text resolved in the module
        of the CALLABLE), both flavours

Hints are compared as identities (a registry numbers runtime objects), forward references as (text, module).  Every description
must satisfy the theorems' hypothesis `wf`.

Direct oracles, independent of the model (failures of the property on the real code):
  * names:      set(get_type_hints(cls, exhaustive=False)) is a subset of the names annotated on some class of the MRO, and equals
                set(typing.get_type_hints(cls)) minus the KW_ONLY entries whenever typing's own call succeeds;
  * modules:    a field declared by a string annotation naming `s` on class `k` of the MRO has the hint bound to `s` in
                sys.modules[k.__module__] (then vars(k), then builtins) — not judged for TypedDicts, whose flattened annotations
                CPython 3.12 itself evaluates with the derived module first (counted as `hints:observed:...`);
  * signature:  signature(cls) of a class that is neither a TypedDict nor a non-named tuple is inspect.signature(cls) as Python
                computed it before the library saw the class, in every order of visits; a named tuple's parameters are its _fields
                (unless a subclass overrides __init__);
  * binding:    the annotation a parameter is converted with is inspect's annotation of THAT parameter; a string annotation
                naming `s` is converted to what `s` is bound to in the module of the callable (NameError when it is not bound
                there), whichever module binds it and in whichever order;
  * typeddict:  signature / get_type_hints of a TypedDict never raise (an empty one, one without a resolvable hint: no
                parameters, no hints); one keyword-only parameter per key of typing.get_type_hints, in order; a parameter has
                no default iff its key is in `__required_keys__`, else the default `...`;
  * stability:  a revisit answers like the first visit.
"""
from __future__ import annotations

import json

from .. import core, iso, lean

NAMES = ["Money", "Extra", "OnlyB", "Nope", "Tup", "int", "str", "float", "KW_ONLY"]
PRELUDE = ("import collections, dataclasses, typing\nfrom typing import ClassVar, NotRequired, Required\n"
           "from dataclasses import KW_ONLY\n")
BIND_HERE = "def _bind_here(o):\n    from typelib import binding\n    return binding._get_binding(o)\n"
A_BASE = "class Money:\n    amount: int\nclass Extra:\n    pass\nTup = (int, str)\n" + BIND_HERE
B_BASE = "class Money:\n    cents: str\nclass OnlyB:\n    pass\n" + BIND_HERE

# token -> (field name, annotation text, quote it in the evaluated flavour, default source | None)
TOK = {
    "m": ("m", "Money", False, None), "n": ("n", "int", False, None), "e": ("e", "Extra", False, None),
    "o": ("o", "OnlyB", False, None), "t": ("t", "Tup", False, None), "cv": ("cv", "ClassVar[Money]", False, "None"),
    "q": ("q", "Nope", True, None), "kw": ("_", "KW_ONLY", False, None), "f": ("attr", "float", False, None),
    "mq": ("mq", "Money", True, None), "nr": ("nr", "NotRequired[int]", False, None), "items": ("items", "int", False, None),
    "x": ("extra", "Money", False, None),
    "rq": ("rq", "Required[int]", False, None), "keys": ("keys", "str", False, None), "get": ("get", "Money", False, None),
}


def _ann(tok, strings):
    _, text, quote, _ = TOK[tok]
    return repr(text) if (quote and not strings) else text


def _fields(toks, strings, defaults=False, indent="    "):
    out = []
    for t in toks:
        name, _, _, dflt = TOK[t]
        line = f"{name}: {_ann(t, strings)}"
        if dflt is not None or (defaults and t != "kw"):
            line += " = None"
        out.append(indent + line + "\n")
    return "".join(out)


def _params(toks, strings):
    return ", ".join(f"{TOK[t][0]}: {_ann(t, strings)}" for t in toks)


INITS = {   # name -> parameter source (after self), as a function of the flavour
    "other": lambda s: "other: Extra, z=1",
    "quoted": lambda s: "a: Money, b: 'Money', c=2" if s else "a: 'Money', b: 'Nope', c=2",
    "collide": lambda s: "attr: str, n: float = 0.0",
    "sub": lambda s: "other: Money, cnt: int = 0",
}

BASES = [
    {"k": "plain", "f": ["m", "n"]}, {"k": "plain", "f": ["m", "e", "cv"]},
    {"k": "plain", "f": ["m", "n"], "init": "fields"}, {"k": "plain", "f": ["m", "n"], "init": "other"},
    {"k": "plain", "f": ["m", "q"], "init": "fields"}, {"k": "plain", "f": ["m", "q"], "init": "other"},
    {"k": "plain", "f": ["q"]}, {"k": "plain", "f": ["t", "n"]}, {"k": "plain", "f": ["mq", "n"]},
    {"k": "plain", "f": [], "init": "other"}, {"k": "plain", "f": [], "init": "quoted"}, {"k": "plain", "f": []},
    {"k": "plain", "f": ["f", "n"], "init": "collide"},
    {"k": "dc", "f": ["m", "n"]}, {"k": "dc", "f": ["m", "kw", "n"]}, {"k": "dc", "f": ["m", "cv", "e"]}, {"k": "dc", "f": ["m", "q"]},
    {"k": "td", "f": ["m", "n"], "total": True}, {"k": "td", "f": ["m", "e"], "total": False}, {"k": "td", "f": ["m", "nr"], "total": True},
    {"k": "td", "f": ["items", "n"], "total": True}, {"k": "td", "f": [], "total": True}, {"k": "td", "f": ["q"], "total": True},
    {"k": "nt", "f": ["m", "n"]}, {"k": "nt", "f": ["m", "e"], "defaults": True},
    {"k": "cnt", "defaults": False}, {"k": "cnt", "defaults": True},
    {"k": "tsub", "f": []}, {"k": "tsub", "f": ["m"]},
    {"k": "td", "f": ["rq", "n"], "total": False}, {"k": "td", "f": ["nr", "rq", "m"], "total": True},
    {"k": "td", "f": ["nr", "rq", "m"], "total": False}, {"k": "td", "f": ["m", "nr"], "total": False},
    {"k": "td", "f": ["items", "keys", "get"], "total": True}, {"k": "td", "f": ["keys", "items", "nr"], "total": False},
    {"k": "td", "f": [], "total": False}, {"k": "td", "f": ["q", "n"], "total": False},
    {"k": "dtot", "f": ["m", "n"], "total": True}, {"k": "dtot", "f": ["m", "items"], "total": False},
]


def base_source(spec, name, strings):
    k, toks = spec["k"], spec.get("f", [])
    if k == "cnt":
        d = ", defaults=[1]" if spec["defaults"] else ""
        return f"{name} = collections.namedtuple({name!r}, 'a b'{d})\n"
    head = {"plain": f"class {name}:", "dc": f"@dataclasses.dataclass\nclass {name}:",
            "td": f"class {name}(typing.TypedDict{'' if spec.get('total', True) else ', total=False'}):",
            "nt": f"class {name}(typing.NamedTuple):", "tsub": f"class {name}(tuple):", "dtot": f"class {name}(dict):"}[k]
    body = _fields(toks, strings, defaults=spec.get("defaults", False))
    if k == "dtot":     # `istypeddict` takes it for a TypedDict; it has no `__required_keys__`
        body = f"    __total__ = {spec['total']}\n" + body
    init = spec.get("init")
    if init:
        ps = _params(toks, strings) if init == "fields" else INITS[init](strings)
        body += f"    def __init__(self, {ps}):\n        pass\n"
    return head + "\n" + (body or "    pass\n")


def sub_sources(spec, strings):
    """[(tag, decorator+head template with {N} {B}, body)] of the subclasses tried for a base of this kind."""
    k = spec["k"]
    add = _fields(["x"], strings)
    init = f"    def __init__(self, {INITS['sub'](strings)}):\n        pass\n"
    out = []
    if k == "td":
        out.append(("adds", "class {N}({B}):", add))
        out.append(("adds-partial", "class {N}({B}, total=False):", add))
        out.append(("empty", "class {N}({B}):", "    pass\n"))
        return out
    if k == "dc":
        out.append(("adds-dc", "@dataclasses.dataclass\nclass {N}({B}):", _fields(["x"], strings, defaults=True)))
    out.append(("adds", "class {N}({B}):", add))
    out.append(("empty", "class {N}({B}):", "    pass\n"))
    out.append(("init", "class {N}({B}):", init))
    if k in ("plain", "dc"):
        out.append(("adds-init", "class {N}({B}):", add + init))
    return out


FUNCS_A = '''
def f1(a: Money, b, /, c: int = 0, *d: int, e: Extra = None, **g: str) -> Money: ...
def f2(a: {Nope}, b: int = 0): ...
def f3(a, b): ...
def f4(a: Tup) -> int: ...
def f5(a: ClassVar[int]): ...
def f6(*, a: Money): ...
class Meth:
    attr: float
    def meth(self, attr: str, m: Money = None) -> int: ...
    @classmethod
    def cm(cls, m: Money): ...
    @staticmethod
    def sm(m: Money, q: Extra): ...
class Call1:
    attr: float
    def __call__(self, attr: str, z=1) -> int: ...
class Call2:
    def __call__(self, attr: Money, z=1): ...
class Call3(Call1):
    pass
class Call4(Call1):
    other: Money
    def __call__(self, other: int): ...
class NoCall:
    attr: int
'''
FUNCS_B = '''
def g1(a: Money, o: OnlyB) -> Money: ...
def g2(a: {Extra}): ...
class MethB({A}.Meth):
    def meth2(self, m: Money, attr: int): ...
class CallB({A}.Call1):
    def __call__(self, m: Money): ...
'''
# (label, module, expression evaluated in that module's namespace)
FUNC_OBJECTS = [
    ("f1", "A", "f1"), ("f2", "A", "f2"), ("f3", "A", "f3"), ("f4", "A", "f4"), ("f5", "A", "f5"), ("f6", "A", "f6"),
    ("Meth().meth", "A", "Meth().meth"), ("Meth.cm", "A", "Meth.cm"), ("Meth.sm", "A", "Meth.sm"), ("Meth", "A", "Meth"),
    ("Call1()", "A", "Call1()"), ("Call2()", "A", "Call2()"), ("Call3()", "A", "Call3()"), ("Call4()", "A", "Call4()"),
    ("NoCall()", "A", "NoCall()"), ("Call1", "A", "Call1"),
    ("g1", "B", "g1"), ("g2", "B", "g2"), ("MethB().meth", "B", "MethB().meth"), ("MethB().meth2", "B", "MethB().meth2"),
    ("CallB()", "B", "CallB()"),
    ("tuple[int, Money]", "A", "tuple[int, Money]"), ("tuple[Money, ...]", "A", "tuple[Money, ...]"),
    ("typing.Tuple[int, str]", "A", "typing.Tuple[int, str]"), ("typing.Tuple", "A", "typing.Tuple"), ("tuple", "A", "tuple"),
    ("tuple[()]", "A", "tuple[()]"),
]


def programs(strings):
    """Deterministic list of groups: {"tag", "defs": [(module, phase, source)], "objects": [(label, module, expr)]}, base first."""
    out, n = [], 0

    def fresh():
        nonlocal n
        n += 1
        return n

    for bi, spec in enumerate(BASES):
        kind = spec["k"] + ":" + ",".join(spec.get("f", [])) + (":" + spec["init"] if spec.get("init") else "") \
            + (":partial" if spec.get("total") is False else "") + (":defaults" if spec.get("defaults") else "")
        for copy in ("fwd", "rev"):
            b = f"B{fresh()}"
            out.append({"tag": f"{kind}|single", "order": copy, "defs": [("A", 1, base_source(spec, b, strings))],
                        "objects": [(b, "A", b)]})
        for where in ("same", "other"):
            for tag, head, body in sub_sources(spec, strings):
                for copy in ("fwd", "rev"):
                    b, s = f"B{fresh()}", f"S{fresh()}"
                    ref = b if where == "same" else "{A}." + b
                    extra = _fields(["o"], strings) if (where == "other" and tag in ("adds", "adds-init", "adds-partial")) else ""
                    src = head.replace("{N}", s).replace("{B}", ref) + "\n" + extra + body
                    out.append({"tag": f"{kind}|{where}|{tag}", "order": copy,
                                "defs": [("A", 1, base_source(spec, b, strings)), ("A" if where == "same" else "B", 2, src)],
                                "objects": [(b, "A", b), (s, "A" if where == "same" else "B", s)]})
    # three classes across both modules: base in A, middle in B (own fields, own __init__), leaf in A
    for spec in (BASES[0], BASES[3], BASES[9], BASES[13], BASES[23]):
        for oi, order in enumerate((("fwd", [0, 1, 2]), ("rev", [2, 1, 0]), ("mid", [1, 2, 0]))):
            b, s, l = f"B{fresh()}", f"S{fresh()}", f"L{fresh()}"
            mid = f"class {s}({{A}}.{b}):\n" + _fields(["x", "o"], strings) + f"    def __init__(self, {INITS['sub'](strings)}):\n        pass\n"
            leaf = f"class {l}({{B}}.{s}):\n" + _fields(["e"], strings)
            out.append({"tag": f"chain:{spec['k']}:{spec.get('init', '-')}", "order": order[0], "visit": order[1],
                        "defs": [("A", 1, base_source(spec, b, strings)), ("B", 2, mid), ("A", 3, leaf)],
                        "objects": [(b, "A", b), (s, "B", s), (l, "A", l)]})
    for copy in ("fwd", "rev"):
        sfx = f"_{fresh()}"
        out.append({"tag": "callables", "order": copy, "defs": [("A", 1, _suffixed(FUNCS_A, sfx)), ("B", 2, _suffixed(FUNCS_B, sfx))],
                    "objects": [(_suffixed(lb, sfx), key, _suffixed(ex, sfx)) for lb, key, ex in FUNC_OBJECTS]})
    return out


FUNC_NAMES = ["f1", "f2", "f3", "f4", "f5", "f6", "Meth", "Call1", "Call2", "Call3", "Call4", "NoCall", "g1", "g2", "MethB", "CallB"]


def _suffixed(text, sfx):
    import re
    return re.sub(r"\b(" + "|".join(FUNC_NAMES) + r")\b", lambda m: m.group(1) + sfx, text)


# --------------------------------------------------------------------------- child: build, describe, observe

class Registry:
    """Numbers runtime objects by identity (and keeps them alive)."""

    def __init__(self):
        self.ids, self.keep = {}, []

    def num(self, o):
        n = self.ids.get(id(o))
        if n is None:
            n = len(self.keep) + 1
            self.ids[id(o)] = n
            self.keep.append(o)
        return n


def hint_of(v, reg):
    """A hint VALUE (a runtime object) as the model's Hint."""
    import dataclasses
    import typing
    if v is typing.Any:
        return ["any"]
    if v is dataclasses.KW_ONLY:
        return ["kwOnly"]
    if isinstance(v, typing.ForwardRef):
        return ["fwd", v.__forward_arg__, v.__forward_module__ if isinstance(v.__forward_module__, str) else repr(v.__forward_module__)]
    if typing.get_origin(v) is typing.ClassVar:
        return ["classVar", hint_of(typing.get_args(v)[0], reg)]
    if v is None:
        v = type(None)
    return ["ty", reg.num(v)]


def bound_of(v, reg):
    return ["invalid"] if type(v) is tuple else hint_of(v, reg)


def _strip(v):
    """typing.get_type_hints(include_extras=False) drops Required / NotRequired / Annotated wrappers."""
    import typing
    while typing.get_origin(v) in (typing.Required, typing.NotRequired, typing.Annotated):
        v = typing.get_args(v)[0]
    return v


def _parse_text(s):
    """('name', X) | ('classVar', X) | None for a string annotation of the generated grid."""
    import re
    m = re.fullmatch(r"\w+", s)
    if m:
        return ("name", s)
    m = re.fullmatch(r"ClassVar\[(\w+)\]", s)
    if m:
        return ("classVar", m.group(1))
    m = re.fullmatch(r"(?:NotRequired|Required)\[(\w+)\]", s)
    if m:
        return ("name", m.group(1))
    return None


def ann_expr(v, reg):
    import typing
    if isinstance(v, str) or isinstance(v, typing.ForwardRef):
        text = v if isinstance(v, str) else v.__forward_arg__
        mod = None if isinstance(v, str) else v.__forward_module__
        p = _parse_text(text)
        if p is None or (mod is not None and not isinstance(mod, str)):
            raise Unsupported(f"annotation {v!r}")
        leaf = ["name", p[1]] if mod is None else ["ref", p[1], mod]
        return ["classVar", leaf] if p[0] == "classVar" else leaf
    return ["obj", hint_of(_strip(v), reg)]


class Unsupported(Exception):
    pass


KINDS = {"POSITIONAL_ONLY": "posOnly", "POSITIONAL_OR_KEYWORD": "posOrKw", "VAR_POSITIONAL": "varPos", "KEYWORD_ONLY": "kwOnly",
         "VAR_KEYWORD": "varKw"}


def params_of(sig, reg):
    import inspect
    out = []
    for n, p in sig.parameters.items():
        a = p.annotation
        ann = ["missing"] if a is inspect.Parameter.empty else ["text", a] if a.__class__ is str else ["obj", hint_of(a, reg)]
        d = "none" if p.default is inspect.Parameter.empty else "ellipsis" if p.default is ... else "value"
        out.append({"name": n, "kind": KINDS[p.kind.name], "ann": ann, "dflt": d})
    return out


def _try_sig(o, reg):
    import inspect
    try:
        return params_of(inspect.signature(o), reg)
    except (ValueError, TypeError):
        return None


def describe_class(cls, reg):
    import dataclasses
    import types
    import typing
    if type(cls) is not type and not typing.is_typeddict(cls) and type(cls).__call__ is not type.__call__:
        raise Unsupported("metaclass __call__")
    if any("__signature__" in vars(k) for k in cls.__mro__):
        raise Unsupported("__signature__ present before the library saw the class")
    mro, any_ctor = [], False
    for k in cls.__mro__:
        d = vars(k)
        own = [d.get(x) for x in ("__new__", "__init__")]
        has = any(isinstance(x, (types.FunctionType, staticmethod, classmethod)) for x in own)
        ctor = _try_sig(k, reg) if has else None
        any_ctor = any_ctor or ctor is not None
        anns = d.get("__annotations__") or {}
        mro.append({"id": reg.num(k), "module": k.__module__,
                    "ns": [[n, bound_of(d[n], reg)] for n in NAMES if n in d],
                    "anns": [[n, ann_expr(v, reg)] for n, v in anns.items()], "ctor": ctor})
    if dict in cls.__mro__ and hasattr(cls, "__total__"):     # what the library takes for a TypedDict
        keys = []
        for k in reversed(cls.__mro__):
            keys += [n for n in (vars(k).get("__annotations__") or {}) if n not in keys]
        req = getattr(cls, "__required_keys__", None)
        kind = ["typedDict", bool(cls.__total__), None if req is None else [k for k in keys if k in req], [k for k in keys if hasattr(cls, k)]]
    elif issubclass(cls, tuple):
        kind = ["namedTuple"] if hasattr(cls, "_fields") else ["tupleSub"]
    elif dataclasses.is_dataclass(cls):
        kind = ["dataclass"]
    else:
        kind = ["plain"]
    return {"kind": kind, "mro": mro, "fallback": None if any_ctor else _try_sig(cls, reg)}


def describe(o, reg):
    """The object as the model's Obj, from Python's own introspection."""
    import inspect
    import types
    import typing
    if isinstance(o, type):
        return {"cls": describe_class(o, reg)}
    if isinstance(o, (types.GenericAlias, typing._GenericAlias)) or o is typing.Tuple:  # noqa: SLF001
        if typing.get_origin(o) is not tuple:
            raise Unsupported(f"alias {o!r}")
        args = list(typing.get_args(o))
        variadic = bool(args) and args[-1] is ...
        return {"tupleAlias": {"module": o.__module__, "args": [hint_of(a, reg) for a in (args[:-1] if variadic else args)],
                               "variadic": variadic}}
    if isinstance(o, (types.FunctionType, types.MethodType)):
        return {"func": {"module": o.__module__, "anns": [[n, ann_expr(v, reg)] for n, v in o.__annotations__.items()],
                         "params": params_of(inspect.signature(o), reg)}}
    return {"inst": describe_class(type(o), reg), "call": _try_sig(o, reg) if callable(o) else None}


def _rows(h, reg):
    return [[n] + hint_of(v, reg) for n, v in h.items()]


def _attempt(fn, view):
    try:
        return view(fn())
    except RecursionError:
        return {"err": "RecursionError"}
    except Exception as e:  # noqa: BLE001
        return {"err": type(e).__name__}


def pristine(o, reg):
    """What Python itself says about the object before the library saw it (for the direct oracles)."""
    import builtins
    import dataclasses
    import inspect
    import sys
    import typing
    out = {"inspect": _attempt(lambda: inspect.signature(o), lambda s: params_of(s, reg))}
    def th():
        h = typing.get_type_hints(o)
        return {"names": [n for n, v in h.items() if v is not dataclasses.KW_ONLY], "rows": _rows(h, reg)}
    out["typing"] = _attempt(th, lambda x: x)
    if isinstance(o, type):
        out["annotated"] = sorted({n for k in o.__mro__ for n in (vars(k).get("__annotations__") or {})})
        # (a named tuple whose subclass overrides __init__ has, for Python, the signature of that __init__)
        own_init = any("__init__" in vars(k) for k in o.__mro__ if k is not object)
        out["fields"] = list(o._fields) if issubclass(o, tuple) and hasattr(o, "_fields") and not own_init else None
        decl = {}
        for k in reversed(o.__mro__):
            for n, v in (vars(k).get("__annotations__") or {}).items():
                decl[n] = (k, v)
        exp = {}
        for n, (k, v) in decl.items():
            home = k.__module__
            if isinstance(v, typing.ForwardRef):     # (TypedDict fields: the reference carries the module that declared it)
                home, v = (v.__forward_module__ or home), v.__forward_arg__
            if isinstance(v, str) and v.isidentifier() and isinstance(home, str) and home in sys.modules:
                md = vars(sys.modules[home])
                found = md[v] if v in md else vars(k)[v] if v in vars(k) else getattr(builtins, v, _MISSING)
                if found is not _MISSING and found is not dataclasses.KW_ONLY and type(found) is not tuple:
                    exp[n] = hint_of(found, reg)
        out["declared_in_module"] = exp
        if typing.is_typeddict(o):
            out["required_keys"] = sorted(o.__required_keys__)
    out["bindable"], out["bind_expected"] = _bind_expectation(o, reg)
    return out


def _bind_expectation(o, reg):
    """(is the binder observed for this object, what Python says each parameter must be converted to): the annotation itself, and
    for a string annotation naming `s` what `s` is bound to in the module of the callable (`obj.__module__`), then builtins."""
    import builtins
    import inspect
    import sys
    try:
        sig = inspect.signature(o)
    except (ValueError, TypeError):
        return False, None
    md = vars(sys.modules.get(getattr(o, "__module__", None), builtins))
    out, ok = [], True
    for n, p in sig.parameters.items():
        a = p.annotation
        if a is inspect.Parameter.empty:
            out.append([n, None])
        elif isinstance(a, type):
            out.append([n, hint_of(a, reg)])
        elif a.__class__ is str and a.isidentifier():
            found = md[a] if a in md else getattr(builtins, a, _MISSING)
            if found is _MISSING:
                return ok, {"err": "NameError"}
            if type(found) is tuple:
                return ok, {"err": "TypeError"}
            out.append([n, hint_of(found, reg)])
        else:
            ok = False
    return ok, {"targets": out}


_MISSING = object()


def _bind_from_harness(o):
    from typelib import binding
    return binding._get_binding(o)   # noqa: SLF001


def observe(o, reg, I, callers):
    import inspect
    sig_view = lambda s: params_of(s, reg)   # noqa: E731
    r = {"hints": {"false": _attempt(lambda: I.get_type_hints(o, False), lambda h: _rows(h, reg)),
                   "true": _attempt(lambda: I.get_type_hints(o, True), lambda h: _rows(h, reg))},
         "signature": _attempt(lambda: I.signature(o), sig_view),
         "cached_hints": _attempt(lambda: I.cached_type_hints(o), lambda h: _rows(h, reg)),
         "cached_signature": _attempt(lambda: I.cached_signature(o), sig_view)}
    def view(b):
        out = []
        for i, (n, p) in enumerate(b.signature.parameters.items()):
            u = (b.varpos if p.kind is p.VAR_POSITIONAL else b.varkwd if p.kind is p.VAR_KEYWORD
                 else b.binding[i] if p.kind is p.POSITIONAL_ONLY else b.binding[n])
            t = getattr(u, "t", _MISSING)
            out.append([n, None if t is inspect.Parameter.empty else hint_of(t, reg)])
        return {"targets": out}
    if callers:
        r["binding"] = [[name, _attempt(lambda: fn(o), view)] for name, fn in callers]   # noqa: B023
    return r


def _child(job):
    import builtins
    import sys
    import types
    import warnings
    warnings.simplefilter("ignore")
    strings = job["strings"]
    sfx = "s" if strings else "o"
    names = {"A": f"vmh_a_{sfx}{job['part']}", "B": f"vmh_b_{sfx}{job['part']}"}
    fut = "from __future__ import annotations\n" if strings else ""
    mods = {}
    for key in ("A", "B"):
        m = types.ModuleType(names[key])
        sys.modules[names[key]] = m
        mods[key] = m

    def run(key, src):
        src = src.replace("{A}", names["A"]).replace("{B}", names["B"]).replace("{Nope}", "Nope" if strings else "'Nope'").replace("{Extra}", "Extra" if strings else "'Extra'")
        # (dont_inherit: code compiled by exec() would otherwise inherit this module's own `from __future__ import annotations`)
        exec(compile(fut + src, names[key], "exec", dont_inherit=True), mods[key].__dict__)

    run("A", PRELUDE + f"import {names['B']}\n" + A_BASE)
    run("B", PRELUDE + f"import {names['A']}\n" + B_BASE)
    progs = job["progs"]
    refused = 0
    for phase in (1, 2, 3):
        for p in progs:
            for key, ph, src in p["defs"]:
                if ph == phase and not p.get("refused"):
                    try:
                        run(key, src)
                    except (TypeError, ValueError, NameError) as e:
                        p["refused"] = f"{type(e).__name__}: {e}"
                        refused += 1
    reg = Registry()
    for key in ("A", "B"):
        for n in NAMES:
            if n in vars(mods[key]):
                reg.num(vars(mods[key])[n])
    env = {"mods": [[names[k], [[n, bound_of(vars(mods[k])[n], reg)] for n in NAMES if n in vars(mods[k])]] for k in ("A", "B")],
           "builtins": [[n, bound_of(getattr(builtins, n), reg)] for n in NAMES if hasattr(builtins, n)]}
    # 1. describe everything BEFORE the library sees any of it
    groups = []
    for gi, p in enumerate(progs):
        if p.get("refused"):
            continue
        objs, items = [], []
        for label, key, expr in p["objects"]:
            o = eval(expr, mods[key].__dict__)   # noqa: S307
            try:
                d = describe(o, reg)
            except Unsupported as e:
                d = {"unsupported": str(e)}
            objs.append(o)
            items.append({"label": label, "module": names[key], "desc": d, "pristine": pristine(o, reg), "visits": []})
        n = len(objs)
        visit = p.get("visit") or (list(range(n)) if p["order"] == "fwd" else list(range(n - 1, -1, -1)))
        groups.append({"gi": gi, "tag": p["tag"], "order": p["order"], "visit": visit, "objs": objs, "items": items,
                       "src": [[names[k], s.replace("{A}", names["A"]).replace("{B}", names["B"])] for k, _, s in p["defs"]]})
    # 2. the library, group by group in the chosen order; 3. everything again, backwards
    from typelib.py import inspection as I   # noqa: N812
    who = {"B": (names["B"], mods["B"]._bind_here), "H": (__name__, _bind_from_harness), "A": (names["A"], mods["A"]._bind_here)}

    def callers_for(g, it):
        d = it["desc"]
        judged = "func" in d or "inst" in d or ("cls" in d and d["cls"]["kind"][0] in ("plain", "dataclass", "namedTuple"))
        if not (judged and it["pristine"]["bindable"]):
            return []
        return [who[k] for k in (("B", "H", "A") if g["order"] == "fwd" else ("H", "A", "B"))]

    for g in groups:
        for i in g["visit"]:
            it = g["items"][i]
            it["visits"].append(observe(g["objs"][i], reg, I, callers_for(g, it)))
    for g in reversed(groups):
        for i in reversed(g["visit"]):
            it = g["items"][i]
            it["visits"].append(observe(g["objs"][i], reg, I, callers_for(g, it)))
    return {"env": env, "refused": refused, "strings": strings, "harness_module": __name__,
            "groups": [{k: g[k] for k in ("gi", "tag", "order", "visit", "items", "src")} for g in groups]}


# --------------------------------------------------------------------------- parent: ask the model, compare

def _model_hints(m):
    return m["hints"] if "hints" in m else {"err": m["err"]}


def _model_sig(m):
    return m["params"] if "params" in m else {"err": m["err"]}


def run_children(nparts=6):
    core.import_typelib()   # (the zygote: children are forked from a process that has imported the library under test)
    jobs = []
    for strings in (True, False):
        progs = programs(strings)
        for part in range(nparts):
            mine = progs[part::nparts]
            if mine:
                jobs.append({"strings": strings, "part": part, "progs": mine})
    outs = iso.map_isolated(_child, jobs, timeout=300.0)
    for o in outs:
        if not isinstance(o, dict) or "groups" not in o:
            raise RuntimeError(f"harness: member-hints child failed: {o}")
    return outs


def hints_correspondence(res, outs=None):
    outs = run_children() if outs is None else outs
    ops, index = [], []
    for oi, out in enumerate(outs):
        for gi, g in enumerate(out["groups"]):
            for ii, it in enumerate(g["items"]):
                if "unsupported" in it["desc"]:
                    continue
                index.append((oi, gi, ii, len(ops)))
                ops.append({"op": "hints.get", "obj": it["desc"], "env": out["env"], "exhaustive": False})
                ops.append({"op": "hints.get", "obj": it["desc"], "env": out["env"], "exhaustive": True})
                ops.append({"op": "hints.signature", "obj": it["desc"], "env": out["env"],
                            "callers": [c for c, _ in it["visits"][0].get("binding", [])]})
            seq = [g["items"][i]["desc"] for i in g["visit"] if "unsupported" not in g["items"][i]["desc"]]
            g["seq_op"] = len(ops)
            ops.append({"op": "hints.seq", "env": out["env"], "objs": seq})
    model = lean.drive(ops) if ops else []
    for m, op in zip(model, ops):
        if "bad" in m:
            raise RuntimeError(f"harness: driver rejected a description: {m} {json.dumps(op)[:600]}")
    res.count("hints:children", len(outs))
    for out in outs:
        res.count("hints:specs-python-refuses", out["refused"])
        for g in out["groups"]:
            res.count("hints:groups")
            ms = model[g["seq_op"]]
            if ms["seq"] != ms["c12h"]:
                res.count("hints:mutant-would-differ:c12h(sequence)")
            for it in g["items"]:
                if "unsupported" in it["desc"]:
                    res.skipped += 1
                    res.count("hints:unsupported-description")
    for oi, gi, ii, at in index:
        out, g = outs[oi], outs[oi]["groups"][gi]
        it = g["items"][ii]
        m_false, m_true, m_sig = model[at], model[at + 1], model[at + 2]
        kind = next(iter(it["desc"]))
        ckind = it["desc"][kind]["kind"][0] if kind in ("cls", "inst") else kind
        brief = {"family": "hints-corr", "strings": out["strings"], "group": g["tag"], "order": g["order"], "object": it["label"],
                 "module": it["module"], "source": g["src"]}
        res.count(f"hints:objects:{kind}:{ckind}")

        def disagree(what, real, mod, extra=None):
            res.count("hints:DISAGREE:" + what.split(":")[0])
            res.disagreements.append({"what": "hints: " + what, "input": {**brief, **(extra or {}), "desc": it["desc"], "env": out["env"]},
                                      "real": real, "model": mod})

        def fail(what, extra):
            res.count("hints:oracle:FAIL:" + what.split(":")[0])
            res.failures.append({"what": what, "input": {**brief, "ann": None, "shown": f"{it['label']} [{g['tag']}]",
                                                         "pred": what.split(":")[0], **extra}})

        if not m_sig["wf"]:
            disagree("wf: the description of a real object violates the hypothesis `wf` of Props/Hints.lean", it["desc"], {"wf": False})
        first, again = it["visits"][0], it["visits"][-1]
        want = {"false": _model_hints(m_false), "true": _model_hints(m_true)}
        wsig = _model_sig(m_sig)
        for exh in ("false", "true"):
            res.case({**brief, "q": "get_type_hints", "exhaustive": exh}, True)
            if first["hints"][exh] == want[exh]:
                res.count("hints:get:ok" + (":" + want[exh]["err"] if isinstance(want[exh], dict) else ""))
            else:
                disagree(f"get_type_hints: inspection.get_type_hints(obj, exhaustive={exh == 'true'}) differs from getTypeHints of the description",
                         first["hints"][exh], want[exh], {"exhaustive": exh == "true", "typing(model)": m_false["typing"]})
        res.case({**brief, "q": "signature"}, True)
        if first["signature"] == wsig:
            res.count("hints:signature:ok" + (":" + wsig["err"] if isinstance(wsig, dict) else ""))
        else:
            disagree("signature: inspection.signature(obj) differs from signatureOf of the description", first["signature"], wsig,
                     {"visited": g["visit"]})
        res.case({**brief, "q": "cached"}, True)
        if first["cached_hints"] == want["true"] and first["cached_signature"] == wsig:
            res.count("hints:cached:ok")
        else:
            disagree("cached: cached_type_hints(obj) / cached_signature(obj) differ from getTypeHints(.., true) / signatureOf",
                     {"hints": first["cached_hints"], "signature": first["cached_signature"]}, {"hints": want["true"], "signature": wsig})
        for (caller, real_b), mod_b, pre_b in zip(first.get("binding", []), m_sig["bind_targets"], m_sig["mutants"]["preF5b21b1"]):
            res.case({**brief, "q": "binding", "from": caller}, True)
            if mod_b.get("err") == "signature" and real_b.get("err") in ("TypeError", "ValueError"):
                mod_b = real_b          # (no signature: whatever inspect raised)
            if real_b == mod_b:
                res.count("hints:binding:ok" + (":" + mod_b["err"] if "err" in mod_b else ""))
            else:
                disagree("binding: the type each parameter's unmarshaller of binding._get_binding(obj) is built for differs from bindTargets "
                         "(string annotations resolved in the module of the callable)", real_b, mod_b,
                         {"bound_from": caller, "callers_in_order": [c for c, _ in first["binding"]]})
            if pre_b != m_sig["bind_targets"][0]:
                res.count("hints:mutant-would-differ:preF5b21b1")
        # which theorems' `_needed` witnesses the real descriptions reach
        for k, v in m_false["mutants"].items():
            if _model_hints(v) != want["false"]:
                res.count(f"hints:mutant-would-differ:{k}(exhaustive=False)")
        if _model_hints(m_true["mutants"]["c05h"]) != want["true"]:
            res.count("hints:mutant-would-differ:c05h(exhaustive=True)")
        if _model_sig(m_sig["mutants"]["c15h"]) != wsig:
            res.count("hints:mutant-would-differ:c15h")
        if m_sig["mutants"]["c10g"] != m_sig["param_annotations"]:
            res.count("hints:mutant-would-differ:c10g")
        if _model_hints(m_true["mutants"]["pre87eadd9"]) != want["true"] or _model_sig(m_sig["mutants"]["pre87eadd9"]) != wsig:
            res.count("hints:mutant-would-differ:pre87eadd9")
        if _model_sig(m_sig["mutants"]["pre629e6a2"]) != wsig:
            res.count("hints:mutant-would-differ:pre629e6a2")
        # ---- direct oracles (no model)
        ps = it["pristine"]
        if again != first:
            diff = [k for k in first if first[k] != again.get(k)]
            fail("stability: a revisit answers differently from the first visit", {"differs": diff, "first": {k: first[k] for k in diff},
                                                                                   "again": {k: again.get(k) for k in diff}})
        else:
            res.count("hints:oracle:stable")
        if kind == "cls":
            got = first["hints"]["false"]
            names = [r[0] for r in got] if isinstance(got, list) else None
            if names is None or not set(names) <= set(ps["annotated"]):
                fail("names: get_type_hints(cls, exhaustive=False) has a name no class of the MRO annotates (or raised)",
                     {"real": got, "annotated": ps["annotated"]})
            elif isinstance(ps["typing"], dict) and "names" in ps["typing"] and set(names) != set(ps["typing"]["names"]):
                fail("names: get_type_hints(cls, exhaustive=False) differs from typing.get_type_hints(cls) minus KW_ONLY",
                     {"real": names, "typing": ps["typing"]["names"]})
            else:
                res.count("hints:oracle:names-ok")
            if isinstance(got, list) and got:
                rows = {r[0]: r[1:] for r in got}
                wrong = {n: [rows[n], h] for n, h in ps["declared_in_module"].items() if n in rows and rows[n] != h}
                if wrong and ckind == "typedDict":
                    res.count("hints:observed:typeddict-inherited-key-resolved-in-derived-module(CPython)")
                elif wrong:
                    fail("modules: a field's hint is not what its annotation names in the module of the class that declares it",
                         {"field: [real, expected]": wrong})
                else:
                    res.count("hints:oracle:modules-ok")
            if ckind in ("plain", "dataclass", "namedTuple"):
                if first["signature"] != ps["inspect"]:
                    fail("signature: signature(cls) differs from inspect.signature(cls) as computed before the library saw the class",
                         {"real": first["signature"], "inspect": ps["inspect"], "visited": g["visit"]})
                elif ps["fields"] is not None and [p["name"] for p in first["signature"]] != ps["fields"]:
                    fail("signature: the parameters of a named tuple are not its _fields", {"real": first["signature"], "_fields": ps["fields"]})
                else:
                    res.count("hints:oracle:signature-ok")
        if kind == "cls" and "required_keys" in ps:      # a typing.TypedDict
            sig, hts = first["signature"], first["hints"]["true"]
            tnames = ps["typing"].get("names") if isinstance(ps["typing"], dict) else None
            if not isinstance(sig, list) or not isinstance(hts, list):
                fail("typeddict: signature / get_type_hints of a TypedDict raised", {"signature": sig, "get_type_hints": hts})
            elif [p["name"] for p in sig] != (tnames or []) or any(p["kind"] != "kwOnly" for p in sig):
                fail("typeddict: not one keyword-only parameter per key of typing.get_type_hints, in order",
                     {"real": sig, "typing": ps["typing"]})
            elif [[p["name"], p["dflt"]] for p in sig] != [[p["name"], "none" if p["name"] in ps["required_keys"] else "ellipsis"] for p in sig]:
                fail("typeddict: a parameter must have no default iff its key is in __required_keys__, else the default `...`",
                     {"real": [[p["name"], p["dflt"]] for p in sig], "__required_keys__": ps["required_keys"]})
            else:
                res.count("hints:oracle:typeddict-ok")
        for caller, real_b in first.get("binding", []):
            if real_b != ps["bind_expected"] and not ("err" in real_b and ps["bind_expected"] is None):
                fail("binding: a parameter is not converted to its own annotation — a string annotation to what it names in the module of the callable",
                     {"bound_from": caller, "callers_in_order": [c for c, _ in first["binding"]], "real": real_b, "expected": ps["bind_expected"]})
            else:
                res.count("hints:oracle:binding-ok")
    return res


def hints_replay(failure):
    """Re-run the grid and look for the recorded oracle failure; True when it still fails."""
    from ..runner import Result
    r = hints_correspondence(Result())
    inp = failure["input"]
    same = [f for f in r.failures if f["what"] == failure.get("what") and f["input"].get("group") == inp.get("group")
            and f["input"].get("object", "")[:1] == inp.get("object", "")[:1] and f["input"].get("strings") == inp.get("strings")]
    print(json.dumps({"still failing": len(same), "first": same[:2]}, indent=1, default=str)[:4000])
    return bool(same)


if __name__ == "__main__":   # python -m harness.props.hints_corr : print the comparison (development aid)
    from ..runner import Result
    r = hints_correspondence(Result())
    print(json.dumps({"evaluations": r.evaluations, "distinct": len(r.keys), "skipped": r.skipped, "stats": r.stats,
                      "disagreements": len(r.disagreements), "first_disagreements": r.disagreements[:3],
                      "failures": len(r.failures), "first_failures": r.failures[:3]}, indent=1, default=str)[:14000])
