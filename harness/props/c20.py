"""C20 — Annotation rewriting for older interpreters preserves meaning (typelib.py.future.transform)."""
from __future__ import annotations

import ast
import collections
import collections.abc
import inspect
import json
import re
import types
import typing

from .. import core, iso, lean
from ..runner import Result

ID = "C20"
LEVEL = "proof"
LEVEL_TEXT = ("Kernel-checked theorems over every expression tree ast.parse can produce (structural induction, no depth bound), for a "
              "node-by-node model of TransformAnnotation followed by unparse->parse: transform_no_pipe (no PEP 604 `|` outside "
              "constants in the output, every table), transform_idem (fixpoint; under goodTable: the names the transformer writes are not "
              "keys of the table), transform_id (same tree when no `|` and no table name occurs), transform_preserves (on the annotation "
              "grammar the output denotes the same origins/arguments recursively, flattened union for `|`, builtin = typing alias). "
              "goodTable / aliasSound / valuesAreDottedNames are re-decided on the regenerated _GENERICS each run; rawTransform_binop_code "
              "proves the structural definition equal to the code's spine loop. Model tied to /repo by a per-run differential "
              "correspondence on syntax trees; the four clauses are also evaluated directly on the real function (eval of both strings).")
LEVEL_NOTE = ("Trusted: Lean kernel; axioms propext, Classical.choice, Quot.sound; the hand-written model Model/Future.lean (tied by the "
              "correspondence, not verified); ast.parse/ast.unparse being inverse on the generated trees (checked per case); the harness "
              "tree encoder; CPython's typing aliases (typingAlias rows re-checked on the running interpreter). Store-context targets "
              "(walrus, comprehensions) are outside the model.")
TECHNIQUE = ("Lean 4 proofs by structural induction over a nested syntax-tree inductive; regenerated table re-decided; differential "
             "correspondence on trees + direct semantic oracle (typing.get_origin/get_args of both evaluations)")
DESIGN_REF = "DESIGN.md §5 C20"
MODULES = ["TypelibModel.Props.C20"]
TABLES = True
RULE = ("grammar-based generation: annotation expressions (names, dotted names, builtin and typing generics, tuples, `...`, "
        "|-chains of 2-4 operands over every binary bracketing with random redundant parentheses, Literal[...] with strings containing "
        "'|' and '[', Callable[[...], r], Annotated[...], string forward references; depth <= 4 quick / 5 thorough) plus a "
        "non-annotation stream (arithmetic over all binary operators, unary, calls with keywords/star-args, comparisons, boolean "
        "operators, lambdas, conditional expressions, slices, displays) and a fixed list of edge cases; a case is non-trivial when "
        "the input contains `|` or a name of the table; distinct = distinct strings")
ASSUMPTIONS = [
    "ast.parse(ast.unparse(t)) == t for the trees of the generated strings (checked on every case); the model's `normalize` is "
    "what unparse->parse does to the dotted Name ids the transformer creates (valuesAreDottedNames decided on the live table)",
    "typing.Dict/List/Set/Tuple/Pattern are CPython's aliases of dict/list/set/tuple/re.Pattern (rows of typingAlias, re-checked "
    "with typing.get_origin on the running interpreter)",
    "the semantic oracle applies to the generated annotation strings that evaluate on this interpreter (3.12); unions are compared "
    "flattened, up to duplicate members and up to the order of union / Literal members, as typing evaluates and caches them "
    "(typing's subscription cache is keyed by an order-insensitive ==); the order of members is compared by a second, symbolic "
    "evaluation of both strings (every name bound to a symbolic type; typing.X identified with its builtin by the typingAlias rows)",
]
TRUSTED = ["harness/props/c20.py (tree encoder, generators, structural comparison of evaluated types)",
           "lean/TypelibModel/Drv/Future.lean (driver glue)",
           "hand-written model Model/Future.lean tied to the code by this correspondence"]

DOCUMENTED = ("dict", "list", "set", "tuple", "Pattern")          # the builtin names the property statement lists
TYPING_ALIAS = [["dict", "typing.Dict"], ["list", "typing.List"], ["set", "typing.Set"], ["frozenset", "typing.FrozenSet"],
                ["tuple", "typing.Tuple"], ["type", "typing.Type"], ["Pattern", "typing.Pattern"], ["Match", "typing.Match"]]


# ------------------------------------------------------------------------------------------------ tree encoding
class Unsupported(Exception):
    pass


def _ctx_ok(node):
    if not isinstance(getattr(node, "ctx", None), ast.Load):
        raise Unsupported("non-Load context")


def enc_tree(node):
    """Mirror of Drv/Future.lean `futExprOfJson`."""
    if isinstance(node, ast.Name):
        _ctx_ok(node)
        return ["N", node.id]
    if isinstance(node, ast.Attribute):
        _ctx_ok(node)
        return ["A", enc_tree(node.value), node.attr]
    if isinstance(node, ast.Subscript):
        _ctx_ok(node)
        return ["S", enc_tree(node.value), enc_tree(node.slice)]
    if isinstance(node, ast.Tuple):
        _ctx_ok(node)
        return ["T", [enc_tree(e) for e in node.elts]]
    if isinstance(node, ast.List):
        _ctx_ok(node)
        return ["L", [enc_tree(e) for e in node.elts]]
    if isinstance(node, ast.BinOp):
        return ["B", type(node.op).__name__, enc_tree(node.left), enc_tree(node.right)]
    if isinstance(node, ast.UnaryOp):
        return ["U", type(node.op).__name__, enc_tree(node.operand)]
    if isinstance(node, ast.Constant):
        if node.kind is not None:
            raise Unsupported("u-prefixed string")
        v = node.value
        if v is None:
            return ["C", "n"]
        if v is Ellipsis:
            return ["C", "e"]
        if isinstance(v, bool):
            return ["C", "b", v]
        if isinstance(v, int):
            return ["C", "i", str(v)]
        if isinstance(v, str):
            try:
                v.encode("utf-8")
            except UnicodeEncodeError:
                raise Unsupported("surrogate in string constant") from None
            return ["C", "s", v]
        return ["C", "o", repr(v)]
    if isinstance(node, ast.Call):
        return ["K", enc_tree(node.func), [enc_tree(a) for a in node.args], [enc_tree(k) for k in node.keywords]]
    # every other node kind: generic_visit recurses into the child nodes, keeps the rest
    children = []
    parts = [f"{f}={_shape(v, children)}" for f, v in ast.iter_fields(node)]
    return ["O", f"{type(node).__name__}({','.join(parts)})", children]


def _shape(value, children):
    if isinstance(value, ast.expr_context):
        if not isinstance(value, ast.Load):
            raise Unsupported("non-Load context")
        return "Load"
    if isinstance(value, (ast.operator, ast.unaryop, ast.cmpop, ast.boolop)):
        return type(value).__name__
    if isinstance(value, ast.AST):
        children.append(enc_tree(value))
        return "*"
    if isinstance(value, list):
        return "[" + ",".join(_shape(v, children) for v in value) + "]"
    return repr(value)


def parse_body(s):
    return ast.parse(s, mode="eval").body


# ------------------------------------------------------------------------------------------------ generators
def namespace():
    """What refs.evaluate builds (vars(typing) + typing) plus the modules and classes the grammar names."""
    class A:
        pass

    class B:
        pass

    class C:
        class D:
            pass
    ns = {**vars(typing), "typing": typing, "re": re, "collections": collections, "A": A, "B": B, "C": C}
    return ns


ATOMS = ["int", "str", "bytes", "float", "bool", "None", "A", "B", "C.D", "object", "list", "dict", "set", "tuple", "Pattern",
         "frozenset", "type", "typing.Any", "typing.List", "typing.Dict", "re.Pattern", "typing.Hashable",
         "collections.abc.Hashable", "Any"]
LIT_VALUES = ["'a|b'", "'['", "'x | y'", "'a[b]'", "'list[int]'", "'int'", "1", "-1", "0", "True", "None", "'|'", "']|['"]
FWD = ["'A'", "'int | str'", "'list[A]'", "'B'", "'dict[str, A | None]'"]
META = ["'x|y'", "5", "'a[b]'", "'list'", "-3", "None", "True", "'|'",
        # metadata that is itself a type expression: every argument of Annotated is rewritten, not only the first
        "str | None", "list[int]", "dict", "dict[str, int | float]", "tuple[int, ...] | None", "A | B"]


class AGen:
    """Strings of the annotation grammar.  Every method returns (text, is_union_at_top)."""

    def __init__(self, rng):
        self.r = rng

    def ty(self, d):
        r = self.r
        if d <= 0:
            return self.atom()
        k = r.random()
        if k < 0.16:
            return self.atom()
        if k < 0.46:
            return self.generic(d)
        if k < 0.76:
            return self.union(d)
        if k < 0.83:
            return self.literal()
        if k < 0.90:
            return self.callable(d)
        if k < 0.96:
            return self.annotated(d)
        return self.r.choice(FWD), False

    def plain(self, d):
        """a type in a position where no parentheses are needed (subscript argument, list element)"""
        return self.ty(d)[0]

    def atom(self):
        return self.r.choice(ATOMS), False

    def generic(self, d):
        r = self.r
        p = lambda: self.plain(d - 1)  # noqa: E731
        k = r.randrange(22)
        forms = [
            lambda: f"list[{p()}]", lambda: f"set[{p()}]", lambda: f"dict[{p()}, {p()}]", lambda: f"tuple[{p()}, ...]",
            lambda: f"tuple[{p()}, {p()}]", lambda: "tuple[()]", lambda: f"tuple[{p()}]", lambda: f"typing.List[{p()}]",
            lambda: f"typing.Optional[{p()}]", lambda: f"typing.Union[{p()}, {p()}]", lambda: f"Union[{p()}, {p()}, {p()}]",
            lambda: f"Optional[{p()}]", lambda: "Pattern[str]", lambda: "re.Pattern[bytes]", lambda: f"type[{p()}]",
            lambda: f"typing.Mapping[{p()}, {p()}]", lambda: f"collections.abc.Sequence[{p()}]", lambda: f"frozenset[{p()}]",
            lambda: f"typing.Dict[str, {p()}]", lambda: f"typing.Tuple[{p()}, ...]", lambda: f"list[({p()})]",
            lambda: f"dict[(str, {p()})]",
        ]
        return forms[k](), False

    def union(self, d):
        n = self.r.choice([2, 2, 3, 3, 4])
        ops = [self.ty(d - 1) for _ in range(n)]
        return self.bracket(ops), True

    def bracket(self, ops):
        """a random binary bracketing of the operands; right operands that are unions need their parentheses,
        left ones and atoms get redundant ones sometimes"""
        r = self.r
        if len(ops) == 1:
            text, is_union = ops[0]
            if is_union or r.random() < 0.08:
                return f"({text})"
            return text
        i = r.randrange(1, len(ops))
        left, right = self.bracket(ops[:i]), self.bracket(ops[i:])
        if len(ops) - i > 1:
            right = f"({right})"
        if i > 1 and r.random() < 0.5:
            left = f"({left})"
        return f"{left} | {right}"

    def literal(self):
        r = self.r
        vals = ", ".join(r.choice(LIT_VALUES) for _ in range(r.choice([1, 1, 2, 3])))
        return f"{r.choice(['Literal', 'typing.Literal'])}[{vals}]", False

    def callable(self, d):
        r = self.r
        head = r.choice(["Callable", "typing.Callable", "collections.abc.Callable"])
        ret = self.plain(d - 1)
        if r.random() < 0.25:
            return f"{head}[..., {ret}]", False
        params = ", ".join(self.plain(d - 1) for _ in range(r.choice([0, 1, 2, 3])))
        return f"{head}[[{params}], {ret}]", False

    def annotated(self, d):
        r = self.r
        metas = ", ".join(r.choice(META) for _ in range(r.choice([1, 1, 2])))
        return f"{r.choice(['Annotated', 'typing.Annotated'])}[{self.plain(d - 1)}, {metas}]", False


BINOPS = ["+", "-", "*", "/", "//", "%", "**", "<<", ">>", "|", "|", "|", "^", "&", "@"]
XATOMS = ["a", "b", "c", "x", "list", "dict", "set", "tuple", "Pattern", "1", "2", "'a|b'", "None", "int", "a.b", "x.list", "...", "1.5", "b'|'"]


class XGen:
    """Expressions that are not annotations."""

    def __init__(self, rng):
        self.r = rng

    def e(self, d):
        r = self.r
        if d <= 0:
            return r.choice(XATOMS)
        k = r.randrange(20)
        s = lambda: self.e(d - 1)  # noqa: E731
        if k < 7:
            l, rr = s(), s()
            if r.random() < 0.4:
                l = f"({l})"
            if r.random() < 0.4:
                rr = f"({rr})"
            return f"{l} {r.choice(BINOPS)} {rr}"
        if k == 7:
            return f"{r.choice(['-', '~', 'not ', '+'])}({s()})" if r.random() < 0.5 else f"{r.choice(['-', '~', 'not '])}{s()}"
        if k == 8:
            return f"f({s()}, {s()})"
        if k == 9:
            return f"{r.choice(['f', 'a.g', 'list', 'x[0]'])}({s()}, k={s()}, *{r.choice(['a', 'list'])}, **{r.choice(['kw', 'dict'])})"
        if k == 10:
            return f"({s()}) {r.choice(['<', '<=', '==', '!=', 'is', 'is not', 'in', 'not in'])} ({s()}) {r.choice(['<', '>'])} {s()}"
        if k == 11:
            return f"({s()}) {r.choice(['and', 'or'])} ({s()})"
        if k == 12:
            return f"(lambda {r.choice(['x', 'list', 'x, y=1', '*a, **k', ''])}: {s()})"
        if k == 13:
            return f"(({s()}) if ({s()}) else ({s()}))"
        if k == 14:
            return f"({s()})[{r.choice([s(), s() + ':' + s(), ':', '::2', s() + ', ' + s()])}]"
        if k == 15:
            return f"({s()}).{r.choice(['attr', 'list', 'append'])}"
        if k == 16:
            return f"[{s()}, *{r.choice(['a', 'list'])}, {s()}]"
        if k == 17:
            return f"{{{s()}: {s()}, **{r.choice(['d', 'dict'])}}}"
        if k == 18:
            return f"({s()}, {s()})"
        return f"{{{s()}, {s()}}}"


FIXED_ANNOT = [
    "int", "str | int", "str | int | None", "typing.Union[str, int]", "dict[str, int]", "dict[str, int | float]",
    "str | dict[str, int | float]", "(a | b) | (c | d)", "a | (b | c)", "(a | b) | c", "a | b | c | d", "a | (b | (c | d))",
    "((a | b) | c) | d", "(a | (b | c)) | d", "a | ((b | c) | d)", "((a) | (b))", "int | (str | (bytes | None))",
    "(int | str) | (bytes | None)", "list[int | str] | None", "Literal['a|b', '['] | None", "Literal['a|b']", "Pattern[str]",
    "re.Pattern[str]", "Pattern", "list", "dict", "set", "tuple", "typing.List[int]", "Callable[[int | str, list], dict]",
    "Callable[..., int | None]", "Annotated[int | None, 'x|y']", "Annotated[int, str | None]", "typing.Annotated[int, list[int]]",
    "dict[str, Annotated[list[int], dict[str, int | float]]]", "Annotated[int, dict]", "t.Annotated[set[int], 'm', A | B]", "'int | str'", "tuple[()]", "tuple[int, ...]",
    "typing.Union[a | b, c]", "Union[int | str, None]", "Optional[int | str]", "list[(int | str)]", "x[a | b,]",
    "set[frozenset[int] | None]", "C.D | None", "typing.Optional[Callable[[A], re.Pattern[str]]]", "'A' | None",
    "dict[str, list[set[tuple[int | None, ...]]]]", "list[int] | typing.List[int]", "tuple[list, dict, set]",
    "Literal[-1, True, None, 'x | y'] | Literal['[']", "type[int | str]", "int | None | None",
]
FIXED_OTHER = [
    "1 + 2", "(a | b) + c", "a + b | c", "a + (b | c)", "a | b + c", "a * b | c * d", "(a | b) * (c | d)", "a ** b | c",
    "-a | b", "~(a | b)", "not a | b", "f(a | b, k=list)", "f(*list, **dict)", "a if b | c else d", "a | b if c else d",
    "lambda list: list | int", "lambda: a | b", "a < b | c < d", "a | b and c", "a[1:2 | 3]", "{a: b | c, **d}", "[*a, b | c]",
    "{a | b, c}", "x.list", "list.append", "a | b | c + d | e", "(a + b | c) | d", "a ^ b | c & d", "a @ b | c", "1 | 2",
    "Literal[1 | 2]", "a | (lambda: b | c)", "(a | b).c | d", "(a | b)[c | d]", "f(a | b)(c | d)", "a.b(c)[d] | e",
    "A - B | C", "A | B & C", "(A + B) | C", "A | B * C | D", "Dict[A, B - C | D]", "dict[a, b - c | d]", "list[a @ b | None]", "-a | ~b",
    "[a | b][0]", "(a | b, c | d)", "1.5 | x", "b'|' | a", "a[*b]", "x[::2] | y", "a >> b | c << d", "a // b | c % d",
]


def gen_strings(ctx):
    r = ctx.rng
    depth = 4 if ctx.tier == "quick" else 5
    out = [(s, "annot") for s in FIXED_ANNOT] + [(s, "other") for s in FIXED_OTHER]
    for inp in ctx.focus or []:
        if isinstance(inp, dict) and "s" in inp:
            out.append((inp["s"], inp.get("stream", "other")))
    ag, xg = AGen(r), XGen(r)
    for _ in range(ctx.n(7000, 60000)):
        d = r.choice([1, 2, 2, 3, 3, 3, depth, depth, depth])
        out.append((ag.ty(d)[0], "annot"))
    for _ in range(ctx.n(3000, 25000)):
        d = r.choice([1, 2, 2, 3, 3, depth])
        x = xg.e(d)
        try:                       # unparenthesised `not` / lambda operands: not every composition is an expression
            parse_body(x)
        except SyntaxError:
            continue
        out.append((x, "other"))
    # expressions made of names, subscripts and operators only, every one with a `|` somewhere: the structure oracle reads them too
    oatoms = ["a", "b", "c", "A", "list", "dict", "x.y", "None", "'s'", "typing.List", "set[a]", "..."]

    def opx(d):
        if d <= 0:
            return r.choice(oatoms)
        k = r.randrange(10)
        if k < 6:
            l, rr = opx(d - 1), opx(d - 1)
            if r.random() < 0.35:
                l = f"({l})"
            if r.random() < 0.35:
                rr = f"({rr})"
            return f"{l} {r.choice(BINOPS)} {rr}"
        if k == 6:
            return f"{r.choice(['-', '~', '+'])}{r.choice(oatoms[:7])}"
        if k == 7:
            return f"{r.choice(['list', 'dict', 'Dict', 'x', 'typing.Tuple'])}[{opx(d - 1)}, {opx(d - 1)}]"
        if k == 8:
            return f"{r.choice(['list', 'Set', 'x.y', 'tuple'])}[{opx(d - 1)}]"
        return f"({opx(d - 1)}, {opx(d - 1)})"
    for _ in range(ctx.n(2500, 20000)):
        x = opx(r.choice([1, 2, 2, 3]))
        if " | " not in x:
            continue
        try:
            parse_body(x)
        except SyntaxError:
            continue
        out.append((x, "other"))
    seen, uniq = set(), []
    for s, stream in out:
        if s not in seen and len(s) < 1500:
            seen.add(s)
            uniq.append((s, stream))
    return uniq


# ------------------------------------------------------------------------------------------------ structure of evaluated types
def _name(o):
    return f"{getattr(o, '__module__', '?')}.{getattr(o, '__qualname__', None) or repr(o)}"


def struct(t):
    """origin + arguments, recursively (typing.get_origin / get_args); X | Y and typing.Union alike (flattened, duplicates
    dropped, a single member is the member), list and typing.List alike."""
    if t is None or t is type(None):
        return ("none",)
    if t is Ellipsis:
        return ("...",)
    if isinstance(t, str):
        return ("fwd", t)
    if isinstance(t, typing.ForwardRef):
        return ("fwd", t.__forward_arg__)
    if isinstance(t, list):
        return ("list", tuple(struct(x) for x in t))
    if isinstance(t, (bool, int, float, bytes)):
        return ("const", repr(t))
    origin = typing.get_origin(t)
    if origin is typing.Union or isinstance(t, types.UnionType):
        members = []
        for a in typing.get_args(t):
            sa = struct(a)
            for m in (sa[1] if sa[0] == "union" else (sa,)):
                if m not in members:
                    members.append(m)
        # typing's subscription cache is keyed by ==, and == of unions / Literals ignores the order of the members: the
        # order seen after evaluation depends on what was evaluated before, so it is not compared here (the theorem
        # transform_preserves keeps it)
        return members[0] if len(members) == 1 else ("union", tuple(sorted(members, key=repr)))
    if origin is None:
        return ("atom", _name(t))
    if isinstance(t, typing._SpecialGenericAlias):       # bare typing.List, typing.Pattern, typing.Callable …
        return ("atom", _name(origin))
    if origin is typing.Literal:
        return ("literal", tuple(sorted({("const", repr(a)) for a in typing.get_args(t)})))
    return ("app", _name(origin), tuple(struct(a) for a in typing.get_args(t)))


# ------------------------------------------------------------------------------------------------ symbolic evaluation
class Sym:
    """A symbolic type: evaluating an annotation string with every name bound to a Sym gives its exact structure
    (origins, arguments, order of union members) without typing's caches and for names that do not exist."""

    __slots__ = ("st",)
    UNION = (("typing", "Union"), ("Union",))

    def __init__(self, st):
        self.st = st

    def __getattr__(self, a):
        if a.startswith("__"):
            raise AttributeError(a)
        if self.st[0] == "atom":
            raw = _canon_path(self.st[2]) + (a,)          # dict.append and typing.Dict.append: the same attribute of the same thing
            return Sym(("atom", _canon_path(raw), raw))
        return Sym(("attr", sym_struct(self), a))

    def __getitem__(self, item):
        args = item if isinstance(item, tuple) else (item,)
        if self.st[0] == "atom" and self.st[2] in Sym.UNION:
            return Sym(("union", tuple(m for a in args for m in _members(sym_struct(a)))))
        return Sym(("app", self.st[:2], tuple(sym_struct(a) for a in args)))

    def __or__(self, other):
        return Sym(("union", _members(sym_struct(self)) + _members(sym_struct(other))))

    def __ror__(self, other):
        return Sym(("union", _members(sym_struct(other)) + _members(sym_struct(self))))

    def __neg__(self):
        return Sym(("unop", "-", sym_struct(self)))

    def __pos__(self):
        return Sym(("unop", "+", sym_struct(self)))

    def __invert__(self):
        return Sym(("unop", "~", sym_struct(self)))


def _sym_binop(name, op):
    def fwd(self, other):
        return Sym(("binop", op, sym_struct(self), sym_struct(other)))

    def rev(self, other):
        return Sym(("binop", op, sym_struct(other), sym_struct(self)))
    setattr(Sym, f"__{name}__", fwd)
    setattr(Sym, f"__r{name}__", rev)


# every other binary operator keeps its operands and its sign (classes may give them a meaning through their metaclass): an
# expression that mixes them with `|` still denotes ONE structure, and the rewriting may not change it
for _n, _o in (("add", "+"), ("sub", "-"), ("mul", "*"), ("truediv", "/"), ("floordiv", "//"), ("mod", "%"), ("pow", "**"),
               ("lshift", "<<"), ("rshift", ">>"), ("xor", "^"), ("and", "&"), ("matmul", "@")):
    _sym_binop(_n, _o)


def operator_expression(tree):
    """An expression built from names, attributes, subscripts, tuples, lists, str / None / ... constants and operators only (no
    numbers or bytes, whose own `|` is arithmetic; no calls, comparisons, lambdas, slices, stars)."""
    ok_ops = (ast.USub, ast.UAdd, ast.Invert)
    for n in ast.walk(tree):
        if isinstance(n, (ast.Name, ast.Attribute, ast.BinOp, ast.Subscript, ast.Tuple, ast.List, ast.Load, ast.operator, ast.Expression,
                          ast.Module, ast.Expr)):
            continue
        if isinstance(n, ast.UnaryOp) and isinstance(n.op, ok_ops):
            continue
        if isinstance(n, ok_ops):
            continue
        if isinstance(n, ast.Constant) and (n.value is None or n.value is Ellipsis or isinstance(n.value, str)):
            continue
        return False
    return True


ALIAS_PATHS = {tuple(v.split(".")): (k,) for k, v in TYPING_ALIAS}


def _canon_path(path):
    return ALIAS_PATHS.get(path, path)


def _members(st):
    return st[1] if st[0] == "union" else (st,)


def sym_struct(x):
    if isinstance(x, Sym):
        return x.st[:2] if x.st[0] == "atom" else x.st
    if x is None:
        return ("none",)
    if x is Ellipsis:
        return ("...",)
    if isinstance(x, str):
        return ("fwd", x)
    if isinstance(x, list):
        return ("list", tuple(sym_struct(e) for e in x))
    if isinstance(x, tuple):
        return ("tuple", tuple(sym_struct(e) for e in x))
    return ("const", repr(x))


class SymNS(dict):
    def __missing__(self, name):
        return Sym(("atom", _canon_path((name,)), (name,)))


def sym_eval(s):
    return sym_struct(eval(s, {"__builtins__": {}}, SymNS()))  # noqa: S307


def has_pipe(tree):
    return any(isinstance(n, ast.BinOp) and isinstance(n.op, ast.BitOr) for n in ast.walk(tree))


def names_in(tree):
    return {n.id for n in ast.walk(tree) if isinstance(n, ast.Name)}


def dump(tree):
    return ast.dump(tree, annotate_fields=True, include_attributes=False)


# ------------------------------------------------------------------------------------------------ one case on the real code
def real_case(future, ns, s, stream, keys):
    """Everything observed on the real function for the string s.  Returns (record, failures)."""
    fails = []
    rec = {"s": s, "stream": stream}
    tree_in = parse_body(s)
    try:
        t = future.transform(s)
    except Exception as e:  # noqa: BLE001
        fails.append({"what": f"transform raised {type(e).__name__}: {e}"})
        return rec, fails, tree_in, None
    rec["out"] = t
    try:
        tree_out = parse_body(t)
    except SyntaxError as e:
        fails.append({"what": f"the returned string does not parse: {e}", "out": t})
        return rec, fails, tree_in, None
    # (2) no PEP 604 union left outside constants
    if has_pipe(tree_out):
        fails.append({"what": "PEP 604 `|` left in the output", "out": t})
    # (2') the documented builtin names are rewritten
    left = sorted(names_in(tree_out) & set(DOCUMENTED))
    if left:
        fails.append({"what": f"builtin generic name(s) {left} left in the output", "out": t})
    # (3) fixpoint
    try:
        t2 = future.transform(t)
    except Exception as e:  # noqa: BLE001
        t2 = f"<{type(e).__name__}: {e}>"
    if t2 != t:
        fails.append({"what": "transform(transform(s)) != transform(s)", "out": t, "again": t2})
    # (4) same tree when none of the constructs occurs
    constructs = has_pipe(tree_in) or bool(names_in(tree_in) & (set(DOCUMENTED) | set(keys)))
    rec["constructs"] = constructs
    if not constructs and dump(tree_out) != dump(tree_in):
        fails.append({"what": "input without `|` / builtin generic names came back with another syntax tree", "out": t})
    # (1) same structure of the evaluated types
    if stream == "annot":
        try:
            v_in = eval(s, dict(ns))  # noqa: S307
        except Exception as e:  # noqa: BLE001
            rec["eval"] = f"skipped:{type(e).__name__}"
        else:
            try:
                v_out = eval(t, dict(ns))  # noqa: S307
            except Exception as e:  # noqa: BLE001
                fails.append({"what": f"the input evaluates, the output raises {type(e).__name__}: {e}", "out": t})
            else:
                a, b = struct(v_in), struct(v_out)
                rec["eval"] = "ok"
                if a != b:
                    fails.append({"what": "the output evaluates to a type of another structure", "out": t,
                                  "struct_in": repr(a)[:600], "struct_out": repr(b)[:600]})
        # (1') the same, symbolically: exact order of members, no interpreter cache, names need not exist
        try:
            a = sym_eval(s)
        except TypeError:                      # None | None, 'A' | 'B': no operand implements `|`
            rec["sym"] = "skipped:TypeError"
        else:
            try:
                b = sym_eval(t)
            except Exception as e:  # noqa: BLE001
                fails.append({"what": f"symbolic evaluation of the output raises {type(e).__name__}: {e}", "out": t})
            else:
                rec["sym"] = "ok"
                if a != b:
                    fails.append({"what": "the output denotes another structure (symbolic evaluation, order of members kept)",
                                  "out": t, "struct_in": repr(a)[:600], "struct_out": repr(b)[:600]})
    elif operator_expression(tree_in) and has_pipe(tree_in):
        # (1'') an expression that mixes `|` with other operators (A - B | C): the same structure, symbolically
        try:
            a = sym_eval(s)
        except Exception:  # noqa: BLE001        'A' | 'B', a constant subscripted, ...
            rec["sym"] = "skipped:input"
        else:
            try:
                b = sym_eval(t)
            except Exception as e:  # noqa: BLE001
                fails.append({"what": f"symbolic evaluation of the output raises {type(e).__name__}: {e}", "out": t})
            else:
                rec["sym"] = "ok-operators"
                if a != b:
                    fails.append({"what": "the output denotes another structure (symbolic evaluation of an expression mixing `|` with other operators)",
                                  "out": t, "struct_in": repr(a)[:600], "struct_out": repr(b)[:600]})
    return rec, fails, tree_in, tree_out


def check_interpreter_facts(ns, spec, future, res):
    """The constants of the model that are facts about CPython / defaults of the code."""
    if spec.get("typingAlias") != TYPING_ALIAS:
        raise RuntimeError(f"harness: TYPING_ALIAS mirror differs from Model/Future.lean typingAlias: {spec.get('typingAlias')}")
    for k, v in TYPING_ALIAS:
        if struct(eval(k, dict(ns))) != struct(eval(v, dict(ns))):  # noqa: S307
            raise RuntimeError(f"harness: typingAlias row ({k}, {v}) is not an alias on this interpreter")
    default_union = inspect.signature(future.transform).parameters["union"].default
    if spec.get("union") != default_union:
        res.disagreements.append({"what": "default union name", "input": {"s": "<signature of transform>"},
                                  "real": default_union, "model": spec.get("union")})
    live = sorted([k, v] for k, v in future._GENERICS.items())
    if sorted(spec.get("table", [])) != live:
        res.disagreements.append({"what": "_GENERICS linked into the driver differs from the imported module",
                                  "input": {"s": "<_GENERICS>"}, "real": live, "model": spec.get("table")})


# ---- the same text under another union name first (transform's keyword `union`): what the default call returns is a function of the
# text alone, and the given name is honoured in either order
def _union_name_child(job):
    order, items = job
    import ast as _ast
    core.import_typelib()
    from typelib.py import future
    bad = []
    for s, expected in items:
        try:
            if order == "custom-first":
                a, b = future.transform(s, union="U_"), future.transform(s)
            else:
                b, a = future.transform(s), future.transform(s, union="U_")
        except Exception as e:  # noqa: BLE001
            bad.append([s, f"raised {type(e).__name__}: {e}"])
            continue
        if b != expected:
            bad.append([s, f"transform(s) = {b!r} ({order}: union='U_' gave {a!r}); alone it is {expected!r}"])
            continue
        names = {n.id for n in _ast.walk(_ast.parse(a, mode="eval")) if isinstance(n, _ast.Name)}
        if "typing.Union[" in expected.replace(" ", "") and "U_" not in names and "U_" not in s:
            bad.append([s, f"transform(s, union='U_') = {a!r} ({order}): the given union name is not used"])
    return bad


def union_name_probe(res, records):
    import ast as _ast
    items = []
    for s, out in records:
        try:
            if has_pipe(parse_body(s)) and "typing.Union" not in s:
                items.append((s, out))
        except SyntaxError:
            continue
    items = items[:400]
    outs = iso.map_isolated(_union_name_child, [("custom-first", items), ("default-first", items)], timeout=120.0)
    for order, bad in zip(("custom-first", "default-first"), outs):
        if not isinstance(bad, list):
            raise RuntimeError(f"harness: union-name probe failed: {bad}")
        res.case({"family": "same-text-under-another-union-name", "order": order, "texts": len(items)}, True)
        for s, what in bad[:20]:
            res.failures.append({"what": what, "input": {"s": s, "stream": "union-name", "order": order}})
        if not bad:
            res.count("oracle:union-name-honoured-and-default-unaffected", len(items))


def explore(ctx):
    res = Result()
    res.rule = RULE
    core.import_typelib()
    from typelib.py import future
    ns = namespace()
    keys = list(future._GENERICS)
    cases = gen_strings(ctx)
    ops, meta = [{"op": "future.spec"}], []
    for s, stream in cases:
        try:
            tree0 = parse_body(s)
        except SyntaxError as e:
            raise RuntimeError(f"harness: generated string does not parse: {s!r}: {e}") from None
        rec, fails, tree_in, tree_out = real_case(future, ns, s, stream, keys)
        res.case({"s": s}, bool(rec.get("constructs")))
        res.count(f"stream:{stream}")
        if "eval" in rec:
            res.count("oracle:eval-" + rec["eval"])
        if "sym" in rec:
            res.count("oracle:symbolic-" + rec["sym"])
        for f in fails:
            res.failures.append({"input": {"s": s, "stream": stream}, **f})
        if not fails:
            res.count("oracle:all-clauses-ok")
        # assumption of the harness: unparse/parse are inverse on the input tree
        if dump(parse_body(ast.unparse(tree0))) != dump(tree0):
            res.count("assumption:unparse-parse-not-inverse(skipped)")
            res.skipped += 1
            continue
        if tree_out is None:
            continue
        try:
            j_in, j_out = enc_tree(tree_in), enc_tree(tree_out)
        except Unsupported as e:
            res.count(f"model-unsupported:{e}")
            res.skipped += 1
            continue
        ops.append({"op": "future.transform", "tree": j_in})
        meta.append((s, stream, j_out, rec))
    outs = lean.drive(ops)
    check_interpreter_facts(ns, outs[0], future, res)
    for (s, stream, j_out, rec), m in zip(meta, outs[1:]):
        inp = {"s": s, "stream": stream}
        if "bad" in m:
            raise RuntimeError(f"driver rejected {s!r}: {m}")
        if m["ok"] != j_out:
            res.count("tree:DISAGREE")
            res.disagreements.append({"what": "tree of transform(s)", "input": inp, "real": j_out, "model": m["ok"],
                                      "real_text": rec.get("out")})
            continue
        res.count("tree:agree")
        if not m["wf"]:
            raise RuntimeError(f"harness: parsed tree not wf in the model: {s!r}")
        if stream == "annot":
            if not m["annot"]:
                raise RuntimeError(f"harness: generated annotation outside the model's grammar `annot`: {s!r}")
            res.count("grammar:annot")
        if set(DOCUMENTED) <= set(keys) and m["noConstructs"] != (not rec["constructs"]):
            res.disagreements.append({"what": "noConstructs", "input": inp, "real": not rec["constructs"], "model": m["noConstructs"]})
        if not m["noPipe"]:
            res.disagreements.append({"what": "noPipe of the model's output", "input": inp, "real": True, "model": False})
    union_name_probe(res, [(s, rec["out"]) for s, stream, j_out, rec in meta if "out" in rec])
    return res


def witness(fid):
    return None


def replay(failure):
    core.import_typelib()
    from typelib.py import future
    inp = failure["input"]
    s, stream = inp["s"], inp.get("stream", "other")
    rec, fails, tree_in, tree_out = real_case(future, namespace(), s, stream, list(future._GENERICS))
    out = {"input": s, "transform": rec.get("out"), "failures": fails}
    try:
        m = lean.drive([{"op": "future.transform", "tree": enc_tree(tree_in)}])[0]
        out["model_agrees"] = tree_out is not None and m.get("ok") == enc_tree(tree_out)
    except Exception as e:  # noqa: BLE001
        out["model"] = f"{type(e).__name__}: {e}"
    print(json.dumps(out, indent=1, default=str)[:3000])
    return bool(fails)
