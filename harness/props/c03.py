"""C03 — Unmarshal never returns a value outside the target type."""
from __future__ import annotations

import json

from .. import core, enc
from ..runner import Result
from .classdispatch_corr import classdispatch_correspondence

ID = "C03"
LEVEL = "proof"
LEVEL_TEXT = ("Theorems over the executable model of every unmarshaller (Props/C03.lean): whatever the input, an `ok` result of "
              "`um` conforms structurally to the annotation (class at every position, arity of fixed tuples, required TypedDict keys, "
              "Literal/Enum membership) — no truncated or partially converted result; a result is a fixed point of unmarshal "
              "(`idempotent_core`: every enum included, str mix-in or not, since members pass through undecoded). The model is tied to /repo by the per-run "
              "correspondence on junk and systematically corrupted wire forms, and whatever the REAL unmarshal returns is judged by "
              "an independent structural checker written against `typing` only.")
LEVEL_NOTE = ("Trusted: Lean kernel, axioms propext/Classical.choice/Quot.sound; hand-written model tied by correspondence; "
              "LeafSound hypothesis for CPython constructors; inputs are the Val fragment (arbitrary objects enter as an attribute-less opaque).")
TECHNIQUE = "Lean 4 soundness theorem over the model of all unmarshallers; correspondence on junk/corrupted inputs; independent conformance oracle"
DESIGN_REF = "DESIGN.md §5 C03"
MODULES = ["TypelibModel.Props.C03", "TypelibModel.Props.Dispatch", "TypelibModel.Props.ClassDispatch"]
TABLES = True
RULE = ("programs as in C01 (all unions allowed); inputs: junk stream (primitives, text in 5 carriers, JSON / Python-literal text, "
        "wrong-shape containers, unrelated instances, temporals), corrupted VALUES (an instance / tuple of the right class with a retyped "
        "field or element) and corrupted wire forms of valid values (field dropped/renamed/"
        "retyped, element removed/added, nesting changed); non-trivial = composite annotation; distinct = (annotation, input)")
ASSUMPTIONS = ["objects with adversarial dunder methods are out of scope; unrelated objects are attribute-less instances",
               "Literal/Enum membership and scalar positions are judged by Python's == / isinstance (DESIGN.md §3 Conformance)"]
TRUSTED = ["harness/pyoracle/conforms.py (independent checker)", "harness encoders/generators", "hand-written model tied by correspondence",
           "harness/props/classdispatch_corr.py (class generator, readings computed with plain Python)", "lean/TypelibModel/Drv/ClassDispatch.lean (driver glue)"]


def make_ops(depth):
    def f(g, prog):
        ops = []
        for _ in range(3):
            ts = g.ty(depth)
            for _ in range(3):
                ops.append({"op": "um", "ty": ts, "val": g.junk(), "obs": ["conforms"]})
            # corrupted wire forms: marshal a valid value in the model-free way (the harness asks the real
            # library for the wire form in a second pass), here: corrupt the *value encoding* when it is plain
            v = g.value(ts, budget=depth)
            ops.append({"op": "rt", "ty": ts, "val": v})
        return ops
    return f


DESCENT_SRC = ("import typing, datetime\n"
               "SA = typing.TypeAliasType('SA', 'dict[str, SA] | list[SA] | datetime.date | None')\n"
               "type L1 = list[L1] | int\n")


def _descent_child(job):
    """unmarshal(<recursive alias>, <short text>) must return or raise: run under a wall-clock limit by the parent."""
    import sys
    import types
    import warnings
    warnings.simplefilter("ignore")
    import typelib
    mod = types.ModuleType("vm_c03_descent")
    sys.modules["vm_c03_descent"] = mod
    exec(DESCENT_SRC, mod.__dict__)
    name, x = job
    try:
        r = typelib.unmarshal(getattr(mod, name), x)
        return {"ok": repr(r)[:80]}
    except Exception as e:  # noqa: BLE001
        return {"err": enc.err_class(e)}


def text_descent_probe(res):
    """A one-character text is a collection whose only element is that text again: a recursive alias with TWO recursive container
    members descends into it along both (dict and list), 2^depth calls before the interpreter's recursion limit ends each branch."""
    from .. import iso
    core.import_typelib()
    jobs = [("L1", "ab"), ("L1", "-"), ("SA", None), ("SA", "-"), ("SA", "a-b")]
    outs = iso.map_isolated(_descent_child, jobs, timeout=8.0)
    for (name, x), o in zip(jobs, outs):
        res.case({"alias": name, "input": x}, True)
        if isinstance(o, dict) and "crash" in o:
            f = {"what": f"unmarshal({name}, {x!r}) neither returned nor raised within 8 s ({o['crash']})", "input": {"alias": name, "text": x}}
            if name == "SA":
                f["finding"] = "textDescentBlowup"
            res.failures.append(f)
        else:
            res.count("oracle:recursive-alias-text-terminates")


def member_text_job():
    """The text of a declared member (Literal / enum value) in every carrier at every position: the result must be the declared
    member (a str, an int, an enum member), never the carrier."""
    prog = {"classes": [{"id": 0, "name": "Color", "qualname": "Color", "module": "vm_c03_m", "kind": "enum", "mixin": "none",
                         "members": [["red", "red"], ["one", 1]], "fields": [], "required": [], "defaults": []},
                        {"id": 1, "name": "Handle", "qualname": "Handle", "module": "vm_c03_m", "kind": "dataclass", "opts": [],
                         "fields": [["path", ["str"]], ["mode", ["lit", ["r", "w"]]]], "required": ["path", "mode"], "defaults": [],
                         "members": [], "mixin": "none"}], "aliases": {}}
    lit = ["lit", ["red", "green", 1]]
    ops = []
    for text in ("red", "1", "green", "blue", "r"):
        for car in ("bytes", "bytearray", "mview", "mviewW"):
            b = ["b", car, text]
            for ts, v in ((lit, b), (["coll", "list", lit, {"sp": "builtin"}], ["l", [b, "green"]]), (["dict", lit, ["int"], {"sp": "builtin"}], ["d", [[["b", "bytes", text], 1]]]),
                          (["union", [["lit", [1, 2]], ["lit", ["red"]]], {"sp": "typing"}], b), (["tuple", [lit, ["int"]], {"sp": "builtin"}], ["t", [b, 1]]),
                          (["enum", 0], b), (["cls", 1], ["d", [["path", "/x"], ["mode", b]]]), (["union", [lit, ["none"]], {"sp": "optional"}], b)):
                ops.append({"op": "um", "ty": ts, "val": v, "obs": ["conforms"]})
    return {"prog": prog, "ops": ops}


# ---- fixed tuples with an OPEN member (Any, object, a free TypeVar, a Callable, type[X]): the arity is still part of the type
OPEN_TUPLES = ["tuple[int, typing.Any]", "tuple[str, int, object]", "tuple[int, T]", "tuple[int, typing.Callable[[int], str]]",
               "tuple[int, type[int]]", "tuple[typing.Any, int]", "typing.Tuple[int, typing.Any]", "list[tuple[int, typing.Any]]",
               "dict[str, tuple[str, object]]", "typing.Optional[tuple[int, typing.Any]]", "tuple[int, str]",
               # str-keyed mappings: a Python-literal text may carry keys of any class, the result may not
               "dict[str, int]", "typing.Mapping[str, int]", "typing.MutableMapping[str, typing.List[int]]", "list[dict[str, int]]",
               "typing.Union[int, typing.Dict[str, int]]", "dict[str, dict[str, int]]",
               # binary targets: a binary object of ANOTHER binary class is an input like any other, the result is of the target class
               "bytes", "bytearray", "list[bytes]", "dict[str, bytes]", "typing.Union[int, bytes]", "tuple[int, bytes]"]
OPEN_INPUTS = ["['1', '2', '3']", "['1']", "'[1, 2, 3, 4]'", "[]", "{'a': 1, 'b': 2}", "['1', '2']", "(1,)", "[['1', '2'], ['3'], ['4', '5', '6']]",
               "{'k': ['a']}", "{'k': ['a', 'b', 'c']}", "None", "'ab'",
               "'{1: 2}'", "b\"{1: 2, 3: '4'}\"", "'{None: 1, True: 2}'", "'{(1, 2): 3}'", "\"{b'a': 1}\"", "'{1.5: [1, 2]}'", "['{1: 2}', {'a': 1}]",
               "{'k': '{1: 2}'}", "bytearray(b'{7: 8}')", "{1: 2}",
               "bytearray(b'abc')", "memoryview(b'abc')", "b'abc'", "[bytearray(b'a'), b'b']", "{'k': memoryview(b'q')}", "(1, bytearray(b'z'))"]


def _open_child(ann):
    import warnings
    warnings.simplefilter("ignore")
    import typing
    import collections.abc
    import typelib
    ns = {"typing": typing, "T": typing.TypeVar("T")}
    t = eval(ann, ns)

    def conf(a, x):
        if a is typing.Any or a is object or isinstance(a, typing.TypeVar):
            return True
        og, ar = typing.get_origin(a), typing.get_args(a)
        if og is collections.abc.Callable or og is type:
            return True
        if og is typing.Union:
            return any(conf(m, x) for m in ar)
        if a is type(None):
            return x is None
        if og is tuple:
            return type(x) is tuple and len(x) == len(ar) and all(conf(m, e) for m, e in zip(ar, x))
        if og is list:
            return type(x) is list and all(conf(ar[0], e) for e in x)
        if og in (dict, collections.abc.Mapping, collections.abc.MutableMapping):
            return type(x) is dict and all(conf(ar[0], k) and conf(ar[1], v) for k, v in x.items())
        return type(x) is a
    out = []
    for src in OPEN_INPUTS:
        x = eval(src)
        try:
            r = typelib.unmarshal(t, x)
        except Exception:  # noqa: BLE001
            out.append([src, "raised", True])
            continue
        out.append([src, repr(r)[:120], bool(conf(t, r))])
    return out


def open_tuple_probe(res):
    from .. import iso
    outs = iso.map_isolated(_open_child, OPEN_TUPLES, timeout=60.0)
    for ann, o in zip(OPEN_TUPLES, outs):
        if not isinstance(o, list):
            raise RuntimeError(f"harness: open-tuple probe failed: {ann}: {o}")
        for src, got, ok in o:
            res.case({"ann": ann, "val": src, "family": "open-tuple"}, True)
            if ok:
                res.count("oracle:open-tuple:" + ("rejected" if got == "raised" else "conforms"))
            else:
                res.failures.append({"what": f"unmarshal({ann}, {src}) returned {got}: not a value of the target type (arity / member classes)",
                                     "input": {"open_tuple": [ann, src]}})


# ---- structured classes with PRIVATE (underscore) members: outside the round-trip universe (a private field is never on the
# wire), but unmarshal from a mapping or a text that carries the key is an ordinary call, and the result conforms member by member
PRIV_SRC = r"""
import dataclasses, decimal, uuid, datetime, typing, enum
class Doc(typing.TypedDict):
    _id: uuid.UUID
    title: str
class DocPart(typing.TypedDict, total=False):
    _rev: int
    _tags: typing.List[int]
@dataclasses.dataclass
class Account:
    owner: str
    _balance: decimal.Decimal = decimal.Decimal(0)
@dataclasses.dataclass
class Ledger:
    accounts: typing.List[Account]
    _opened: datetime.date = datetime.date(2020, 1, 1)
@dataclasses.dataclass
class Wrapped:
    _inner: typing.Optional[Account] = None
    _pairs: typing.Dict[str, int] = dataclasses.field(default_factory=dict)
    _pt: typing.Tuple[int, str] = (0, '')
class Plain:
    _n: int
    label: str
    def __init__(self, _n: int = 0, label: str = ''):
        self._n, self.label = _n, label
# structured classes with extra protocol methods: still structured (record-like ** unpacking, by-name subscription, callable, sized)
@dataclasses.dataclass
class Options:
    retries: int = 0
    verbose: bool = False
    def keys(self):
        return ["retries", "verbose"]
    def __getitem__(self, k):
        return getattr(self, k)
@dataclasses.dataclass
class Sized:
    n: int = 0
    when: datetime.date = datetime.date(2020, 1, 1)
    def __len__(self):
        return self.n
    def __contains__(self, x):
        return False
    def __call__(self):
        return self.n
class UserId(typing.NamedTuple):
    value: int
class AdminId(UserId):
    # a subclass of a typed named tuple that adds methods only: still a named tuple, field by field
    def is_root(self):
        return self.value == 0
class Pt(typing.NamedTuple):
    x: int
    y: int = 0
class LabeledPt(Pt):
    pass
@dataclasses.dataclass
class Grant:
    admin: AdminId
    at: typing.Optional[LabeledPt] = None
class Scale:
    # typed through its constructor only, and callable
    def __init__(self, factor: decimal.Decimal, offset: int = 0, since: datetime.date = datetime.date(2020, 1, 1)):
        self.factor, self.offset, self.since = factor, offset, since
    def __call__(self, x):
        return x * self.factor + self.offset
    def __repr__(self):
        return f"Scale({self.factor!r}, {self.offset!r}, {self.since!r})"
# TypeVars whose bound is a valid annotation that is not a plain class
NumT = typing.TypeVar("NumT", bound=typing.Union[int, float])
OptT = typing.TypeVar("OptT", bound=typing.Optional[decimal.Decimal])
IntsT = typing.TypeVar("IntsT", bound=typing.List[int])
Uid = typing.NewType("Uid", int)
UidT = typing.TypeVar("UidT", bound=Uid)
DayT = typing.TypeVar("DayT", bound=datetime.date)
@dataclasses.dataclass
class Reading(typing.Generic[NumT, IntsT, UidT]):
    value: NumT
    samples: IntsT
    owner: UidT
    count: int = 0
PT = typing.TypeVar("PT")
class Page(typing.Generic[PT]):
    # a user generic typed through its constructor only
    def __init__(self, ids: typing.List[int], total: int, label: str, cursor: typing.Optional[str] = None):
        self.ids, self.total, self.label, self.cursor = ids, total, label, cursor
    def __repr__(self):
        return f"Page({self.ids!r}, {self.total!r}, {self.label!r}, {self.cursor!r})"
class KwWin:
    # keyword-only parameters are members like the others
    def __init__(self, ident: int, *, start: datetime.date = datetime.date(1, 1, 1), weight: decimal.Decimal = decimal.Decimal(1)):
        self.ident, self.start, self.weight = ident, start, weight
    def __repr__(self):
        return f"KwWin({self.ident!r}, {self.start!r}, {self.weight!r})"
@dataclasses.dataclass
class ScaleHolder:
    label: str
    items: typing.Dict[str, Scale] = dataclasses.field(default_factory=dict)
@dataclasses.dataclass
class Job:
    name: str
    options: Options = dataclasses.field(default_factory=Options)
    sized: typing.Optional[Sized] = None
"""
PRIV_TARGETS = ["Doc", "DocPart", "Account", "Ledger", "Wrapped", "Plain", "typing.List[Doc]", "typing.Dict[str, Account]",
                "typing.Optional[Wrapped]", "typing.Tuple[Account, Doc]", "Options", "Sized", "Job", "typing.List[Options]", "typing.Dict[str, Sized]",
                "Scale", "ScaleHolder", "typing.List[Scale]", "AdminId", "LabeledPt", "Grant", "typing.List[AdminId]",
                "Page", "typing.List[Page]", "typing.Dict[str, Page]", "KwWin", "typing.List[KwWin]", "typing.Optional[KwWin]",
                "typing.List[NumT]", "typing.Dict[str, IntsT]", "typing.Tuple[UidT, OptT]", "typing.Optional[typing.List[UidT]]", "Reading",
                "typing.List[Reading]", "typing.List[DayT]"]
PRIV_INPUTS = ["{'_id': '7c5b9e1e-3f65-4b0a-9a57-0f6c0b1d2a11', 'title': 'a'}", "{'_id': ['not', 'a'], 'title': 'a'}",
               "'{\"_id\": \"7c5b9e1e-3f65-4b0a-9a57-0f6c0b1d2a11\", \"title\": \"a\"}'", "{'_rev': '3', '_tags': ['1', '2']}", "{'_rev': None}",
               "{'owner': 'ann', '_balance': '12.50'}", "{'owner': 'ann', '_balance': {'oops': None}}", "{'owner': 'ann'}",
               "b'{\"owner\": \"ann\", \"_balance\": \"1.5\"}'",
               "{'accounts': [{'owner': 'a', '_balance': '1.5'}, {'owner': 'b'}], '_opened': '2021-02-03'}",
               "{'accounts': [], '_opened': 'junk'}", "{'_inner': {'owner': 'x', '_balance': '2'}, '_pairs': {'a': '1'}, '_pt': ['1', 2]}",
               "{'_pt': ['1', 2, 3]}", "{'_pairs': [1, 2]}", "{'_n': '5', 'label': 7}", "{'_n': 'x'}",
               "[{'_id': '7c5b9e1e-3f65-4b0a-9a57-0f6c0b1d2a11', 'title': 't'}]", "{'k': {'owner': 'o', '_balance': '0.1'}}", "None",
               "[{'owner': 'o', '_balance': '3'}, {'_id': '7c5b9e1e-3f65-4b0a-9a57-0f6c0b1d2a11', 'title': 1}]",
               "{'retries': '3', 'verbose': 1}", "'{\"retries\": \"3\", \"verbose\": 0}'", "[('retries', '4')]", "{'retries': [1, 2, 3]}", "{'n': '2', 'when': '2021-02-03'}",
               "{'name': 'nightly', 'options': {'retries': '9'}, 'sized': {'n': '1'}}", "[{'retries': '1'}, {'verbose': 'x'}]", "{'a': {'n': '5', 'when': 'junk'}}",
               "{'k': {'n': '5'}}", "{'factor': '2.50', 'offset': '3', 'since': '2024-02-29'}", "[{'factor': '1', 'offset': 'x'}]",
               "{'label': 7, 'items': {'k': {'factor': '2.50', 'offset': '3', 'since': '2024-02-29'}}}", "[{'factor': '1.5'}]",
               "{'value': '7'}", "'{\"value\": \"7\"}'", "['7']", "{'value': [1, 2]}", "{'x': '1', 'y': '2'}", "['1', '2']",
               "{'admin': {'value': '7'}, 'at': {'x': '1'}}", "[{'value': '1'}, {'value': '2'}]", "{'admin': ['3']}",
               "{'ids': ['1', '2'], 'total': '3', 'label': 7}", "{'ids': 'not a list of numbers', 'total': [], 'label': None}",
               "[{'ids': ['1'], 'total': '3', 'label': 7, 'cursor': 5}]", "{'k': {'ids': ['1', '2'], 'total': '3', 'label': 7}}",
               "{'ident': '7', 'start': '2020-02-29', 'weight': '2.50'}", "[{'ident': '7', 'weight': 3}]", "{'ident': '1', 'start': 'junk'}",
               "['1', '2.5']", "b'[\"1\", \"2\"]'", "{'a': ('1', '2')}", "['1', '2.25']", "\"['1', '2']\"", "['2020-01-02']",
               "{'value': '1', 'samples': ['1', '2'], 'owner': '7', 'count': '3'}", "[{'value': '1.5', 'samples': [], 'owner': 7}]"]


def _priv_child(ann):
    import warnings
    warnings.simplefilter("ignore")
    import sys
    import types
    import typing
    import dataclasses
    import typelib
    mod = types.ModuleType("vm_c03_priv")
    sys.modules["vm_c03_priv"] = mod
    exec(PRIV_SRC, mod.__dict__)
    ns = dict(vars(mod))
    t = eval(ann, ns)

    def conf(a, x):
        og, ar = typing.get_origin(a), typing.get_args(a)
        if og is typing.Union:
            return any(conf(m, x) for m in ar)
        if a is type(None):
            return x is None
        if isinstance(a, typing.TypeVar):
            return conf(a.__bound__, x)
        if hasattr(a, "__supertype__"):
            return conf(a.__supertype__, x)
        if og is tuple:
            return type(x) is tuple and len(x) == len(ar) and all(conf(m, e) for m, e in zip(ar, x))
        if og is list:
            return type(x) is list and all(conf(ar[0], e) for e in x)
        if og is dict:
            return type(x) is dict and all(conf(ar[0], k) and conf(ar[1], v) for k, v in x.items())
        if typing.is_typeddict(a):
            hints = typing.get_type_hints(a)
            return (type(x) is dict and set(x) <= set(hints) and a.__required_keys__ <= set(x)
                    and all(conf(hints[k], v) for k, v in x.items()))
        if dataclasses.is_dataclass(a):
            hints = typing.get_type_hints(a)
            return type(x) is a and all(conf(h, getattr(x, n)) for n, h in hints.items())
        if a is mod.Plain:
            return type(x) is a and type(x._n) is int and type(x.label) is str
        if isinstance(a, type) and issubclass(a, tuple) and hasattr(a, "_fields"):
            hints = typing.get_type_hints(a)
            return type(x) is a and all(conf(hints[n], getattr(x, n)) for n in a._fields)
        if a in (mod.Scale, mod.Page, mod.KwWin):
            return type(x) is a and all(conf(h, getattr(x, n)) for n, h in typing.get_type_hints(a.__init__).items() if n != "return")
        return type(x) is a
    out = []
    for src in PRIV_INPUTS:
        x = eval(src)
        try:
            r = typelib.unmarshal(t, x)
        except Exception:  # noqa: BLE001
            out.append([src, "raised", True])
            continue
        out.append([src, repr(r)[:160], bool(conf(t, r))])
    return out


def private_member_probe(res):
    from .. import iso
    outs = iso.map_isolated(_priv_child, PRIV_TARGETS, timeout=60.0)
    for ann, o in zip(PRIV_TARGETS, outs):
        if not isinstance(o, list):
            raise RuntimeError(f"harness: private-member probe failed: {ann}: {o}")
        for src, got, ok in o:
            res.case({"ann": ann, "val": src, "family": "private-member"}, True)
            if ok:
                res.count("oracle:private-member:" + ("rejected" if got == "raised" else "conforms"))
            else:
                res.failures.append({"what": f"unmarshal({ann}, {src}) returned {got}: a member is not a value of its annotated type",
                                     "input": {"private_member": [ann, src]}})


# ---- recursive aliases / a NewType that closes a cycle: the result conforms at EVERY depth (keys, arity, member classes), or the call raises
RECA_SRC = """
from __future__ import annotations
import dataclasses, typing
type Rec = dict[str, Rec | int]
type Chain = tuple[int, Chain | None]
type Rows = list[Rows] | int
@dataclasses.dataclass
class Node:
    v: int
    kids: Kids
Kids = typing.NewType("Kids", typing.List[Node])
@dataclasses.dataclass
class Holder:
    rec: Rec
    chain: typing.Optional[Chain] = None
"""
RECA_TARGETS = ["Rec", "Chain", "Rows", "Kids", "Node", "Holder", "list[Rec]", "typing.Optional[Chain]", "dict[str, Chain]", "tuple[Rec, Rows]"]
RECA_INPUTS = ["{'a': {'b': {'c': '1'}}, 'd': '2'}", "'{\"a\": {\"b\": {\"c\": \"1\"}}, \"d\": \"2\"}'", "{'a': {'b': {3: 1}}}", "{'a': {'b': {'c': 'x'}}}",
               "{'a': {'b': {'c': [1]}}}", "['1', ['2', ['3', None]]]", "[1, [2, [3]]]", "[1, [2, [3, None, 4]]]", "('1', ('2', ('3', ('4', None))))",
               "[['1', ['2', [['3']]]], '4']", "[[[['x']]]]", "'7'", "[{'v': '1', 'kids': [{'v': '2', 'kids': [{'v': '3', 'kids': []}]}]}]",
               "[{'v': '1', 'kids': [{'v': '2', 'kids': [{'v': 'x', 'kids': []}]}]}]", "{'v': '1', 'kids': [{'v': '2', 'kids': [{'v': '3', 'kids': ['junk']}]}]}",
               "{'v': '1', 'kids': [{'v': '2', 'kids': [{'v': '3', 'kids': []}]}]}",
               "{'rec': {'a': {'b': {'c': '1'}}}, 'chain': ['1', ['2', None]]}", "{'rec': {'a': {'b': {'c': None}}}}", "[{'a': {'b': '1'}}]",
               "{'k': ['1', ['2', ['3', None]]]}", "[{'a': {'b': {'c': '5'}}}, [['6']]]", "None", "{}", "[]"]


def _reca_child(ann):
    import warnings
    warnings.simplefilter("ignore")
    import sys
    import types
    import typing
    import typelib
    mod = types.ModuleType("vm_c03_reca")
    sys.modules["vm_c03_reca"] = mod
    exec(compile(RECA_SRC, "vm_c03_reca.py", "exec", dont_inherit=True), mod.__dict__)
    ns = dict(vars(mod))
    t = eval(ann, ns)
    Node, Holder = mod.Node, mod.Holder

    def rec(x):
        return type(x) is dict and all(type(k) is str and (type(v) is int or rec(v)) for k, v in x.items())

    def chain(x):
        return type(x) is tuple and len(x) == 2 and type(x[0]) is int and (x[1] is None or chain(x[1]))

    def rows(x):
        return type(x) is int or (type(x) is list and all(rows(e) for e in x))

    def node(x):
        return type(x) is Node and type(x.v) is int and kids(x.kids)

    def kids(x):
        return type(x) is list and all(node(e) for e in x)

    def holder(x):
        return type(x) is Holder and rec(x.rec) and (x.chain is None or chain(x.chain))
    conf = {"Rec": rec, "Chain": chain, "Rows": rows, "Kids": kids, "Node": node, "Holder": holder,
            "list[Rec]": lambda x: type(x) is list and all(rec(e) for e in x), "typing.Optional[Chain]": lambda x: x is None or chain(x),
            "dict[str, Chain]": lambda x: type(x) is dict and all(type(k) is str and chain(v) for k, v in x.items()),
            "tuple[Rec, Rows]": lambda x: type(x) is tuple and len(x) == 2 and rec(x[0]) and rows(x[1])}[ann]
    out = []
    for src in RECA_INPUTS:
        x = eval(src)
        try:
            r = typelib.unmarshal(t, x)
        except RecursionError:
            raise
        except Exception:  # noqa: BLE001
            out.append([src, "raised", True])
            continue
        out.append([src, repr(r)[:160], bool(conf(r))])
    return out


def recursive_alias_probe(res):
    from .. import iso
    outs = iso.map_isolated(_reca_child, RECA_TARGETS, timeout=60.0)
    for ann, o in zip(RECA_TARGETS, outs):
        if not isinstance(o, list):
            raise RuntimeError(f"harness: recursive-alias probe failed: {ann}: {o}")
        if not any(got != "raised" for _, got, _ in o):
            raise RuntimeError(f"harness: recursive-alias probe is vacuous for {ann}")
        for src, got, ok in o:
            res.case({"ann": ann, "val": src, "family": "recursive-alias"}, True)
            if ok:
                res.count("oracle:recursive-alias:" + ("rejected" if got == "raised" else "conforms"))
            else:
                res.failures.append({"what": f"unmarshal({ann}, {src}) returned {got}: not a value of the recursive type at some depth",
                                     "input": {"recursive_alias": [ann, src]}})


# ---- known finding iterableDataclass: a dataclass that also defines __iter__ is dispatched as a generic iterable (cast), its fields
# are not converted.  Kept as a finding (see known_findings.json); a DIFFERENT non-conforming result of these calls is still reported.
def _iterdc_child(_job):
    import warnings
    warnings.simplefilter("ignore")
    import dataclasses
    import typing
    import typelib

    @dataclasses.dataclass
    class Bag:
        count: int = 0
        tags: typing.List[int] = dataclasses.field(default_factory=list)

        def __iter__(self):
            return iter(self.tags)
    out = []
    for x in ({"count": "3"}, {"count": "3", "tags": ["1"]}, Bag("5", ["2"])):
        try:
            r = typelib.unmarshal(Bag, x)
        except Exception:  # noqa: BLE001
            out.append([repr(x), "raised", True])
            continue
        ok = type(r) is Bag and type(r.count) is int and type(r.tags) is list and all(type(e) is int for e in r.tags)
        out.append([repr(x), repr(r), ok])
    return out


def iterable_dataclass_probe(res):
    from .. import iso
    o = iso.map_isolated(_iterdc_child, [None], timeout=60.0)[0]
    if not isinstance(o, list):
        raise RuntimeError(f"harness: iterable-dataclass probe failed: {o}")
    for src, got, ok in o:
        res.case({"ann": "Bag (a dataclass defining __iter__)", "val": src, "family": "iterable-dataclass"}, True)
        if ok:
            res.count("oracle:iterable-dataclass:" + ("rejected" if got == "raised" else "conforms"))
        else:
            res.failures.append({"what": f"unmarshal(Bag, {src}) returned {got}: the fields of a dataclass that defines __iter__ are not converted",
                                 "input": {"iterable_dataclass": src}, "finding": "iterableDataclass"})


def explore(ctx):
    res = Result()
    res.rule = RULE
    depth = 3 if ctx.tier == "quick" else 4
    n = ctx.n(150, 2500)
    jobs = core.gen_jobs(ctx, n, "c03", dict(max_depth=depth, unions="any"), make_ops(depth))
    jobs.append(member_text_job())
    real, model = core.run_jobs(jobs)
    # second pass: corrupt the real wire forms of the valid values and unmarshal those
    from .. import universe
    jobs2 = []
    for job, ro in zip(jobs, real):
        if isinstance(ro, dict) and "crash" in ro:
            raise RuntimeError(f"harness: {ro}")
        g = universe.Gen(ctx.rng)
        g.prog = job["prog"]
        ops2 = []
        for op, r_ in zip(job["ops"], ro):
            if op["op"] == "rt" and "ok" in r_.get("mar", {}):
                wire = r_["mar"]["ok"]
                for _ in range(2):
                    try:
                        bad = g.corrupt(wire)
                    except Exception:  # noqa: BLE001
                        continue
                    ops2.append({"op": "um", "ty": op["ty"], "val": bad, "obs": ["conforms"]})
                # corrupted VALUES: an instance / tuple of the right class whose field or element is retyped
                if isinstance(op["val"], list) and op["val"] and op["val"][0] in ("o", "t", "l", "d"):
                    for _ in range(2):
                        try:
                            badv = g.corrupt(op["val"])
                        except Exception:  # noqa: BLE001
                            continue
                        ops2.append({"op": "um", "ty": op["ty"], "val": badv, "obs": ["conforms"]})
                if universe.is_plain_wire(wire) and ctx.rng.random() < 0.5:
                    ops2.append({"op": "um", "ty": op["ty"], "val": universe.render_json(wire), "obs": ["conforms"]})
        jobs2.append({"prog": job["prog"], "ops": ops2})
    real2, model2 = core.run_jobs(jobs2)
    res.programs = len(jobs)
    for js, rs, ms in ((jobs, real, model), (jobs2, real2, model2)):
        for job, op, r_, m_ in core.iter_results(js, rs, ms):
            if op["op"] != "um":
                continue
            case = {"ann": enc.pyexpr(op["ty"], job["prog"]), "input": op["val"]}
            res.case(case, op["ty"][0] not in enc.SCALAR_EXPR)
            inp = {"prog": job["prog"], "ty": op["ty"], "val": op["val"], **case}
            core.compare(res, "um", inp, r_, m_)
            if "ok" in r_:
                if r_.get("conforms") is False:
                    res.failures.append({"what": "unmarshal returned a non-conforming value: " + "; ".join(r_.get("why", [])),
                                         "input": inp, "real": {"ok": r_["ok"]}})
                elif r_.get("conforms") is None:
                    res.count("oracle:checker-unsupported")
                else:
                    res.count("oracle:conforms")
            else:
                res.count("oracle:raised:" + r_["err"])
    text_descent_probe(res)
    open_tuple_probe(res)
    private_member_probe(res)
    recursive_alias_probe(res)
    iterable_dataclass_probe(res)
    classdispatch_correspondence(res)   # which routine a class gets, how its instances are read: real code <-> Model/ClassDispatch.lean
    return res


def witness(fid):
    if fid == "textDescentBlowup":
        from .. import iso
        core.import_typelib()
        o = iso.map_isolated(_descent_child, [("SA", "-")], timeout=8.0)[0]
        return isinstance(o, dict) and "crash" in o
    if fid == "iterableDataclass":
        from .. import iso
        core.import_typelib()
        o = iso.map_isolated(_iterdc_child, [None], timeout=60.0)[0]
        return isinstance(o, list) and any(not ok for _, _, ok in o)
    return _witness_rest(fid)


def _witness_rest(fid):
    return None


def replay(failure):
    inp = failure["input"]
    if "open_tuple" in inp:
        from .. import iso
        o = iso.map_isolated(_open_child, [inp["open_tuple"][0]], timeout=60.0)[0]
        bad = [x for x in o if not x[2]] if isinstance(o, list) else o
        print(json.dumps({"annotation": inp["open_tuple"][0], "non-conforming results": bad}, indent=1))
        return bool(bad)
    if "recursive_alias" in inp:
        from .. import iso
        o = iso.map_isolated(_reca_child, [inp["recursive_alias"][0]], timeout=60.0)[0]
        bad = [x for x in o if not x[2]] if isinstance(o, list) else o
        print(json.dumps({"annotation": inp["recursive_alias"][0], "non-conforming results": bad}, indent=1))
        return bool(bad)
    if "private_member" in inp:
        from .. import iso
        o = iso.map_isolated(_priv_child, [inp["private_member"][0]], timeout=60.0)[0]
        bad = [x for x in o if not x[2]] if isinstance(o, list) else o
        print(json.dumps({"annotation": inp["private_member"][0], "non-conforming results": bad}, indent=1))
        return bool(bad)
    job = {"prog": inp["prog"], "ops": [{"op": "um", "ty": inp["ty"], "val": inp["val"], "obs": ["conforms"]}]}
    real, model = core.run_jobs([job])
    print(json.dumps({"annotation": inp["ann"], "input": inp["val"], "real": real[0][0], "model": model[0][0]}, indent=1)[:3000])
    return "ok" in real[0][0] and real[0][0].get("conforms") is False
