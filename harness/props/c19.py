"""C19 — Slotted dataclasses behave like the original dataclass."""
from __future__ import annotations

import json

from .. import core, iso, lean
from ..runner import Result

ID = "C19"
LEVEL = "proof"
LEVEL_TEXT = ("Kernel-checked theorems about the BOOKKEEPING of classes.slotted, for every class description and every "
              "history of decorations (no bound): C19.slots_formula / mem_slotsOf / slots_nodup (the __slots__ tuple is "
              "the non-inherited field names in field order, then __dict__ / __weakref__ iff requested and not inherited, "
              "no duplicates), own_slots_ignored, no_field_default_in_dict / special_not_in_dict / slotnames_not_in_dict / other_attrs_kept / "
              "setstate_fix_iff (the rewritten class dict), creation_rule_satisfied (the computed slots never violate the "
              "modelled rule of type.__new__), guard_empty_at_rest / guard_never_grows / history_independent / "
              "never_spurious_raise / plain_dataclass_created (the module-global re-entrancy guard is empty after every "
              "completed decoration, so no decoration of a plain-metaclass class ever gets the metaclass error, in any "
              "order, repeated reprs and failed decorations included), reentrant_caught, names_preserved. PARTIAL: the "
              "object-model half of the property — that instances of slotted(C) are constructed, compared, hashed, "
              "printed, copied and pickled exactly like instances of C, what a slot is, what dataclasses generates — is "
              "NOT proved; it is observed on real instances by the direct oracle of this check. Negations proved at "
              "witnesses: finally_needed (the decoration without its finally clause), creation_fails_on_varsize_base, "
              "field_named_setstate_conflicts.")
LEVEL_NOTE = ("Trusted: Lean kernel; axioms propext, Classical.choice, Quot.sound; the hand-written model Model/Slotted.lean "
              "(tied to /repo by the per-run correspondence on __slots__, class dict keys, names, error kind and guard "
              "state, not verified); the modelled fragment of CPython's type.__new__ slot rule; the harness that "
              "synthesises the classes and describes them to the model. CPython's object model, copy and pickle are "
              "outside the model (oracle only).")
TECHNIQUE = ("Lean 4 proofs over an executable model of the slot / class-dict bookkeeping and of the guard as a state machine "
             "(induction over the decoration history); differential correspondence on synthesised real dataclasses in forked "
             "children; direct behavioural oracle slotted(C) vs C on real instances")
DESIGN_REF = "DESIGN.md §5 C19"
MODULES = ["TypelibModel.Props.C19"]
TABLES = False
RULE = ("histories of 1-6 decorations in a fresh module of a forked child: dataclasses with 0-5 fields (int/str/list/tuple, "
        "defaults, default_factory), frozen/eq/order/unsafe_hash, native @dataclass(slots=True[, weakref_slot=True]), single "
        "inheritance from unslotted, native-slotted and slotted()-made bases (result or original of an earlier step), "
        "overridden fields, user __getstate__/__setstate__ (both / set only / get only), nested qualnames, all (dict, weakref) "
        "flags, names drawn from {A, B} so reprs repeat, failing decorations in the middle (non-dataclass, raising "
        "__init_subclass__, tuple base, calling-back metaclass), re-decoration slotted(slotted(C)); a fixed grid (flags x base "
        "kind) and fixed failure scenarios are always included; a case = one decoration, non-trivial when the class has fields "
        "or a base; distinct = distinct (step spec, preceding kinds)")
ASSUMPTIONS = [
    "CPython's type.__new__ slot rule is modelled for: variable-sized best base, __dict__/__weakref__ slot already provided "
    "by the best base or listed twice, slot name still a key of the namespace; identifier check / name mangling / layout "
    "conflicts / __init_subclass__ / __set_name__ are outside (parameter creationOk)",
    "the behavioural equivalence of slotted(C) and C (construction, ==, hash, repr, copy, deepcopy, pickle 2..5, frozen-ness, "
    "weakref, instance __dict__) is observed on the synthesised classes, not proved",
    "classes whose methods use zero-argument super() / __class__, bases whose __slots__ is a single string, and user "
    "__getstate__ returning a plain dict without a matching __setstate__ are outside the quantifier (they break under any "
    "re-created slotted class, @dataclass(slots=True) of CPython 3.12 included)",
]
TRUSTED = ["harness/props/c19.py (class synthesis, description of real classes for the model, oracle)",
           "lean/TypelibModel/Drv/Slotted.lean (driver glue)",
           "hand-written model Model/Slotted.lean tied to the code by this correspondence"]

FID = "slottedInheritedState"      # repaired by 900dc83; kept as a replayable witness
INLINE = ("dc", "dc_slots", "dc_slots_wr")
POOL = ["a", "b", "c", "d", "e", "x", "y", "z"]
TYPES = ["int", "str", "list", "tuple"]

PREAMBLE = '''
import dataclasses, typing
def _FN(self):
    return [f.name for f in dataclasses.fields(self)]
class Outer:
    pass
class ReMeta(type):
    """a metaclass that decorates what it builds: re-entrant for slotted()"""
    def __new__(mcs, name, bases, ns, **kw):
        cls = super().__new__(mcs, name, bases, ns, **kw)
        if "__dataclass_fields__" in ns:
            return classes.slotted(cls)
        return cls
'''

STATE_SRC = {
    "none": "",
    "both": '''
    def __getstate__(self):
        return {"v": [getattr(self, n) for n in _FN(self)]}
    def __setstate__(self, st):
        for n, v in zip(_FN(self), st["v"]):
            object.__setattr__(self, n, v)
''',
    "set_only": '''
    def __setstate__(self, st):
        d = {}
        if isinstance(st, tuple):
            for part in st:
                d.update(part or {})
        else:
            d.update(st or {})
        for k, v in d.items():
            object.__setattr__(self, k, v)
''',
    "get_only": '''
    def __getstate__(self):
        return (None, {n: getattr(self, n) for n in _FN(self)})
''',
}


# ------------------------------------------------------------------------------------------------
# generation (parent; everything JSON-able)

def gen_value(rng, ty):
    if ty == "int":
        return rng.choice([0, 1, -3, 7, 2 ** 40])
    if ty == "str":
        return rng.choice(["", "a", "xyz", "é", "a b"])
    return [rng.randint(0, 5) for _ in range(rng.randint(0, 3))]


def gen_fields(rng, n, taken, need_default):
    out = []
    names = [p for p in POOL if p not in taken]
    rng.shuffle(names)
    for name in names[:n]:
        ty = rng.choice(TYPES)
        if not need_default and rng.random() < 0.4:
            need_default = True
        default = None
        if need_default:
            if ty == "list":
                default = {"factory": rng.choice([[], [1, 2]])}
            else:
                default = {"v": gen_value(rng, ty)}
        out.append({"name": name, "ty": ty, "default": default})
    return out


def gen_params(rng, frozen=None):
    frozen = (rng.random() < 0.45) if frozen is None else frozen
    eq = rng.random() < 0.85
    return {"frozen": frozen, "eq": eq, "order": eq and rng.random() < 0.3, "unsafe_hash": rng.random() < 0.2}


def all_fields(spec, steps):
    if spec["kind"] == "redecorate":
        return all_fields(steps[spec["of"]], steps)
    if spec["kind"] != "dc":
        return []
    b = spec.get("base")
    out = []
    if b and b["kind"] == "step":
        out = list(all_fields(steps[b["index"]], steps))
    elif b and b["kind"] in INLINE:
        out = list(b["fields"])
    for f in spec["fields"]:
        for k, g in enumerate(out):
            if g["name"] == f["name"]:
                out[k] = f
                break
        else:
            out.append(f)
    return out


def is_frozen(spec, steps):
    if spec["kind"] == "redecorate":
        return is_frozen(steps[spec["of"]], steps)
    return spec["kind"] == "dc" and spec["params"]["frozen"]


def risky_state(spec, steps, self_too=False):
    """Does an ancestor (or the class itself) define a __getstate__ that the frozen pickle fix cannot read
    (user pair, or the pair CPython adds to frozen @dataclass(slots=True))?"""
    if spec["kind"] == "redecorate":
        return risky_state(steps[spec["of"]], steps, True)
    if spec["kind"] != "dc":
        return False
    if self_too and (spec["state"] == "both" or (spec.get("native") and spec["params"]["frozen"])):
        return True
    b = spec.get("base")
    if not b:
        return False
    if b["kind"] == "step":
        return risky_state(steps[b["index"]], steps, True)
    if b["kind"] in INLINE:
        return b["state"] == "both" or (b["kind"] != "dc" and spec["params"]["frozen"])
    return False


def ancestor_user_state(spec, steps, self_too=False):
    """Does an ancestor define state methods by hand?"""
    if spec["kind"] == "redecorate":
        return ancestor_user_state(steps[spec["of"]], steps, True)
    if spec["kind"] != "dc":
        return False
    if self_too and spec["state"] != "none":
        return True
    b = spec.get("base")
    if b and b["kind"] == "step":
        return ancestor_user_state(steps[b["index"]], steps, True)
    return bool(b) and b["kind"] in INLINE and b["state"] != "none"


def gen_argsets(rng, fields):
    req = 0
    for f in fields:
        if f["default"] is None:
            req += 1
    sets = [[gen_value(rng, f["ty"]) for f in fields[:req]]]
    full = [gen_value(rng, f["ty"]) for f in fields]
    sets.append(full)
    sets.append([gen_value(rng, f["ty"]) for f in fields])
    k = rng.randint(req, len(fields))
    sets.append(full[:k])
    return sets


def gen_dc(rng, steps, name=None, base=None, frozen=None, flags=None, state=None, native=None, nfields=None):
    """A dataclass step.  `base` is None, an inline kind, ("step", j, which), "sab" or "tuple"."""
    spec = {"kind": "dc", "name": name or rng.choice(["A", "B"]), "nested": False, "meta": False, "native": None}
    taken, need_default, bspec = [], False, None
    if isinstance(base, tuple):
        j = base[1]
        bspec = {"kind": "step", "index": j, "which": base[2]}
        frozen = is_frozen(steps[j], steps)
        bf = all_fields(steps[j], steps)
        taken = [f["name"] for f in bf]
        need_default = any(f["default"] is not None for f in bf)
    elif base in INLINE:
        frozen = (rng.random() < 0.45) if frozen is None else frozen
        bfields = gen_fields(rng, rng.randint(0, 2), [], False)
        bstate = rng.choice(["none", "none", "none", "both", "set_only"])
        bspec = {"kind": base, "fields": bfields, "state": bstate, "params": gen_params(rng, frozen)}
        bspec["params"]["order"] = False
        taken = [f["name"] for f in bfields]
        need_default = any(f["default"] is not None for f in bfields)
    elif base in ("sab", "tuple"):
        bspec = {"kind": base}
        need_default = base == "tuple"
    spec["base"] = bspec
    spec["params"] = gen_params(rng, frozen)
    if bspec and bspec["kind"] in INLINE + ("step",) and spec["params"]["order"]:
        spec["params"]["order"] = False       # keep the comparison methods of parent and child apart
    n = rng.randint(0, 5 if not taken else 3) if nfields is None else nfields
    fields = gen_fields(rng, n, taken, need_default)
    if taken and rng.random() < 0.15:
        # override the last inherited field with a new default
        last = (all_fields(steps[bspec["index"]], steps) if bspec["kind"] == "step" else bspec["fields"])[-1]
        ov = {"name": last["name"], "ty": last["ty"],
              "default": {"factory": []} if last["ty"] == "list" else {"v": gen_value(rng, last["ty"])}}
        for f in fields:
            if f["default"] is None:
                f["default"] = {"factory": []} if f["ty"] == "list" else {"v": gen_value(rng, f["ty"])}
        fields = [ov] + fields
    spec["fields"] = fields
    if native is None and bspec is None and rng.random() < 0.15:
        native = rng.choice(["slots", "slots_wr"])
    spec["native"] = native
    if state is None:
        state = rng.choice(["none", "none", "none", "both", "set_only", "get_only"])
    if state == "get_only" and spec["params"]["frozen"]:
        state = "both"
    spec["state"] = "none"
    if state in ("set_only", "get_only") and ancestor_user_state(spec, steps):
        state = "both"          # half a protocol on top of an inherited one is the user's bug, not slotted's
    spec["state"] = state
    spec["risky_state"] = bool(spec["params"]["frozen"] and spec["state"] in ("none", "set_only")
                               and risky_state(spec, steps))   # the shape repaired by 900dc83 (coverage statistic)
    spec["nested"] = bspec is None and rng.random() < 0.12
    d, w = flags if flags is not None else (rng.random() < 0.4, rng.random() < 0.6)
    spec["dict"], spec["weakref"] = d, w
    spec["args"] = gen_argsets(rng, all_fields(spec, steps)) if base != "tuple" else [[]]
    # an instance of the ORIGINAL class is copied before the decoration: copyreg then caches `__slotnames__` in its dict
    spec["precopy"] = rng.random() < 0.3
    return spec


def gen_history(rng, idx):
    steps = []
    n = rng.randint(1, 4)
    while len([s for s in steps if not s.get("setup")]) < n:
        ok_prev = [j for j, s in enumerate(steps) if s["kind"] == "dc" and not s["meta"]
                   and (s["base"] is None or s["base"]["kind"] not in ("sab", "tuple"))]
        r = rng.random()
        if ok_prev and r < 0.14:
            j = rng.choice(ok_prev + [ok_prev[-1]] + [k for k, s in enumerate(steps) if s["kind"] == "redecorate"])
            steps.append({"kind": "redecorate", "of": j, "name": steps[j]["name"],
                          "dict": rng.random() < 0.4, "weakref": rng.random() < 0.6, "args": steps[j]["args"]})
        elif r < 0.24:
            steps.append({"kind": "plain", "name": rng.choice(["A", "B"]), "dict": False, "weakref": True})
        elif r < 0.30:
            steps.append(gen_dc(rng, steps, base="sab"))
        elif r < 0.34:
            steps.append(gen_dc(rng, steps, base="tuple", nfields=rng.randint(0, 2)))
        elif r < 0.40:
            s = gen_dc(rng, steps, native=False)
            s["meta"], s["nested"] = True, False
            steps.append(s)
        else:
            b = rng.random()
            if b < 0.3:
                base = None
            elif b < 0.6:
                base = rng.choice(INLINE)
            elif ok_prev:
                base = ("step", rng.choice(ok_prev), rng.choice(["new", "new", "orig"]))
            else:
                s = gen_dc(rng, steps)
                s["setup"] = True
                steps.append(s)
                base = ("step", len(steps) - 1, "new")
            steps.append(gen_dc(rng, steps, base=base))
    job = {"module": f"c19mod_{idx}", "steps": steps}
    if idx % 2 == 1:
        # every second history goes through ONE decorator object per flag pair (deco = slotted(dict=.., weakref=..); deco(A); deco(B));
        # most of them ask for the same flags at every step.  (Decided by the index: the random stream is what it was.)
        job["reuse_decorator"] = True
        if idx % 8 != 7:
            first = next((s_ for s_ in steps if "dict" in s_), None)
            for s_ in steps:
                if first is not None and "dict" in s_:
                    s_["dict"], s_["weakref"] = first["dict"], first["weakref"]
    return job


def scenario_jobs(rng):
    """Always-included histories: the (dict, weakref) x base-kind grid and the failure scenarios."""
    jobs = []

    def job(steps):
        jobs.append({"module": f"c19scn_{len(jobs)}", "steps": steps})
    for d in (False, True):
        for w in (False, True):
            for base in (None, "dc", "dc_slots", "dc_slots_wr"):
                job([gen_dc(rng, [], name="A", base=base, flags=(d, w))])
            for bw in (False, True):
                for which in ("new", "orig"):
                    st = [gen_dc(rng, [], name="A", flags=(rng.random() < 0.3, bw), native=False)]
                    st[0]["nested"] = False
                    st.append(gen_dc(rng, st, name="B", base=("step", 0, which), flags=(d, w)))
                    job(st)
            st = [gen_dc(rng, [], name="A", flags=(d, w), native=False)]
            st.append({"kind": "redecorate", "of": 0, "name": "A", "dict": d, "weakref": w, "args": st[0]["args"]})
            st.append({"kind": "redecorate", "of": 1, "name": "A", "dict": not d, "weakref": not w, "args": st[0]["args"]})
            job(st)
    # a failing decoration followed by a class of the same repr
    for fail in ("plain", "sab", "tuple", "meta"):
        if fail == "plain":
            first = {"kind": "plain", "name": "A", "dict": False, "weakref": True}
        elif fail == "meta":
            first = gen_dc(rng, [], name="A", native=False)
            first["meta"], first["nested"] = True, False
        else:
            first = gen_dc(rng, [], name="A", base=fail, nfields=1)
            first["nested"] = False
        st = [first]
        nxt = gen_dc(rng, st, name="A", native=False)
        nxt["nested"] = False
        st.append(nxt)
        st.append({"kind": "redecorate", "of": 1, "name": "A", "dict": False, "weakref": True, "args": nxt["args"]})
        job(st)
    return jobs


# ------------------------------------------------------------------------------------------------
# the real side (forked child)

def _pyval(v, ty):
    return tuple(v) if ty == "tuple" else (list(v) if ty == "list" else v)


def _field_src(f):
    ann = {"int": "int", "str": "str", "list": "list", "tuple": "tuple"}[f["ty"]]
    d = f["default"]
    if d is None:
        return f"    {f['name']}: {ann}"
    if "factory" in d:
        return f"    {f['name']}: {ann} = dataclasses.field(default_factory=lambda: {list(d['factory'])!r})"
    return f"    {f['name']}: {ann} = {_pyval(d['v'], f['ty'])!r}"


def class_source(name, params, fields, state, base_expr=None, native=None, meta=False, qualname=None):
    args = [f"{k}={params[k]}" for k in ("frozen", "eq", "order", "unsafe_hash")]
    if native in ("slots", "slots_wr", "dc_slots", "dc_slots_wr"):
        args.append("slots=True")
    if native in ("slots_wr", "dc_slots_wr"):
        args.append("weakref_slot=True")
    heads = ([base_expr] if base_expr else []) + (["metaclass=ReMeta"] if meta else [])
    lines = [f"@dataclasses.dataclass({', '.join(args)})", f"class {name}({', '.join(heads)}):"]
    if qualname:
        lines.append(f"    __qualname__ = {qualname!r}")
    lines.append("    K: typing.ClassVar[int] = 7")
    lines += [_field_src(f) for f in fields]
    lines.append("    def total(self):")
    lines.append("        return (type(self).__name__, self.K, [getattr(self, n) for n in _FN(self)])")
    return "\n".join(lines) + "\n" + STATE_SRC[state]


def materialise(mod, i, spec, origs, news):
    """exec the class of a step in the module; returns (class, binder) or (None, reason)."""
    ns = mod.__dict__
    kind = spec["kind"]
    name = spec["name"]
    if kind == "redecorate":
        if news[spec["of"]] is None:
            return None, "class to re-decorate is missing"
        return news[spec["of"]], None
    if kind == "plain":
        exec(f"class {name}:\n    x = 1\n", ns)
        return ns[name], None
    b = spec["base"]
    base_expr = None
    if b:
        if b["kind"] == "step":
            bc = (news if b["which"] == "new" else origs)[b["index"]]
            if bc is None:
                return None, "base class is missing"
            ns["_base"] = bc
            base_expr = "_base"
        elif b["kind"] in INLINE:
            bname = f"Base{i}"
            exec(class_source(bname, b["params"], b["fields"], b["state"],
                              native=b["kind"] if b["kind"] != "dc" else None), ns)
            base_expr = bname
        elif b["kind"] == "sab":
            exec(f"class Sab{i}:\n    armed = False\n    def __init_subclass__(cls, **kw):\n"
                 f"        super().__init_subclass__(**kw)\n        if Sab{i}.armed:\n"
                 f"            raise RuntimeError('c19-sabotage')\n", ns)
            base_expr = f"Sab{i}"
        elif b["kind"] == "tuple":
            base_expr = "tuple"
    exec(class_source(name, spec["params"], spec["fields"], spec["state"], base_expr=base_expr,
                      native=spec.get("native"), meta=spec["meta"],
                      qualname=f"Outer.{name}" if spec["nested"] else None), ns)
    return ns[name], None


def bind(mod, cls):
    """Make `cls` importable under its module / qualname (what the decorator syntax does)."""
    target = mod
    parts = cls.__qualname__.split(".")
    for p in parts[:-1]:
        target = getattr(target, p)
    setattr(target, parts[-1], cls)


def describe(C):
    import dataclasses
    try:
        flds, isdc = [str(f.name) for f in dataclasses.fields(C)], True
    except TypeError:
        flds, isdc = [], False
    tail = type.mro(C)[1:]

    def slots_of(b):
        s = getattr(b, "__slots__", ())
        return [s] if isinstance(s, str) else [str(x) for x in s]
    own = C.__dict__.get("__slots__")
    return {
        "key": repr(C), "name": C.__name__, "qualname": C.__qualname__, "module": C.__module__,
        "isDataclass": isdc, "fields": flds, "dictKeys": [str(k) for k in C.__dict__.keys()],
        "baseSlots": [slots_of(b) for b in tail],
        "baseHasDict": any(getattr(b, "__dictoffset__", 0) for b in tail),
        "baseHasWeakref": any(getattr(b, "__weakrefoffset__", 0) for b in tail),
        "solidDict": C.__base__.__dictoffset__ != 0, "solidWeak": C.__base__.__weakrefoffset__ != 0,
        "solidVar": C.__base__.__itemsize__ != 0,
        "frozen": bool(getattr(getattr(C, "__dataclass_params__", None), "frozen", False)),
        "baseUserState": any(n in vars(b) for b in tail if b is not object for n in ("__getstate__", "__setstate__")),
        "ownSlots": None if own is None else ([own] if isinstance(own, str) else [str(x) for x in own]),
    }


def categorize(e):
    msg = str(e)
    if isinstance(e, TypeError):
        if "custom metaclass" in msg and "automatic slots" in msg:
            return "metaclass"
        if "must be called with a dataclass type or instance" in msg:
            return "notDataclass"
        if "nonempty __slots__ not supported" in msg:
            return "varsize"
        if "__dict__ slot disallowed" in msg:
            return "dictSlot"
        if "__weakref__ slot disallowed" in msg:
            return "weakrefSlot"
    if isinstance(e, ValueError) and "conflicts with class variable" in msg:
        return "conflict"
    if isinstance(e, RuntimeError) and msg == "c19-sabotage":
        return "env"
    return f"other:{type(e).__name__}:{msg[:120]}"


def observe(S, C):
    ss = S.__dict__.get("__setstate__")
    return {"slots": [str(s) for s in S.__slots__], "dict": sorted(str(k) for k in S.__dict__),
            "name": S.__name__, "qualname": S.__qualname__, "module": S.__module__,
            "setstateFix": ss is not C.__dict__.get("__setstate__")
            and getattr(ss, "__qualname__", "").endswith("_slots_setstate")
            and getattr(ss, "__module__", "") == "typelib.py.classes",
            "instDict": S.__dictoffset__ != 0, "instWeakref": S.__weakrefoffset__ != 0}


def _try(fn):
    try:
        return ("ok", fn())
    except BaseException as e:  # noqa: BLE001
        return ("err", type(e).__name__)


def oracle(mod, spec, fields, C, S, fails, stats):
    """slotted(C) vs C on real instances; nothing here looks at the model."""
    import copy
    import dataclasses
    import inspect
    import pickle
    import types
    import weakref

    def bad(what, **detail):
        fails.append({"what": what, "detail": {k: repr(v)[:200] for k, v in detail.items()}})

    def ok(key):
        stats[key] = stats.get(key, 0) + 1

    names = [f["name"] for f in fields]
    tys = {f["name"]: f["ty"] for f in fields}
    # ---- the class object
    for attr in ("__name__", "__qualname__", "__module__", "__doc__", "__bases__"):
        if getattr(S, attr) != getattr(C, attr):
            bad(f"{attr} not preserved", real=getattr(S, attr), expected=getattr(C, attr))
    if S.__mro__[1:] != C.__mro__[1:]:
        bad("inheritance (MRO tail) not preserved", real=S.__mro__, expected=C.__mro__)
    if type(S) is not type(C):
        bad("metaclass not preserved")
    if repr(S.__dataclass_params__) != repr(C.__dataclass_params__):
        bad("dataclass params not preserved", real=S.__dataclass_params__, expected=C.__dataclass_params__)
    if [f.name for f in dataclasses.fields(S)] != [f.name for f in dataclasses.fields(C)] or \
            [f.name for f in dataclasses.fields(S)] != names:
        bad("fields not preserved", real=dataclasses.fields(S))
    sigs = _try(lambda: str(inspect.signature(S))), _try(lambda: str(inspect.signature(C)))
    if sigs[0] != sigs[1]:
        bad("constructor signature (defaults) not preserved", real=sigs[0], expected=sigs[1])
    if getattr(S, "K", None) != 7:
        bad("ClassVar lost")
    if (S.__hash__ is None) != (C.__hash__ is None):
        bad("hashability differs")
    shadowed = set()
    for n in names:
        holders = [k for k in S.__mro__ if isinstance(vars(k).get(n), types.MemberDescriptorType)]
        if len(holders) != 1:
            bad("field does not have exactly one slot along the MRO", field=n, holders=holders)
            continue
        first = next(k for k in S.__mro__ if n in vars(k))
        if first is S and holders[0] is not S:
            bad("the new class keeps a class attribute that shadows an inherited slot", field=n)
        elif first is not holders[0]:
            # an UNSLOTTED class between the slot's owner and the decorated class re-declares the field with a
            # default: its class attribute shadows the slot for C and slotted(C) alike (nothing slotted can do)
            shadowed.add(n)
            stats["observed:inherited-slot-shadowed-by-a-base-class-default"] = \
                stats.get("observed:inherited-slot-shadowed-by-a-base-class-default", 0) + 1
    ok("class-object")
    tail = C.__mro__[1:]
    want_dict = bool(spec["dict"]) or any(getattr(b, "__dictoffset__", 0) for b in tail)
    want_wr = bool(spec["weakref"]) or any(getattr(b, "__weakrefoffset__", 0) for b in tail)
    frozen = C.__dataclass_params__.frozen
    eq = C.__dataclass_params__.eq
    valued_hash = (eq and frozen) or C.__dataclass_params__.unsafe_hash

    def vals(o):
        return [getattr(o, n) for n in names]

    # ---- instances
    xs, ys = [], []
    for args in spec["args"]:
        a = [_pyval(v, f["ty"]) for v, f in zip(args, fields)]
        rx, ry = _try(lambda: C(*a)), _try(lambda: S(*a))
        if rx[0] != ry[0] or (rx[0] == "err" and rx[1] != ry[1]):
            bad("construction differs", args=a, real=ry, expected=rx)
            continue
        if rx[0] == "err":
            continue
        x, y = rx[1], ry[1]
        xs.append(x)
        ys.append(y)
        ok("constructed")
        if vals(x) != vals(y):
            bad("field values differ after construction", real=vals(y), expected=vals(x))
        if repr(x) != repr(y):
            bad("repr differs", real=repr(y), expected=repr(x))
        if _try(lambda: dataclasses.astuple(x)) != _try(lambda: dataclasses.astuple(y)):
            bad("astuple differs")
        if x.total() != y.total():
            bad("method result differs", real=y.total(), expected=x.total())
        intro = _try(lambda: (hasattr(y, "__dict__"), sorted(n for n in dir(y) if n in names)))
        if intro[0] == "err" or intro != _try(lambda: (want_dict, sorted(n for n in dir(x) if n in names))):
            bad("introspection of an instance (hasattr __dict__, dir) differs from the plain class", real=intro, dict_flag=spec["dict"])
        elif hasattr(y, "__dict__") != want_dict:
            bad("instance __dict__ present" if not want_dict else "instance __dict__ missing", dict_flag=spec["dict"])
        elif want_dict and any(n in vars(y) for n in names if n not in shadowed):
            bad("a field lives in the instance __dict__ instead of its slot", real=vars(y))
        wr = _try(lambda: weakref.ref(y))
        if (wr[0] == "ok") != want_wr:
            bad("weakref.ref works although not requested/inherited" if wr[0] == "ok" else
                "weakref.ref fails although requested/inherited", weakref_flag=spec["weakref"])
        # hash
        hx, hy = _try(lambda: hash(x)), _try(lambda: hash(y))
        if hx[0] != hy[0] or (hx[0] == "err" and hx[1] != hy[1]) or (hx[0] == "ok" and valued_hash and hx[1] != hy[1]):
            bad("hash differs", real=hy, expected=hx)
        # second construction, equality
        x2, y2 = C(*a), S(*a)
        if (x == x2) != (y == y2):
            bad("== of equal-argument instances differs", real=(y == y2), expected=(x == x2))
        # copy / deepcopy
        for fn, label in ((copy.copy, "copy.copy"), (copy.deepcopy, "copy.deepcopy")):
            cx, cy = _try(lambda: fn(x)), _try(lambda: fn(y))
            if cx[0] == "err" or _try(lambda: vals(cx[1])) != ("ok", vals(x)):
                stats["excluded:" + label + "-fails-on-original"] = stats.get("excluded:" + label + "-fails-on-original", 0) + 1
                continue
            if cy[0] == "err":
                bad(f"{label} raises", error=cy[1], args=a)
                continue
            c = cy[1]
            if type(c) is not S or c is y or _try(lambda: vals(c)) != ("ok", vals(y)) or (eq and not (c == y)):
                bad(f"{label} result differs", real=c, expected=y)
            for n in names:
                if tys[n] == "list":
                    same_x, same_y = getattr(cx[1], n) is getattr(x, n), getattr(c, n) is getattr(y, n)
                    if same_x != same_y:
                        bad(f"{label} shares/duplicates a list field differently", field=n)
            ok(label)
        # pickle 2..5 (the class must be importable: bind like the decorator syntax does)
        for proto in (2, 3, 4, 5):
            bind(mod, C)
            px = _try(lambda: pickle.loads(pickle.dumps(x, proto)))
            bind(mod, S)
            if px[0] == "err" or _try(lambda: vals(px[1])) != ("ok", vals(x)):
                stats["excluded:pickle-fails-on-original"] = stats.get("excluded:pickle-fails-on-original", 0) + 1
                continue
            py = _try(lambda: pickle.loads(pickle.dumps(y, proto)))
            if py[0] == "err":
                bad("pickle round trip raises", error=py[1], protocol=proto, args=a)
                continue
            z = py[1]
            if type(z) is not S or _try(lambda: vals(z)) != ("ok", vals(y)) or (eq and not (z == y)) or repr(z) != repr(y):
                bad("pickle round trip changes the instance", real=z, expected=y, protocol=proto)
            ok("pickle")
        # frozen-ness / attribute discipline (on fresh instances)
        x3, y3 = C(*a), S(*a)
        if names:
            n0 = names[0]
            sx, sy = _try(lambda: setattr(x3, n0, getattr(x, n0))), _try(lambda: setattr(y3, n0, getattr(y, n0)))
            if sx != sy:
                bad("assignment to a field behaves differently", real=sy, expected=sx)
            if frozen and sy != ("err", "FrozenInstanceError"):
                bad("frozen class accepts assignment", real=sy)
            dx, dy = _try(lambda: delattr(x3, n0)), _try(lambda: delattr(y3, n0))
            if dx != dy:
                bad("deletion of a field behaves differently", real=dy, expected=dx)
        ny = _try(lambda: setattr(y3, "zz_new", 1))
        if frozen:
            # the generated __setattr__ closes over the ORIGINAL class: for a name that is not a field a
            # re-created class answers TypeError (super(cls, self)) instead of FrozenInstanceError — the same
            # as CPython 3.12's own @dataclass(slots=True, frozen=True).  Still refused: recorded, not failed.
            if ny[0] != "err":
                bad("frozen class accepts a new attribute", real=ny)
            elif ny[1] != "FrozenInstanceError":
                stats["observed:frozen-new-attribute-raises-" + ny[1]] = stats.get("observed:frozen-new-attribute-raises-" + ny[1], 0) + 1
        else:
            want = ("ok", None) if want_dict else ("err", "AttributeError")
            if ny != want:
                bad("new attribute on an instance", real=ny, expected=want)
        ok("instance")
    # ---- comparisons between different instances
    for i in range(len(xs)):
        for j in range(len(xs)):
            if (xs[i] == xs[j]) != (ys[i] == ys[j]):
                bad("== differs", i=i, j=j)
            if C.__dataclass_params__.order:
                for op in ("__lt__", "__le__", "__gt__", "__ge__"):
                    if _try(lambda: getattr(xs[i], op)(xs[j])) != _try(lambda: getattr(ys[i], op)(ys[j])):
                        bad("ordering differs", op=op, i=i, j=j)
    bind(mod, S)


def real_history(job):
    import sys
    import types
    import warnings
    warnings.simplefilter("ignore")
    from typelib.py import classes
    if job.get("control"):
        # control run: slotted() replaced by the identity (the ORIGINAL dataclasses everywhere) -- tells a history Python itself
        # cannot build from a history that only fails over slotted classes
        class _Identity:
            _stack = set()

            @staticmethod
            def slotted(_cls=None, **_kw):
                return _cls if _cls is not None else (lambda c: c)
        classes = _Identity
    mod = types.ModuleType(job["module"])
    sys.modules[job["module"]] = mod
    mod.__dict__["classes"] = classes
    exec(PREAMBLE, mod.__dict__)
    steps = job["steps"]
    origs, news, outs = [], [], []
    decos = {}
    for i, spec in enumerate(steps):
        C, why = materialise(mod, i, spec, origs, news)
        if C is None:
            origs.append(None)
            news.append(None)
            outs.append({"skip": why})
            continue
        if spec.get("precopy") and spec["kind"] == "dc":
            import copy
            fs = all_fields(spec, steps)
            for args in spec["args"][:1]:
                try:
                    copy.copy(C(*[_pyval(v, f["ty"]) for v, f in zip(args, fs)]))
                except BaseException:  # noqa: BLE001  (an original that cannot be copied is excluded by the oracle anyway)
                    pass
        desc = describe(C)
        sab = spec["kind"] == "dc" and spec["base"] and spec["base"]["kind"] == "sab"
        if sab:
            mod.__dict__[f"Sab{i}"].armed = True
        S = None
        try:
            with warnings.catch_warnings():
                warnings.simplefilter("ignore")
                if job.get("reuse_decorator"):
                    # one decorator object per flag pair, applied to every class of the history that asks for these flags
                    key = (spec["dict"], spec["weakref"])
                    if key not in decos:
                        decos[key] = classes.slotted(dict=key[0], weakref=key[1])
                    S = decos[key](C)
                else:
                    S = classes.slotted(C, dict=spec["dict"], weakref=spec["weakref"])
            real = {"created": observe(S, C)}
        except BaseException as e:  # noqa: BLE001
            real = {"err": categorize(e)}
        if sab:
            mod.__dict__[f"Sab{i}"].armed = False
        stack = sorted(str(k) for k in classes._stack)
        origs.append(C)
        news.append(S)
        fails, stats = [], {}
        if S is not None:
            try:
                oracle(mod, spec, all_fields(spec, steps), C, S, fails, stats)
            except BaseException as e:  # noqa: BLE001
                import traceback
                fails.append({"what": "oracle crashed on the slotted class",
                              "detail": {"error": f"{type(e).__name__}: {e}", "tb": traceback.format_exc()[-600:]}})
        outs.append({"desc": desc, "real": real, "stack": stack, "oracle": fails, "stats": stats})
    return outs


# ------------------------------------------------------------------------------------------------
# comparison (parent)

def may_raise(spec):
    """Steps that are built to fail (the property only promises plain-metaclass dataclasses)."""
    if spec["kind"] == "plain":
        return True
    if spec["kind"] == "dc":
        return spec["meta"] or bool(spec["base"] and spec["base"]["kind"] in ("sab", "tuple"))
    return False


def lean_step(spec, desc):
    return {"cls": desc, "dict": bool(spec["dict"]), "weakref": bool(spec["weakref"]),
            "creationOk": not (spec["kind"] == "dc" and bool(spec["base"]) and spec["base"]["kind"] == "sab"),
            "reentrant": spec["kind"] == "dc" and bool(spec["meta"])}


def same_outcome(real, model):
    if "err" in real or "err" in model["out"]:
        return real.get("err") == model["out"].get("err")
    r, m = real["created"], model["out"]["created"]
    return (r["slots"] == m["slots"] and r["dict"] == sorted(set(m["dict"]) | set(m["slots"]))
            and (r["name"], r["qualname"], r["module"]) == (m["name"], m["qualname"], m["module"])
            and r["setstateFix"] == m["setstateFix"])


def evaluate(jobs, outs, res):
    lines, index = [], []
    for ji, (job, out) in enumerate(zip(jobs, outs)):
        if isinstance(out, dict) and "crash" in out:
            # does Python build this history over the original classes?  then the crash is slotted()'s doing: its results cannot be
            # used where the originals can
            ctl = iso.map_isolated(real_history, [dict(job, control=True)])[0]
            if isinstance(ctl, dict) and "crash" in ctl:
                raise RuntimeError(f"harness: history failed to materialise: {out}; control run (slotted = identity): {ctl.get('crash')}")
            res.failures.append({"what": "a history of class definitions that Python builds over the original dataclasses cannot be built over "
                                         f"the classes slotted() returned: {out['crash']}", "input": {"job": job, "step": 0}})
            lines.append(None)
            index.append(None)
            continue
        live = [i for i, o in enumerate(out) if "skip" not in o]
        lines.append({"op": "slotted.run", "steps": [lean_step(job["steps"][i], out[i]["desc"]) for i in live]})
        index.append(live)
    drv = lean.drive([l for l in lines if l is not None]) if any(l is not None for l in lines) else []
    it = iter(drv)
    models = [next(it) if l is not None else None for l in lines]
    for job, out, live, model in zip(jobs, outs, index, models):
        if model is None:
            continue
        if "bad" in model:
            raise RuntimeError(f"harness: driver rejected a history: {model}")
        res.programs += 1
        prefix = []
        for pos, i in enumerate(live):
            spec, o, m = job["steps"][i], out[i], model["steps"][pos]
            case = {"step": {k: v for k, v in spec.items() if k != "args"}, "prefix": list(prefix)}
            prefix.append([spec["kind"], spec["name"]])
            nontrivial = spec["kind"] == "redecorate" or (spec["kind"] == "dc" and bool(spec["fields"] or spec["base"]))
            res.case(case, nontrivial)
            inp = {"job": job, "step": i, "class": o["desc"]["key"], "flags": [spec["dict"], spec["weakref"]]}
            kind = "ok" if "created" in o["real"] else o["real"]["err"].split(":")[0]
            res.count(f"step:{spec['kind']}:{kind}")
            if spec.get("risky_state"):
                res.count("shape:frozen-below-a-base-with-state-methods")
            for k, v in o["stats"].items():
                res.count("oracle:" + k, v)
            # ---- correspondence: outcome (slots, dict keys, names, error kind) and guard state
            if not same_outcome(o["real"], m):
                res.count("corr:DISAGREE")
                res.disagreements.append({"what": "slotted outcome", "input": inp, "real": o["real"], "model": m["out"]})
            elif o["stack"] != sorted(m["stack"]):
                res.count("corr:DISAGREE")
                res.disagreements.append({"what": "guard (_stack) after the decoration", "input": inp,
                                          "real": o["stack"], "model": m["stack"]})
            else:
                res.count("corr:agree")
            # ---- direct oracle
            if "err" in o["real"] and not may_raise(spec):
                res.failures.append({"what": f"decorating a plain-metaclass dataclass raised ({o['real']['err']})",
                                     "input": inp, "real": o["real"], "guard": o["stack"]})
            for f in o["oracle"]:
                res.failures.append({"what": f["what"], "input": inp, "detail": f["detail"]})


def _witness_child(_):
    import copy
    import dataclasses
    import warnings
    warnings.simplefilter("ignore")
    from typelib.py import classes

    @dataclasses.dataclass(frozen=True, slots=True)
    class NB:
        a: int = 1

    @dataclasses.dataclass(frozen=True)
    class Kid(NB):
        b: int = 2
    copy.copy(Kid(5, 6))
    S = classes.slotted(Kid)
    try:
        return not (copy.copy(S(5, 6)) == S(5, 6))
    except AttributeError:
        return True


def witness(fid):
    """Does the recorded witness of a known finding still fail on the real library?"""
    core.import_typelib()
    if fid == FID:
        r = iso.map_isolated(_witness_child, [0])[0]
        return r if isinstance(r, bool) else None
    return None


# ---- instances carrying state BESIDE their fields (dict=True): a clone of the slotted instance keeps what a clone of the original keeps
EXTRA_SRC = """
import dataclasses, functools
from typelib.py import classes
def make(frozen, slotted, how):
    @dataclasses.dataclass(frozen=frozen)
    class P:
        x: int
        y: int = 2
        def __post_init__(self):
            if how == "post_init":
                object.__setattr__(self, "norm", self.x * self.x + self.y * self.y)
        @functools.cached_property
        def area(self):
            return self.x * self.y
    P.__qualname__ = P.__name__ = "P_%s_%s_%s" % (frozen, slotted, how)
    return classes.slotted(dict=True, weakref=False)(P) if slotted else P
"""


def _extra_child(_job):
    import copy
    import pickle
    import sys
    import types
    import warnings
    warnings.simplefilter("ignore")
    mod = types.ModuleType("vm_c19_extra")
    sys.modules["vm_c19_extra"] = mod
    exec(EXTRA_SRC, mod.__dict__)
    bad = []
    for frozen in (True, False):
        for how in ("post_init", "cached_property", "assigned"):
            obs = {}
            for slotted in (False, True):
                C = mod.make(frozen, slotted, how)
                setattr(mod, C.__name__, C)
                C.__module__ = "vm_c19_extra"
                v = C(3, 2)
                if how == "cached_property":
                    v.area
                elif how == "assigned":
                    object.__setattr__(v, "memo", [1, 2])
                rows = {}
                for label, fn in (("copy.copy", copy.copy), ("copy.deepcopy", copy.deepcopy),
                                  ("pickle", lambda o: pickle.loads(pickle.dumps(o)))):
                    try:
                        c = fn(v)
                        rows[label] = [[c.x, c.y], sorted((k, repr(val)) for k, val in getattr(c, "__dict__", {}).items() if k not in ("x", "y"))]
                    except Exception as e:  # noqa: BLE001
                        rows[label] = ["raised", type(e).__name__]
                obs[slotted] = rows
            for label in obs[False]:
                if obs[False][label] != obs[True][label]:
                    bad.append([f"frozen={frozen}, extra state via {how}: {label}", f"original class: {obs[False][label]}", f"slotted(dict=True): {obs[True][label]}"])
    return bad


def extra_state_probe(res):
    bad = iso.map_isolated(_extra_child, [None], timeout=60.0)[0]
    if not isinstance(bad, list):
        raise RuntimeError(f"harness: extra-state probe failed: {bad}")
    res.case({"family": "state-beside-the-fields"}, True)
    for what, a, b in bad:
        res.failures.append({"what": f"{what} of the slotted instance differs from the clone of the original: {a}; {b}", "input": {"extra_state": what}})
    if not bad:
        res.count("oracle:clones-keep-state-beside-the-fields", 18)


# ---- a decoration that ends in an exception raised by the NOTICE (warnings turned into errors: -W error, pytest's filterwarnings):
# like every other failed decoration it may leave nothing behind -- the same name decorates normally afterwards
def _warn_child(_job):
    import dataclasses
    import sys
    import types
    import warnings
    from typelib.py import classes
    mod = types.ModuleType("vm_c19_warn")
    sys.modules["vm_c19_warn"] = mod
    bad = []

    def make():
        exec("import dataclasses\n@dataclasses.dataclass\nclass Point:\n    x: int = 0\n    y: int = 0\n"
             "class Outer:\n    @dataclasses.dataclass\n    class Point:\n        x: int = 0\n", mod.__dict__)
        return mod.Point, mod.Outer.Point
    for flags in ({}, {"weakref": False}, {"dict": True, "weakref": False}, {"dict": True, "weakref": True}):
        for which in (0, 1):
            first = "no exception"
            with warnings.catch_warnings():
                warnings.simplefilter("error")
                try:
                    classes.slotted(**flags)(make()[which])
                except Warning as e:
                    first = type(e).__name__
                except Exception as e:  # noqa: BLE001
                    bad.append([repr(flags), f"decoration under warnings-as-errors raised {type(e).__name__}: {e}"[:200]])
                    continue
            with warnings.catch_warnings():
                warnings.simplefilter("ignore")
                try:
                    C = classes.slotted(**flags)(make()[which])
                except Exception as e:  # noqa: BLE001
                    bad.append([repr(flags), f"after a decoration that ended in {first}, decorating a class of the same name raised "
                                             f"{type(e).__name__}: {e}"[:300]])
                    continue
                inst = C(1)
                try:
                    has_dict = hasattr(inst, "__dict__")
                    dir(inst)
                except Exception as e:  # noqa: BLE001
                    bad.append([repr(flags), f"reading __dict__/dir() of an instance raised {type(e).__name__}: {e}"[:300]])
                    continue
                if "__slots__" not in C.__dict__ or (has_dict != bool(flags.get("dict"))) or inst != C(1) or inst == C(2):
                    bad.append([repr(flags), f"after a decoration that ended in {first}, the same name decorates to a class that is not slotted as asked"])
    return bad


def warning_as_error_probe(res):
    bad = iso.map_isolated(_warn_child, [None], timeout=60.0)[0]
    if not isinstance(bad, list):
        raise RuntimeError(f"harness: warnings-as-errors probe failed: {bad}")
    res.case({"family": "decoration-ended-by-the-notice-as-an-error"}, True)
    for flags, what in bad:
        res.failures.append({"what": f"slotted({flags}): {what}", "input": {"warn_as_error": flags}})
    if not bad:
        res.count("oracle:a-failed-notice-leaves-nothing-behind", 8)


def explore(ctx):
    core.import_typelib()
    res = Result()
    res.rule = RULE
    jobs = scenario_jobs(ctx.rng)
    jobs += [gen_history(ctx.rng, i) for i in range(ctx.n(220, 12000))]
    outs = iso.map_isolated(real_history, jobs)
    evaluate(jobs, outs, res)
    extra_state_probe(res)
    warning_as_error_probe(res)
    return res


def replay(failure):
    core.import_typelib()
    inp = failure["input"]
    if "warn_as_error" in inp:
        bad = iso.map_isolated(_warn_child, [None], timeout=60.0)[0]
        print(json.dumps({"failures": bad}, indent=1, default=str))
        return bool(bad)
    if "extra_state" in inp:
        bad = iso.map_isolated(_extra_child, [None], timeout=60.0)[0]
        print(json.dumps({"clones that differ": bad}, indent=1, default=str))
        return bool(bad)
    job, i = inp["job"], inp["step"]
    out = iso.map_isolated(real_history, [job])[0]
    res = Result()
    evaluate([job], [out], res)
    mine = [f for f in res.failures if f["input"]["step"] == i]
    dis = [d for d in res.disagreements if d["input"]["step"] == i]
    if isinstance(out, dict):
        print(json.dumps({"history": [[s["kind"], s["name"]] for s in job["steps"]], "outcome": out.get("crash"),
                          "failures": [f["what"] for f in mine]}, indent=1, default=str)[:3000])
        return bool(mine)
    print(json.dumps({"history": [[s["kind"], s["name"]] for s in job["steps"]], "step": i,
                      "spec": {k: v for k, v in job["steps"][i].items() if k != "args"},
                      "real": out[i].get("real"), "guard": out[i].get("stack"),
                      "failures": [{"what": f["what"], "detail": f.get("detail")} for f in mine],
                      "disagreements": [{"what": d["what"], "real": d["real"], "model": d["model"]} for d in dis]},
                     indent=1, default=str)[:4000])
    return bool(mine)
