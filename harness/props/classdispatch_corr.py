"""Which routine a user-defined class gets, and how its instances are read: real code <-> Lean model (Model/ClassDispatch.lean).

Run with C03 (`classdispatch_correspondence(res)` at the end of c03.explore; theorems in Props/ClassDispatch.lean).

A class is described by a FEATURE RECORD

    flavour   dataclass | annotated (plain class with annotations) | initHinted (plain, hints on __init__ only) | plain (nothing)
              | typedNT (typing.NamedTuple) | collNT (subclass of a collections.namedtuple) | typedDict
              | enumPlain | enumInt | enumStr (Enum, mixin none / int / str)
              | subInt | subStr | subFloat | subList | subDict | subTuple | subSet | subBytes | subComplex (subclass of a builtin)
  x mapping   none | inherits (collections.abc.Mapping among the bases) | registered (Mapping.register(C) only)
  x defines   __iter__, __getitem__, keys(), __len__, __contains__, __call__, __next__, items()   (each yes / no, in the class body)

ALL 19 x 3 x 256 = 14592 records are enumerated.  Python itself refuses 1280 of them (counted, not compared): `inherits` with
typedNT (metaclass conflict: NamedTupleMeta / ABCMeta), with typedDict (a TypedDict may only inherit from TypedDicts) and with the
three Enum flavours (metaclass conflict: EnumType / ABCMeta).  Every other record is realised as a real class by `exec` of
generated source — one forked child (iso.map_isolated) per (flavour, mapping) pair, its 256 classes distinct class objects — and asked

    type(typelib.unmarshaller(C)).__name__, type(typelib.marshaller(C)).__name__, inspection.isstructuredtype(C),
    the name (in module `routines`) of the first row of each real `_HANDLERS` whose predicate holds for C
    list(serdes.iteritems(instance))      (twice: with __iter__ delivering non-pairs [10, 20], and pairs [("p", 1), ("q", 2)])

The Lean driver answers `classdispatch.routines` (class names and table-entry names of the two routines, walksMembers) and `classdispatch.items` (the reading:
"mapping" = calls .items() | "namedFields" = zip(_fields, instance) | "iterable" = the given pairs if the first element is a
2-element collection, else enumerate | "fields" = public fields / vars; and whether .items() is missing, i.e. AttributeError).
What each reading yields for the instance at hand is computed in the child with plain Python (not with typelib) and the real result
is compared with the one the model's reading predicts.  An instance that cannot be built (abstract Mapping methods missing) has no
reading to observe; only its routines are compared (counted).
"""
from __future__ import annotations

import itertools
import json

from .. import iso, lean

MOD = "vm_classdispatch"
FLAVOURS = ["dataclass", "annotated", "initHinted", "plain", "typedNT", "collNT", "typedDict", "enumPlain", "enumInt", "enumStr",
            "subInt", "subStr", "subFloat", "subList", "subDict", "subTuple", "subSet", "subBytes", "subComplex"]
MAPPINGS = ["none", "inherits", "registered"]
METHODS = ["iter", "getitem", "keys", "len", "contains", "call", "next", "items"]
METHOD_SRC = {
    "iter": "def __iter__(self):\n        return iter(SEQ)",
    # (bounded: the legacy sequence protocol, iter() over __getitem__, must end)
    "getitem": "def __getitem__(self, k):\n        if isinstance(k, int) and k >= 2:\n            raise IndexError(k)\n        return ('got', k)",
    "keys": "def keys(self):\n        return ['kk']",
    "len": "def __len__(self):\n        return 2",
    "contains": "def __contains__(self, k):\n        return True",
    "call": "def __call__(self):\n        return None",
    "next": "def __next__(self):\n        raise StopIteration",
    "items": "def items(self):\n        return [('ik', 7)]",
}
SEQS = {"plain": [10, 20], "pairs": [("p", 1), ("q", 2)]}
BUILTIN = {"subInt": "int", "subStr": "str", "subFloat": "float", "subList": "list", "subDict": "dict", "subTuple": "tuple",
           "subSet": "set", "subBytes": "bytes", "subComplex": "complex"}
PRELUDE = "import collections, collections.abc, dataclasses, enum, typing\nSEQ = [10, 20]\n_NTB = collections.namedtuple('_NTB', ['x', 'y'])\n"


def records():
    out = []
    for fl in FLAVOURS:
        for mp in MAPPINGS:
            for bits in itertools.product((False, True), repeat=len(METHODS)):
                out.append({"flavour": fl, "mapping": mp, **dict(zip(METHODS, bits))})
    return out


def class_source(rec, name="C"):
    fl = rec["flavour"]
    bases, deco, body = [], "", []
    if fl == "dataclass":
        deco, body = "@dataclasses.dataclass\n", ["x: int = 0", "y: int = 0"]
    elif fl == "annotated":
        body = ["x: int", "y: int"]
    elif fl == "initHinted":
        body = ["def __init__(self, x: int, y: int):\n        self.x = x\n        self.y = y"]
    elif fl == "typedNT":
        bases, body = ["typing.NamedTuple"], ["x: int", "y: int"]
    elif fl == "collNT":
        bases = ["_NTB"]
    elif fl == "typedDict":
        bases, body = ["typing.TypedDict"], ["x: int", "y: int"]
    elif fl == "enumPlain":
        bases, body = ["enum.Enum"], ["A = 1"]
    elif fl == "enumInt":
        bases, body = ["int", "enum.Enum"], ["A = 1"]
    elif fl == "enumStr":
        bases, body = ["str", "enum.Enum"], ["A = 'ab'"]
    elif fl in BUILTIN:
        bases = [BUILTIN[fl]]
    if rec["mapping"] == "inherits":
        bases.append("collections.abc.Mapping")
    body += [METHOD_SRC[m] for m in METHODS if rec[m]]
    if not body:
        body = ["pass"]
    head = f"class {name}({', '.join(bases)}):" if bases else f"class {name}:"
    src = deco + head + "\n" + "".join(f"    {b}\n" for b in body)
    if rec["mapping"] == "registered":
        src += f"collections.abc.Mapping.register({name})\n"
    return src


# --------------------------------------------------------------------------- child: build, ask, observe

def _instance(cls, fl, seq):
    if fl == "dataclass" or fl == "initHinted":
        return cls(x=1, y=2)
    if fl in ("typedNT", "collNT"):
        return cls(1, 2)
    if fl == "typedDict":
        return cls(x=1, y=2)
    if fl.startswith("enum"):
        return cls.A
    if fl in ("annotated", "plain"):
        o = cls()
    elif fl == "subDict":
        o = cls({"dk": 5, "dl": 6})
    elif fl in ("subList", "subTuple", "subSet"):
        o = cls(seq)
    else:
        o = cls({"subInt": 5, "subStr": "ab", "subFloat": 1.5, "subBytes": b"ab", "subComplex": 1 + 2j}[fl])
    o.x, o.y = 1, 2
    return o


def _jsonable(x):
    if isinstance(x, (list, tuple)):
        return [_jsonable(e) for e in x]
    if isinstance(x, (str, int, float, bool)) or x is None:
        return x
    return repr(x)


def _try(f):
    try:
        return {"ok": _jsonable(f())}
    except Exception as e:  # noqa: BLE001
        return {"err": type(e).__name__}


def _readings(o):
    """What each way of reading the instance yields, with plain Python."""
    import collections.abc

    def iterable():
        xs = list(iter(o))
        first = xs[0] if xs else ()
        if isinstance(first, collections.abc.Collection) and len(first) == 2:
            return xs
        return list(enumerate(xs))
    return {"mapping": _try(lambda: list(o.items())),
            "namedFields": _try(lambda: list(zip(o._fields, o))),
            "iterable": _try(iterable),
            "fields": _try(lambda: [(k, getattr(o, k)) for k in ("x", "y") if k in vars(o) or k in getattr(o, "_fields", ())])}


def _child(job):
    """One child per (flavour, mapping): its 256 records, every class a fresh class object under its own name."""
    import sys
    import types
    import warnings
    warnings.simplefilter("ignore")
    import typelib
    from typelib import serdes
    from typelib.py import inspection
    mod = types.ModuleType(MOD)
    sys.modules[MOD] = mod
    ns = mod.__dict__
    exec(compile(PRELUDE, MOD, "exec", dont_inherit=True), ns)
    return [_one(rec, f"C{i}", ns, typelib, serdes, inspection) for i, rec in enumerate(job)]


def _entry(api, routines, cls, fallback):
    """Name (in module `routines`) of the first row of the real table whose predicate holds for the class."""
    for check, h in api._HANDLERS.items():
        if check(cls):
            names = [n for n, v in vars(routines).items() if v is h]
            return names[0] if names else repr(h)
    return fallback


def _one(rec, name, ns, typelib, serdes, inspection):
    from typelib.marshals import api as mapi, routines as mroutines
    from typelib.unmarshals import api as uapi, routines as uroutines
    src = class_source(rec, name)
    try:
        exec(compile(src, MOD, "exec", dont_inherit=True), ns)
    except TypeError as e:
        return {"refused": str(e)[:120]}
    cls = ns[name]
    out = {"src": src,
           "unmarshaller": _try(lambda: type(typelib.unmarshaller(cls)).__name__),
           "marshaller": _try(lambda: type(typelib.marshaller(cls)).__name__),
           "unmarshallerEntry": _try(lambda: _entry(uapi, uroutines, cls, "StructuredTypeUnmarshaller")),
           "marshallerEntry": _try(lambda: _entry(mapi, mroutines, cls, "StructuredTypeMarshaller")),
           "structured": _try(lambda: bool(inspection.isstructuredtype(cls))),
           "items": {}}
    for tag, seq in SEQS.items():
        ns["SEQ"] = seq
        try:
            o = _instance(cls, rec["flavour"], seq)
        except TypeError as e:
            out["items"][tag] = {"noinstance": str(e)[:120]}
            continue
        out["items"][tag] = {"real": _try(lambda: list(serdes.iteritems(o))), "readings": _readings(o),
                             "instance_class_is_dict": type(o) is dict}
    return out


# --------------------------------------------------------------------------- parent: ask the model, compare

def observe(recs=None):
    recs = records() if recs is None else recs
    groups = {}
    for r in recs:
        groups.setdefault((r["flavour"], r["mapping"]), []).append(r)
    jobs = list(groups.values())
    outs_g = iso.map_isolated(_child, jobs, timeout=600.0)
    recs, outs = [], []
    for job, og in zip(jobs, outs_g):
        if not isinstance(og, list) or len(og) != len(job):
            raise RuntimeError(f"harness: class-dispatch child failed: {job[0]}: {og}")
        recs += job
        outs += og
    live = [(r, o) for r, o in zip(recs, outs) if "refused" not in o]
    ops = []
    for r, _ in live:
        ops.append({"op": "classdispatch.routines", "rec": r})
        ops.append({"op": "classdispatch.items", "rec": r})
    model = lean.drive(ops) if ops else []
    return recs, outs, live, list(zip(model[0::2], model[1::2]))


def expected_items(m_items, obs):
    """Outcome of list(iteritems(instance)) if the instance is read the way the model says."""
    if m_items["reading"] == "mapping" and m_items["itemsMissing"]:
        return {"err": "AttributeError"}
    return obs["readings"][m_items["reading"]]


def classdispatch_correspondence(res):
    recs, outs, live, model = observe()
    res.count("classdispatch:records", len(recs))
    refused = [(r, o) for r, o in zip(recs, outs) if "refused" in o]
    res.count("classdispatch:records-python-refuses", len(refused))
    for r, o in refused:
        if r["mapping"] != "inherits" or r["flavour"] not in ("typedNT", "typedDict", "enumPlain", "enumInt", "enumStr"):
            raise RuntimeError(f"harness: Python refused a class the generator should be able to build: {r}: {o}")
    res.count("classdispatch:classes", len(live))
    for (r, o), (mr, mi) in zip(live, model):
        if "bad" in mr or "bad" in mi:
            raise RuntimeError(f"harness: driver rejected a feature record: {mr} {mi} {r}")
        brief = {"family": "class-dispatch", "record": r, "class": o["src"]}
        res.case(brief, True)
        real = {"unmarshaller": o["unmarshaller"], "marshaller": o["marshaller"], "walksMembers": o["structured"],
                "unmarshallerEntry": o["unmarshallerEntry"], "marshallerEntry": o["marshallerEntry"]}
        want = {k: {"ok": mr[k]} for k in real}
        if real == want:
            res.count("classdispatch:routines:ok")
            res.count("classdispatch:unmarshaller:" + mr["unmarshaller"])
        else:
            res.count("classdispatch:routines:DISAGREE")
            res.disagreements.append({"what": "class-dispatch: the routines chosen for a class differ from the model's `routines` of its feature record",
                                      "input": brief, "real": real, "model": mr})
        for tag, obs in o["items"].items():
            if "noinstance" in obs:
                res.count("classdispatch:items:no-instance(abstract)")
                continue
            want_i = expected_items(mi, obs)
            if mi["instanceIsDict"] != obs["instance_class_is_dict"]:
                res.count("classdispatch:items:DISAGREE")
                res.disagreements.append({"what": "class-dispatch: the class of the instance is / is not dict, against the model",
                                          "input": {**brief, "seq": tag}, "real": obs["instance_class_is_dict"], "model": mi})
            elif want_i == obs["real"]:
                res.count("classdispatch:items:ok:" + (mi["reading"] if "ok" in want_i else want_i["err"]))
            else:
                res.count("classdispatch:items:DISAGREE")
                res.disagreements.append({"what": "class-dispatch: list(iteritems(instance)) differs from what the model's reading of the instance yields",
                                          "input": {**brief, "seq": tag}, "real": obs["real"],
                                          "model": {**mi, "expected": want_i, "readings": obs["readings"]}})
    return res


if __name__ == "__main__":   # python -m harness.props.classdispatch_corr : print the comparison (development aid)
    from .. import core
    from ..runner import Result
    core.import_typelib()
    r = classdispatch_correspondence(Result())
    print(json.dumps({"evaluations": r.evaluations, "distinct": len(r.keys), "stats": r.stats,
                      "disagreements": r.disagreements[:5]}, indent=1, default=str)[:8000])
