"""C05 — Nested members are converted by their own type's rules (proved compiler model + verified validator per tree)."""
from __future__ import annotations

import json
import warnings

from .. import core, enc, iso, lean, universe
from .. import routines_extract as rx
from ..runner import Result

ID = "C05"
LEVEL = "proof"
LEVEL_TEXT = ("Verified validator, run per generated program. Kernel-checked once and for all (Props/C05.lean): "
              "`adequate_sound_unmarshal` / `adequate_sound_marshal` — a routine tree accepted by the decidable validator "
              "`adequate` for an annotation T computes the compositional denotation um T / mar T on EVERY input and at every "
              "fuel (unbounded in values, depth and size); `graph_sound_*` discharges the one assumption of the tree theorems "
              "(a Delayed proxy computes the denotation of its target) from the validation of the targets' own trees; "
              "`denote_compositional_*` read C05 off the denotation (every member by the routine of its own annotation, the "
              "struct comprehension over the class's own field table); `struct_sources_alike(_overlap)` / `struct_text_alike`: "
              "all documented source shapes convert alike. Per instance in programs: on every run the REAL routine graph "
              "(root tree + the tree of every Delayed target) of every generated root annotation is extracted from the "
              "library by class name and public attributes and decided by the compiled validator, both directions; a "
              "rejected tree names the path of the first offending node. Plus, on the same programs, behavioural "
              "correspondence (model um/mar and the extracted tree's own run vs the real results, valid values and junk) and "
              "an independent metamorphic oracle on the real code alone (composite = rebuild of independently converted "
              "members with exception parity, recursively; mapping / pairs / JSON text / foreign-instance sources alike). "
              "Routine COMPILER (Model/Compile.lean: compileU / compileM, cycles cut where a class meets itself on the path): "
              "`compile_adequate_*` — for EVERY annotation whose classes are declared and whose Literal members are primitives "
              "(decidable `compilable`, `compilableEnv`; implied by wfTy / wfEnv) the validator accepts the compiled tree, hence "
              "`compile_sound_*` (the compiled tree computes the denotation on every input) and `compile_graph_ok` / "
              "`compile_graph_sound_unmarshal` (the compiled routine graph of a root with cycles is validated, no assumption on "
              "proxies left); `compile_dispatch_*` re-decides the compiler's routine class per annotation kind against the "
              "regenerated handler tables. Tied to the code per instance: every extracted tree (root and every Delayed target) "
              "is compared node by node with the model compiler's tree of the same annotation, up to Delayed targets "
              "(coverage.stats compile:*).")
LEVEL_NOTE = ("The theorems are about the MODEL of the routine compiler (Model/Compile.lean) and of the routine classes (Model/Routine.lean): "
              "for every annotation the compiled tree computes the compositional denotation. They reach typelib's own compiler through "
              "two per-run ties: the node-by-node comparison of every extracted real tree with the model compiler's tree (up to Delayed "
              "targets: the real library also defers named types met earlier in graph order, which `graph_sound_*` shows is "
              "immaterial), and the verified validator applied to the real tree itself; programs are sampled (count in "
              "coverage.programs). Annotations and class environments are wrapper-erased (NewType / alias / Final dropped; relating T "
              "and erase T is C11). Trusted: Lean kernel; axioms propext, Classical.choice, Quot.sound; the extractor "
              "harness/routines_extract.py and the decoder Drv/Routine.lean (class name + attributes -> Routine constructor); that each "
              "routine class's __call__ is what Model/Routine.lean says (tied by the tree-run correspondence on every case); the leaf "
              "routines (abstract `Leaves`); dispatch of leaf and composite classes re-decided against the regenerated tables "
              "(leaf_classes_*, compile_dispatch_*).")
TECHNIQUE = ("Lean 4 theorems (model of the routine compiler proved adequate and sound for every annotation, by induction); translation validation: decidable simulation between annotation and extracted routine tree with a Lean 4 soundness "
             "proof (induction on fuel, mutual list lemmas); differential correspondence; metamorphic member-wise oracle")
DESIGN_REF = "DESIGN.md §5 C05, §1 item 3"
MODULES = ["TypelibModel.Props.C05", "TypelibModel.Props.Dispatch"]
TABLES = True
RULE = ("synthesised module sets from universe.Gen (0-3 classes of every flavour, enums, recursive fields, shared class names "
        "across modules, field names from a 13-name pool) extended with ADVERSARIAL naming: twin classes with the same "
        "__name__ (other module / nested in an Outer shell) and the same field names but different field types, a hub class "
        "reaching one member type through several paths (direct, list, dict, Optional, alias/NewType, self-reference), aliases "
        "as members; roots = every structured class, hub/twin composites, diamond tuples, random annotations of U (depth<=3/4). "
        "One fork per (program, root). Per root: both routine graphs validated; valid values, their real wire forms, junk and "
        "corrupted wires through real vs model vs extracted-tree run; member-wise oracle at every nesting level; four source "
        "shapes for structured roots. non-trivial = composite root; distinct = distinct (annotation, direction, input) encodings")
ASSUMPTIONS = [
    "validator statements are about wrapper-erased annotations/environments (erase, eraseEnv); C11 relates T and erase T",
    "union members that are aliases of None are excluded by the generator (erasure changes which members are None)",
    "Literal members are written in one canonical order per program (Literal[1,'a'] == Literal['a',1] share a context key; "
    "membership is order-insensitive)",
    "JSON-text source shape: integers within 64 bits (the default decoder, orjson, reads larger ones as floats; C02/C14 state the same range)",
    "model vs real is not compared on an input containing a set of >= 2 elements when the outcomes differ and the set can reach a "
    "positional routine (union member or junk input): the result then depends on the hash order of the real set",
    "compiler correspondence is structural equality UP TO Delayed targets: which class references the real library defers "
    "beyond the forced ones (a class below itself) depends on graphlib's queue order (C09) and is not modelled by the compiler; "
    "a proxy and the tree of its target are interchangeable by graph_sound_*",
    "the metamorphic oracle decomposes only inputs in a plain shape (list/tuple/set/deque for collections, dict for mappings "
    "and structured classes); other inputs are judged by the correspondence alone",
]
TRUSTED = ["harness/routines_extract.py (extractor: class names + public attributes, ann_to_ty)",
           "lean/TypelibModel/Drv/Routine.lean (decoder of extracted nodes; verdict computed by the proved `adequate`/`graphOk`)",
           "harness/enc.py + harness/universe.py (encodings, generators)",
           "hand-written model Model/{Serdes,Denote,Leaf,Routine}.lean tied to the code by this correspondence"]

FINDING = "unionOrderKey"

# --------------------------------------------------------------------------- program synthesis


def _body(ts):
    return [x for x in ts if not isinstance(x, dict)]


def _hint(ts):
    return [x for x in ts if isinstance(x, dict)]


def erases_to_none(ts):
    b = _body(ts)
    return b[0] == "none" or (b[0] == "wrap" and erases_to_none(b[2]))


def sanitize(ts):
    """Pure rewrite applied to every spec of a program: Literal members in canonical order; union members
    that are aliases of None dropped (see ASSUMPTIONS)."""
    b, h = _body(ts), _hint(ts)
    tag = b[0]
    if tag == "lit":
        return ["lit", sorted(b[1], key=lambda v: (type(v).__name__, repr(v)))] + h
    if tag == "coll":
        return ["coll", b[1], sanitize(b[2])] + h
    if tag == "tuple":
        return ["tuple", [sanitize(e) for e in b[1]]] + h
    if tag == "dict":
        return ["dict", sanitize(b[1]), sanitize(b[2])] + h
    if tag == "wrap":
        return ["wrap", b[1], sanitize(b[2])] + h
    if tag == "union":
        ms = [sanitize(m) for m in b[1] if not (_body(m)[0] == "wrap" and erases_to_none(m))]
        if len(ms) == 1:
            return ms[0]
        if not ms:
            return ["none"]
        h2 = [dict(x) for x in h]
        for x in h2:
            if x.get("sp") == "optional" and not (len(ms) == 2 and ms[1][0] == "none"):
                x["sp"] = "typing"
        return ["union", ms] + h2
    return ts


def sanitize_prog(prog):
    for c in prog["classes"]:
        c["fields"] = [[fn, sanitize(ft)] for fn, ft in c["fields"]]
    for a in prog["aliases"].values():
        a["target"] = sanitize(a["target"])


def _fresh_name(prog, module, name):
    if any(c["module"] == module and c["qualname"].split(".")[0] == name for c in prog["classes"]):
        return f"{name}{len(prog['classes'])}"
    return name


def add_class(g, name, module, kind, fields, qual=None):
    prog = g.prog
    cid = len(prog["classes"])
    prog["classes"].append({"id": cid, "name": name, "qualname": qual or name, "module": module, "kind": kind, "opts": [],
                            "fields": [list(f) for f in fields], "required": [f for f, _ in fields], "defaults": [],
                            "members": [], "mixin": "none"})
    g.struct_ids.append(cid)
    return cid


def add_alias(g, target, kind=None):
    r = g.r
    kind = kind or r.choice(["newtype", "alias"])
    if kind == "newtype" and _body(target)[0] in ("union", "none", "lit", "any"):
        kind = "alias"
    name = f"{'NT' if kind == 'newtype' else 'AL'}{len(g.prog['aliases'])}"
    g.prog["aliases"][name] = {"name": name, "module": r.choice(g.mods), "kind": kind, "target": target}
    return ["wrap", kind, target, {"name": name}]


def adversarial(g, depth):
    """Extend the program of `g` with name coincidences; returns the root annotations to check."""
    r = g.r
    mods = g.mods
    flav = lambda: r.choice(["dataclass", "dataclass", "namedtuple", "typeddict", "plain", "slots"])
    roots = []
    # --- twins: equal class name, equal field names, different field types
    t1, t2 = r.sample([["int"], ["str"], ["bool"], ["float"], ["decimal"], ["date"], ["uuid"], ["timedelta"]], 2)
    if r.random() < 0.4:
        t1 = g.ty(1, in_field=True)
    fa, fb = r.sample(universe.NAMES, 2)
    # (names that are also attributes of the `typing` module: a reference to such a class must still be resolved in ITS module)
    base = r.choice(["Node", "Item", "Twin", "Text", "Counter", "Set", "Type", "Sequence", "Pattern", "Match", "Container", "List", "Dict",
                     "Optional", "Any", "Final"])
    na = _fresh_name(g.prog, mods[0], base)
    a = add_class(g, na, mods[0], flav(), [[fa, t1], [fb, ["coll", "list", t1, {"sp": "builtin"}]]])
    mb = mods[-1]
    nb = _fresh_name(g.prog, mb, na if mb != mods[0] else base)
    b = add_class(g, nb, mb, flav(), [[fa, t2], [fb, ["coll", "list", t2, {"sp": "builtin"}]]])
    # --- nested class with the __name__ of a top-level class of the same module, other field types
    t3 = r.choice([["str"], ["int"], ["fraction"], ["path"]])
    cid = len(g.prog["classes"])
    n = add_class(g, na, mods[0], r.choice(["dataclass", "plain", "namedtuple"]),
                  [[fa, ["dict", ["str"], t3, {"sp": "builtin"}]], [fb, t3]], qual=f"Outer{cid}.{na}")
    # --- the member type reached through several paths
    pool = [["cls", a], ["cls", b], ["cls", n]] + [["cls", c] for c in g.struct_ids[:3]]
    m = r.choice(pool) if r.random() < 0.7 else g.ty(2)
    if erases_to_none(m):
        m = ["cls", a]
    al = add_alias(g, m)
    # typing flattens Union[Union[...], None]: inside an Optional a union member goes through its alias
    mo = al if _body(m)[0] == "union" else m
    hub_fields = [["left", ["cls", a]], ["right", ["cls", b]], ["inner", ["cls", n]], [fa, m],
                  [fb, ["coll", "list", m, {"sp": r.choice(["builtin", "typing", "abc:Sequence"])}]],
                  ["by_key", ["dict", ["str"], m, {"sp": "builtin"}]], ["aliased", al],
                  ["opt", ["union", [mo, ["none"]], {"sp": r.choice(["optional", "pipe", "typing"])}]],
                  ["pair", ["tuple", [["cls", a], ["cls", b], m], {"sp": "builtin"}]]]
    if r.random() < 0.3:
        hub_fields.append(["aliased2", add_alias(g, al)])      # a wrapper of a wrapper
    r.shuffle(hub_fields)
    hub_fields = hub_fields[: r.randint(5, len(hub_fields))]
    if r.random() < 0.08:
        # the known finding: two unions that are == but list their members in different orders share one context key
        hub_fields += [["u1", ["union", [["int"], ["str"]], {"sp": "typing"}]], ["u2", ["union", [["str"], ["int"]], {"sp": "typing"}]]]
    hub_kind = r.choice(["dataclass", "dataclass", "typeddict", "plain", "namedtuple"])
    hub_mod = r.choice(mods)
    hub = add_class(g, _fresh_name(g.prog, hub_mod, "Hub"), hub_mod, hub_kind, hub_fields)
    if r.random() < 0.5 and hub_kind != "namedtuple":
        hc = g.prog["classes"][hub]
        # the cycle closes directly or through a NewType / alias of the class itself
        back = ["cls", hub] if r.random() < 0.5 else add_alias(g, ["cls", hub])
        hc["fields"].append(["again", ["union", [back, ["none"]], {"sp": "optional"}]])
        if hub_kind == "typeddict":
            pass  # not required
        else:
            hc["defaults"].append(["again", None])
    roots += [["cls", hub], ["tuple", [["cls", a], ["cls", b], ["cls", n]], {"sp": "builtin"}],
              ["dict", ["str"], ["cls", hub], {"sp": "builtin"}],
              ["tuple", [m, ["coll", "list", m, {"sp": "builtin"}], ["union", [mo, ["none"]], {"sp": "optional"}], al], {"sp": "builtin"}],
              ["coll", r.choice(["list", "vartuple", "deque"]), ["cls", r.choice([a, b, n, hub])], {"sp": "builtin"}]]
    roots += [["cls", c] for c in g.struct_ids if c not in (hub,)][:4]
    roots += [g.ty(depth) for _ in range(2)]
    sanitize_prog(g.prog)
    out, seen = [], set()
    for ts in roots:
        ts = sanitize(ts)
        k = json.dumps(ts)
        if erases_to_none(ts):
            continue        # marshal(v, t=None) means "no annotation given": not an annotation of its own
        if k not in seen:
            seen.add(k)
            out.append(ts)
    return out


def _union_orders(ts, acc):
    b = _body(ts)
    tag = b[0]
    if tag == "union":
        ms = [json.dumps(enc.strip_hints(m)) for m in b[1] if _body(m)[0] != "none"]
        acc.setdefault(tuple(sorted(ms)), set()).add(tuple(ms))
        for m in b[1]:
            _union_orders(m, acc)
    elif tag == "coll" or tag == "wrap":
        _union_orders(b[2], acc)
    elif tag == "tuple":
        for e in b[1]:
            _union_orders(e, acc)
    elif tag == "dict":
        _union_orders(b[1], acc)
        _union_orders(b[2], acc)


def union_order_conflict(prog, roots):
    """Known-finding predicate: the program / root annotation contains two unions that are == (same member
    set) but list their non-None members in different orders."""
    acc = {}
    for c in prog["classes"]:
        for _, ft in c["fields"]:
            _union_orders(ft, acc)
    for a in prog["aliases"].values():
        _union_orders(a["target"], acc)
    for ts in roots:
        _union_orders(ts, acc)
    return any(len(v) > 1 for v in acc.values())


# --------------------------------------------------------------------------- the independent oracle (child side)

def _unwrap_top(a):
    import typing
    for _ in range(50):
        if hasattr(a, "__supertype__"):
            a = a.__supertype__
        elif isinstance(a, typing.TypeAliasType):
            a = a.__value__
        elif typing.get_origin(a) in (typing.Final, typing.ClassVar):
            a = typing.get_args(a)[0]
        else:
            return a
    return a


_CTORS = None


def _kind(a, P):
    """('coll', ctor, E) | ('tuple', [E…]) | ('dict', K, V) | ('cls', cls, hints) | None — from the real annotation object."""
    import collections
    import typing
    global _CTORS
    if _CTORS is None:
        _CTORS = {"list": list, "set": set, "frozenset": frozenset, "deque": collections.deque}
    if isinstance(a, type) and a in P.cid and P.spec["classes"][P.cid[a]]["kind"] != "enum":
        # class variables are not fields of the instance; a class without class-level annotations declares its fields on __init__
        hints = {f: h for f, h in typing.get_type_hints(a).items() if typing.get_origin(h) is not typing.ClassVar}
        if not hints and "__init__" in vars(a):
            hints = {f: h for f, h in typing.get_type_hints(a.__init__).items() if f != "return"}
        return ("cls", a, hints)
    origin, args = typing.get_origin(a), typing.get_args(a)
    if origin is tuple:
        if len(args) == 2 and args[1] is Ellipsis:
            return ("coll", tuple, args[0])
        if args and args != ((),):
            return ("tuple", list(args))
        return None
    if origin in rx.COLL_ORIGINS and len(args) == 1:
        return ("coll", _CTORS[rx.COLL_ORIGINS[origin]], args[0])
    if origin in rx.DICT_ORIGINS and len(args) == 2:
        return ("dict", args[0], args[1])
    return None


def _strict_eq(a, b):
    """Equality that also compares classes (1 != True != 1.0), dicts regardless of key order."""
    import collections
    if type(a) is not type(b):
        return False
    if isinstance(a, dict):
        if len(a) != len(b):
            return False
        for k, v in a.items():
            hit = [k2 for k2 in b if type(k2) is type(k) and k2 == k]
            if not hit or not _strict_eq(v, b[hit[0]]):
                return False
        return True
    if isinstance(a, (list, tuple, collections.deque)):
        return len(a) == len(b) and all(_strict_eq(x, y) for x, y in zip(a, b))
    if isinstance(a, float) and a != a:
        return b != b
    import decimal
    if isinstance(a, decimal.Decimal) and a.is_nan():       # Decimal('NaN') != Decimal('NaN')
        return b.is_nan() and str(a) == str(b)
    if isinstance(a, (set, frozenset)):
        return a == b and sorted(map(repr, a)) == sorted(map(repr, b))
    if hasattr(a, "__dataclass_fields__"):
        return all(_strict_eq(getattr(a, f), getattr(b, f)) for f in a.__dataclass_fields__)
    try:
        if hasattr(a, "__dict__") and not isinstance(a, type) and vars(a) and type(a).__module__.startswith("vm_"):
            return _strict_eq(vars(a), vars(b))
        if hasattr(type(a), "__slots__") and type(a).__module__.startswith("vm_"):
            return all(_strict_eq(getattr(a, s, None), getattr(b, s, None)) for s in type(a).__slots__)
    except TypeError:
        pass
    return a == b


def _outcome(fn):
    try:
        return ("ok", fn())
    except BaseException as e:  # noqa: BLE001
        if isinstance(e, (KeyboardInterrupt, SystemExit, MemoryError)):
            raise
        return ("err", enc.err_class(e), f"{type(e).__name__}: {e}"[:160])


def _same_outcome(x, y):
    if x[0] != y[0]:
        return False
    if x[0] == "ok":
        return _strict_eq(x[1], y[1])
    return x[1] == y[1]


def _brief(o, P):
    if o[0] == "ok":
        return {"ok": enc.from_py(o[1], P)}
    return {"err": o[1], "msg": o[2]}


def _marshal(tl, v, a):
    """marshal(v, t=None) means "no annotation given"; the member annotation None is spelled NoneType."""
    return tl.marshal(v, t=type(None) if a is None else a)


class Oracle:
    """composite(x) == rebuild(member_i(x_i)), the member routines obtained independently (`typelib.unmarshal(Member_i, …)`
    builds the routine of Member_i as a root of its own), with exception parity; applied recursively."""

    def __init__(self, tl, P, budget=40):
        self.tl, self.P, self.budget = tl, P, budget
        self.checked = 0
        self.failures = []

    def um(self, a, x, path="root", depth=0):
        import collections
        if depth > 5 or self.budget <= 0:
            return
        k = _kind(_unwrap_top(a), self.P)
        if k is None:
            return
        tl = self.tl
        if k[0] == "coll":
            if type(x) not in (list, tuple, set, frozenset, collections.deque):
                return
            xs = list(x)
            members = [(f"{path}[{i}]", k[2], xi) for i, xi in enumerate(xs)]
            expect = lambda: k[1](tl.unmarshal(k[2], xi) for xi in xs)
        elif k[0] == "tuple":
            if type(x) not in (list, tuple, collections.deque):
                return
            xs = list(x)
            members = [(f"{path}[{i}]", e, xi) for i, (e, xi) in enumerate(zip(k[1], xs))]

            def expect():
                out = tuple(tl.unmarshal(e, xi) for e, xi in zip(k[1], xs))
                if len(out) != len(k[1]):
                    raise ValueError("too few members")
                return out
        elif k[0] == "dict":
            if type(x) is not dict:
                return
            items = list(x.items())
            members = [(f"{path}.key[{i}]", k[1], a_) for i, (a_, _) in enumerate(items)] + \
                      [(f"{path}[{a_!r}]", k[2], b_) for a_, b_ in items]
            expect = lambda: {tl.unmarshal(k[1], a_): tl.unmarshal(k[2], b_) for a_, b_ in items}
        else:
            cls, hints = k[1], k[2]
            if type(x) is not dict or not all(type(f) is str for f in x):
                return
            items = [(f, v) for f, v in x.items() if f in hints]
            members = [(f"{path}.{f}", hints[f], v) for f, v in items]

            def expect():
                kw = {f: tl.unmarshal(hints[f], v) for f, v in items}
                req = getattr(cls, "__required_keys__", None)
                if req is not None and isinstance(cls, type) and issubclass(cls, dict):
                    if not req <= kw.keys():
                        raise TypeError("missing required keys")
                    return dict(kw)
                return cls(**kw)
        self._judge("unmarshal", a, x, path, _outcome(lambda: tl.unmarshal(a, x)), _outcome(expect))
        for p, ma, mx in members[:6]:
            self.um(ma, mx, p, depth + 1)

    def mar(self, a, v, path="root", depth=0):
        import collections
        if depth > 5 or self.budget <= 0:
            return
        k = _kind(_unwrap_top(a), self.P)
        if k is None:
            return
        tl = self.tl
        if k[0] == "coll":
            if type(v) not in (list, tuple, set, frozenset, collections.deque):
                return
            xs = list(v)
            members = [(f"{path}[{i}]", k[2], xi) for i, xi in enumerate(xs)]
            expect = lambda: [_marshal(tl, xi, k[2]) for xi in xs]
        elif k[0] == "tuple":
            if type(v) not in (list, tuple):
                return
            xs = list(v)
            members = [(f"{path}[{i}]", e, xi) for i, (e, xi) in enumerate(zip(k[1], xs))]
            expect = lambda: [_marshal(tl, xi, e) for e, xi in zip(k[1], xs)]
        elif k[0] == "dict":
            if type(v) is not dict:
                return
            items = list(v.items())
            members = [(f"{path}[{a_!r}]", k[2], b_) for a_, b_ in items]
            expect = lambda: {_marshal(tl, a_, k[1]): _marshal(tl, b_, k[2]) for a_, b_ in items}
        else:
            cls, hints = k[1], k[2]
            if type(v) is dict and issubclass(cls, dict):
                items = [(f, b_) for f, b_ in v.items() if f in hints]
            elif type(v) is cls:
                try:
                    items = [(f, getattr(v, f)) for f in hints]
                except AttributeError:
                    return
            else:
                return
            members = [(f"{path}.{f}", hints[f], b_) for f, b_ in items]
            expect = lambda: {f: _marshal(tl, b_, hints[f]) for f, b_ in items}
        self._judge("marshal", a, v, path, _outcome(lambda: _marshal(tl, v, a)), _outcome(expect))
        for p, ma, mx in members[:6]:
            self.mar(ma, mx, p, depth + 1)

    def _judge(self, what, a, x, path, got, exp):
        self.budget -= 1
        self.checked += 1
        if not _same_outcome(got, exp):
            self.failures.append({"what": f"{what}(Composite, x) != composite rebuilt from independently converted members",
                                  "at": path, "member_annotation": repr(a)[:160], "member_input": enc.from_py(x, self.P),
                                  "composite": _brief(got, self.P), "rebuilt": _brief(exp, self.P)})


def _big_int(w):
    """An integer beyond 64 bits: the default JSON decoder (orjson) reads it as a float (assumption shared with C02/C14)."""
    if isinstance(w, bool):
        return False
    if isinstance(w, int):
        return not (-2**63 <= w < 2**63)
    if isinstance(w, dict):
        return any(_big_int(k) or _big_int(v) for k, v in w.items())
    if isinstance(w, (list, tuple)):
        return any(_big_int(x) for x in w)
    return False


def _json_exact(w):
    try:
        return not _big_int(w) and _strict_eq(json.loads(json.dumps(w)), w)
    except (TypeError, ValueError):
        return False


def source_shapes(tl, P, ann, cls, w):
    """unmarshal(C, ·) of the same field data as mapping / iterable of pairs / JSON text / instance of ANOTHER
    structured class with overlapping fields; marshal of instance vs mapping of its fields."""
    import dataclasses
    import typing
    outs = {"mapping": _outcome(lambda: tl.unmarshal(ann, dict(w))),
            "pairs": _outcome(lambda: tl.unmarshal(ann, [(k, v) for k, v in w.items()])),
            "pairs-tuple": _outcome(lambda: tl.unmarshal(ann, tuple([k, v] for k, v in w.items()))),
            # one-shot iterables of pairs: nothing may be lost while the shape of the source is being detected
            "pairs-zip": _outcome(lambda: tl.unmarshal(ann, zip(list(w), list(w.values())))),
            "pairs-generator": _outcome(lambda: tl.unmarshal(ann, ((k, v) for k, v in w.items()))),
            "pairs-iterator": _outcome(lambda: tl.unmarshal(ann, iter([(k, v) for k, v in w.items()]))),
            "items-view": _outcome(lambda: tl.unmarshal(ann, dict(w).items()))}
    if _json_exact(w):
        outs["json-text"] = _outcome(lambda: tl.unmarshal(ann, json.dumps(w)))
        outs["json-bytes"] = _outcome(lambda: tl.unmarshal(ann, json.dumps(w).encode()))
    if all(k.isidentifier() and not k.startswith("_") for k in w) and "zz_extra" not in w:
        foreign = dataclasses.make_dataclass("Foreign", [(k, typing.Any) for k in w] + [("zz_extra", typing.Any)])
        outs["foreign-instance"] = _outcome(lambda: tl.unmarshal(ann, foreign(**w, zz_extra=0)))
        outs["mapping+extra"] = _outcome(lambda: tl.unmarshal(ann, {**w, "zz_extra": 0}))
    # an instance of the class ITSELF that still holds the wire data (constructors do not validate): its fields are converted
    # like any other source's
    if isinstance(cls, type) and not issubclass(cls, dict) and set(w) <= set(typing.get_type_hints(cls)):
        own = _outcome(lambda: cls(**w))
        if own[0] == "ok" and type(own[1]) is cls:
            outs["own-class-instance-holding-wire-data"] = _outcome(lambda: tl.unmarshal(ann, own[1]))
    ref = outs["mapping"]
    bad = {k: _brief(o, P) for k, o in outs.items() if not _same_outcome(o, ref)}
    return len(outs), ({"mapping": _brief(ref, P), **bad} if bad else None)


# --------------------------------------------------------------------------- child: everything on the real library

def child(job):
    warnings.simplefilter("ignore")
    import typelib
    P = enc.Program(job["prog"])
    ts = job["root"]
    ann = P.annotation(ts)
    out = {"graphs": {}, "cases": []}
    for d, build in (("u", typelib.unmarshaller), ("m", typelib.marshaller)):
        try:
            out["graphs"][d] = {"graph": rx.extract_graph(build, ann, P)}
        except Exception as e:  # noqa: BLE001 - the routine constructor itself failed
            out["graphs"][d] = {"builderr": enc.err_class(e), "msg": f"{type(e).__name__}: {e}"[:200]}
    top = _unwrap_top(ann)
    is_struct = isinstance(top, type) and top in P.cid and P.spec["classes"][P.cid[top]]["kind"] != "enum"
    for case in job["cases"]:
        rec = {}
        orc = Oracle(typelib, P)
        mk = lambda: enc.to_py(case["val"], P)
        if case["kind"] == "valid":
            box = {}

            def m():
                box["m"] = typelib.marshal(mk(), t=ann)
                return box["m"]
            rec["mar"] = enc.run_real(m, P)
            orc.mar(ann, mk())
            if "m" in box:
                w = box["m"]
                rec["wire"] = rec["mar"]["ok"]
                rec["um"] = enc.run_real(lambda: typelib.unmarshal(ann, w), P)
                orc.um(ann, w)
                if is_struct and type(w) is dict and all(type(k) is str for k in w):
                    n, bad = source_shapes(typelib, P, ann, top, w)
                    rec["shapes"] = n
                    if bad:
                        rec["shapes_bad"] = bad
                    if not (isinstance(top, type) and issubclass(top, dict)):
                        v = mk()
                        try:
                            fields = {fn: getattr(v, fn) for fn, _ in P.spec["classes"][P.cid[top]]["fields"]}
                        except AttributeError:
                            fields = None
                        if fields is not None:
                            a_, b_ = _outcome(lambda: typelib.marshal(v, t=ann)), _outcome(lambda: typelib.marshal(fields, t=ann))
                            rec["shapes"] += 1
                            if not _same_outcome(a_, b_):
                                rec["shapes_bad"] = {"marshal(instance)": _brief(a_, P), "marshal(mapping of its fields)": _brief(b_, P)}
            rec["um_valid"] = enc.run_real(lambda: typelib.unmarshal(ann, mk()), P)
        else:
            rec["um"] = enc.run_real(lambda: typelib.unmarshal(ann, mk()), P)
            orc.um(ann, mk())
            rec["mar"] = enc.run_real(lambda: typelib.marshal(mk(), t=ann), P)
            orc.mar(ann, mk())
        rec["oracle_checked"] = orc.checked
        rec["oracle_failures"] = orc.failures[:3]
        out["cases"].append(rec)
    return out


# --------------------------------------------------------------------------- parent

def make_jobs(ctx, n_prog, depth, first=0):
    jobs = []
    for i in range(first, first + n_prog):
        g = universe.Gen(ctx.rng, universe.Cfg(max_depth=depth, unions="any"))
        prog = g.program(tag=f"c05_{i}")
        roots = adversarial(g, depth)
        conflict = union_order_conflict(prog, roots)
        for ts in roots:
            cases = []
            for _ in range(3):
                try:
                    cases.append({"kind": "valid", "val": g.value(ts, budget=depth)})
                except RecursionError:
                    pass
            for _ in range(2):
                cases.append({"kind": "junk", "val": g.junk()})
            jobs.append({"prog": prog, "root": ts, "cases": cases, "conflict": conflict})
    return jobs


def compare_compiled(real, model, path="root"):
    """The tree EXTRACTED from the real routines vs the tree of the MODEL compiler (driver op `routine.compile`,
    same node format + "ann" = the erased annotation a node serves): equal node by node — class, `.t` of leaves /
    enums / structs, `.origin`, Literal values, `nullable`, member count and order, field names in order, `required`
    as a set — up to Delayed targets: the real tree may hold `Delayed -> X` where the model holds the tree of X
    (X must be the annotation of that position).  Returns (mismatch description | None, number of such extra proxies)."""
    rc, mc = real["c"], model["c"]
    if rc.startswith("Delayed"):
        target = model["t"] if mc.startswith("Delayed") else model["ann"]
        if real.get("t") != target:
            return f"{path}: Delayed proxy resolves to {real.get('tr')} where the position is annotated {json.dumps(target)}", 0
        return None, (0 if mc.startswith("Delayed") else 1)
    if mc.startswith("Delayed"):
        return f"{path}: the model defers a class reference below itself, the real tree holds {rc}", 0
    if rc != mc:
        return f"{path}: real routine class {rc}, model {mc}", 0
    for k in ("t", "o", "nullable"):
        if k in model and real.get(k) != model[k]:
            return f"{path}: attribute {k}: real {json.dumps(real.get(k))}, model {json.dumps(model[k])}", 0
    if "required" in model and sorted(real.get("required", [])) != sorted(model["required"]):
        return f"{path}: required: real {real.get('required')}, model {model['required']}", 0
    extra = 0
    if "values" in model:
        if isinstance(model["values"], dict):
            if not isinstance(real.get("values"), dict):
                return f"{path}: no member routine in .values", 0
            bad, n = compare_compiled(real["values"], model["values"], path + ".values")
            if bad:
                return bad, 0
            extra += n
        elif real.get("values") != model["values"]:
            return f"{path}: Literal values: real {real.get('values')}, model {model['values']}", 0
    if "keys" in model:
        if not isinstance(real.get("keys"), dict):
            return f"{path}: no member routine in .keys", 0
        bad, n = compare_compiled(real["keys"], model["keys"], path + ".keys")
        if bad:
            return bad, 0
        extra += n
    if "rs" in model:
        rr = real.get("rs", [])
        if len(rr) != len(model["rs"]):
            return f"{path}: {len(rr)} member routines, model {len(model['rs'])}", 0
        for i, (a, b) in enumerate(zip(rr, model["rs"])):
            bad, n = compare_compiled(a, b, f"{path}[{i}]")
            if bad:
                return bad, 0
            extra += n
    if "fields" in model:
        rf = real.get("fields", [])
        if [k for k, _ in rf] != [k for k, _ in model["fields"]]:
            return f"{path}: fields {[k for k, _ in rf]}, model {[k for k, _ in model['fields']]}", 0
        for (k, a), (_, b) in zip(rf, model["fields"]):
            bad, n = compare_compiled(a, b, f"{path}.{k}")
            if bad:
                return bad, 0
            extra += n
    return None, extra


def _composite(ts):
    b = _body(ts)
    return b[0] in ("coll", "tuple", "dict", "cls", "union") or (b[0] == "wrap" and _composite(b[2]))


def _count_nodes(graph, pred):
    return sum(rx.count(t, pred) for _, t in graph)


def judge(res, jobs, real):
    """Second phase: one driver batch (validator, model um/mar, tree run), then bookkeeping."""
    lines, index = [], []
    for ji, (job, ro) in enumerate(zip(jobs, real)):
        if isinstance(ro, dict) and "crash" in ro:
            raise RuntimeError(f"harness: child failed: {ro}")
        lines.append({"op": "env", "env": enc.lean_env(job["prog"])})
        index.append(None)
        ty = enc.strip_hints(job["root"])
        for d in "um":
            gr = ro["graphs"][d]
            if "graph" in gr:
                lines.append({"op": "routine.graph", "dir": d, "graph": gr["graph"]})
                index.append((ji, "graph", d))
                # the root entry's key must be the root annotation itself
                lines.append({"op": "routine.validate", "dir": d, "ty": ty, "tree": gr["graph"][0][1],
                              "keys": [k for k, _ in gr["graph"] if k is not None]})
                index.append((ji, "root", d))
                # the MODEL compiler's tree of every key of the graph (root first)
                for ei, (k, _) in enumerate(gr["graph"]):
                    lines.append({"op": "routine.compile", "dir": d, "ty": ty if ei == 0 else k})
                    index.append((ji, "compile", (d, ei)))
        for ci, (case, rec) in enumerate(zip(job["cases"], ro["cases"])):
            def add(kind, op):
                lines.append(op)
                index.append((ji, kind, ci))
            if case["kind"] == "valid":
                add("m:mar", {"op": "mar", "ty": ty, "val": case["val"]})
                add("m:um_valid", {"op": "um", "ty": ty, "val": case["val"]})
                if "graph" in ro["graphs"]["m"]:
                    add("t:mar", {"op": "routine.run", "dir": "m", "tree": ro["graphs"]["m"]["graph"][0][1], "val": case["val"]})
                if "wire" in rec:
                    add("m:um", {"op": "um", "ty": ty, "val": rec["wire"]})
                    if "graph" in ro["graphs"]["u"]:
                        add("t:um", {"op": "routine.run", "dir": "u", "tree": ro["graphs"]["u"]["graph"][0][1], "val": rec["wire"]})
            else:
                add("m:um", {"op": "um", "ty": ty, "val": case["val"]})
                add("m:mar", {"op": "mar", "ty": ty, "val": case["val"]})
                if "graph" in ro["graphs"]["u"]:
                    add("t:um", {"op": "routine.run", "dir": "u", "tree": ro["graphs"]["u"]["graph"][0][1], "val": case["val"]})
    outs = lean.drive(lines)
    by_job = {}
    for ix, o in zip(index, outs):
        if ix is None:
            if "bad" in o:
                raise RuntimeError(f"driver rejected an environment: {o}")
            continue
        by_job.setdefault(ix[0], {})[(ix[1], ix[2])] = o

    for ji, (job, ro) in enumerate(zip(jobs, real)):
        mo = by_job.get(ji, {})
        prog, ts = job["prog"], job["root"]
        ann = enc.pyexpr(ts, prog)
        base = {"prog": prog, "root": ts, "ann": ann}
        unordered = enc.has_set(ts, prog)
        tagged = job["conflict"]

        def discrepancy(what, inp, real_, model_):
            """model/validator vs real: a disagreement, unless the program falls under the known finding."""
            if tagged:
                res.failures.append({"what": what, "input": inp, "real": real_, "model": model_, "finding": FINDING})
            else:
                res.disagreements.append({"what": what, "input": inp, "real": real_, "model": model_})

        # ---- (i) translation validation
        for d in "um":
            gr = ro["graphs"][d]
            case = {"ann": ann, "dir": d, "validate": True}
            res.case(case, _composite(ts))
            inp = {**base, "dir": d}
            if "builderr" in gr:
                res.count(f"validate:{d}:construction-raised")
                res.failures.append({"what": f"building the {'un' if d == 'u' else ''}marshaller of a composite annotation raised "
                                             f"{gr['msg']}", "input": inp, **({"finding": FINDING} if tagged else {})})
                continue
            res.programs += 1
            graph = gr["graph"]
            res.count("graph-entries", len(graph))
            res.count("routine-nodes", sum(rx.size(t) for _, t in graph))
            res.count("delayed-nodes", _count_nodes(graph, lambda n_: n_["c"].startswith("Delayed")))
            vg, vr = mo.get(("graph", d)), mo.get(("root", d))
            for v_, label in ((vg, "graph"), (vr, "root")):
                if v_ is None or "bad" in v_:
                    raise RuntimeError(f"driver could not decode an extracted tree: {v_} for {ann}")
            if vg["adequate"] and vr["adequate"]:
                res.count(f"validate:{d}:adequate")
            else:
                res.count(f"validate:{d}:REJECTED")
                path = vr["path"] if not vr["adequate"] else f"entry {vg['entry']}: {vg['path']}"
                entry = 0 if not vr["adequate"] else (vg["entry"] or 0)
                discrepancy(f"the validator rejects the real {'un' if d == 'u' else ''}marshaller tree at {path}", inp,
                            {"tree": graph[entry]}, {"adequate": False, "path": path})
            # ---- (i') the extracted tree against the model compiler's tree, up to Delayed targets
            for ei, (k, tree) in enumerate(graph):
                mc = mo.get(("compile", (d, ei)))
                if mc is None or "bad" in mc:
                    raise RuntimeError(f"driver: routine.compile failed: {mc} for {ann}")
                if not (mc["compilable"] and mc["adequate"]):
                    raise RuntimeError(f"harness: generated annotation outside the compiler theorem's side conditions: {ann} {mc}")
                res.case({"ann": ann, "dir": d, "compile": k}, _composite(ts))
                bad, extra = compare_compiled(tree, mc["tree"])
                if bad is None:
                    res.count(f"compile:{d}:" + ("identical" if extra == 0 else "same-up-to-delayed"))
                    res.count(f"compile:{d}:extra-proxies-in-real-tree", extra)
                else:
                    res.count(f"compile:{d}:DISAGREE")
                    discrepancy(f"the real {'un' if d == 'u' else ''}marshaller tree differs from the model compiler's at {bad}",
                                {**inp, "key": k}, {"tree": tree}, {"tree": mc["tree"]})
        # ---- (ii) behavioural correspondence, (iii) oracle
        for ci, (case, rec) in enumerate(zip(job["cases"], ro["cases"])):
            inp = {**base, "case": case}
            pairs = []
            if case["kind"] == "valid":
                pairs = [("mar", rec["mar"], case["val"], ("m:mar", "t:mar")),
                         ("um-valid", rec["um_valid"], case["val"], ("m:um_valid", None))]
                if "wire" in rec:
                    pairs.append(("um-wire", rec["um"], rec["wire"], ("m:um", "t:um")))
            else:
                pairs = [("um-junk", rec["um"], case["val"], ("m:um", "t:um")), ("mar-junk", rec["mar"], case["val"], ("m:mar", None))]
            for what, r_, val, (mk_, tk_) in pairs:
                res.case({"ann": ann, "what": what, "val": val}, _composite(ts))
                uo = unordered and what.startswith("mar")
                m_ = mo.get((mk_, ci))
                if m_ is not None:
                    if "bad" in m_:
                        raise RuntimeError(f"driver: {m_}")
                    _compare(res, what, {**inp, "val": val}, r_, m_, uo, discrepancy)
                t_ = mo.get((tk_, ci)) if tk_ else None
                if t_ is not None:
                    if "bad" in t_:
                        raise RuntimeError(f"driver: {t_}")
                    _compare(res, "tree-run:" + what, {**inp, "val": val}, r_, t_, uo, discrepancy)
            res.count("oracle:member-wise-checks", rec["oracle_checked"])
            for f in rec["oracle_failures"]:
                res.failures.append({"what": f["what"], "input": inp, "detail": f, **({"finding": FINDING} if tagged else {})})
            if "shapes" in rec:
                res.count("oracle:source-shapes", rec["shapes"])
                if "shapes_bad" in rec:
                    res.failures.append({"what": "documented source shapes of a structured class convert differently",
                                         "input": inp, "detail": rec["shapes_bad"], **({"finding": FINDING} if tagged else {})})


def _big_set(vj):
    """Does the value contain a set with two or more elements (whose iteration order is hash order)?"""
    if not isinstance(vj, list) or not vj:
        return False
    if vj[0] in ("s", "fs"):
        return len(vj[1]) >= 2 or any(_big_set(x) for x in vj[1])
    if vj[0] in ("l", "t", "dq", "it"):
        return any(_big_set(x) for x in vj[1])
    if vj[0] == "d":
        return any(_big_set(k) or _big_set(v) for k, v in vj[1])
    if vj[0] == "o":
        return any(_big_set(v) for _, v in vj[2])
    return False


def _has_union(ts, prog, seen=None):
    b = _body(ts)
    tag = b[0]
    if tag == "union":
        return True
    if tag in ("coll", "wrap"):
        return _has_union(b[2], prog, seen)
    if tag == "tuple":
        return any(_has_union(e, prog, seen) for e in b[1])
    if tag == "dict":
        return _has_union(b[1], prog, seen) or _has_union(b[2], prog, seen)
    if tag == "cls":
        seen = set() if seen is None else seen
        if b[1] in seen:
            return False
        seen.add(b[1])
        return any(_has_union(ft, prog, seen) for _, ft in prog["classes"][b[1]]["fields"])
    return False


def _compare(res, what, inp, r_, m_, unordered, discrepancy):
    if core.model_skips(m_):
        res.skipped += 1
        res.count(f"{what}:model-unsupported")
        return
    if core.same(r_, m_, unordered=unordered):
        res.count(f"{what}:agree:" + ("ok" if "ok" in r_ else r_["err"]))
        return
    if _big_set(inp["val"]) and (inp["case"]["kind"] == "junk" or _has_union(inp["root"], inp["prog"])):
        # a set handed to a positional routine (fixed tuple, mapping, struct) by a union member or as junk:
        # which element lands where is the hash order of the real set, which the model does not have
        res.skipped += 1
        res.count(f"{what}:set-order-dependent(not compared)")
        return
    res.count(f"{what}:DISAGREE")
    discrepancy(what, inp, {k: r_[k] for k in r_ if k in ("ok", "err", "msg")}, m_)


# ---- a structured SOURCE whose class has class variables / init-only variables: only its instance fields are its members
PSEUDO_SRC = """
import dataclasses, datetime, typing
@dataclasses.dataclass
class LegacyUser:
    kind: typing.ClassVar[str] = "legacy"
    id: int = 0
    name: str = ""
    joined: datetime.date = datetime.date(2020, 2, 3)
    token: dataclasses.InitVar[str] = "t"
    def __post_init__(self, token):
        pass
@dataclasses.dataclass
class User:
    id: int
    name: str
    joined: datetime.date
    kind: str = "user"
    token: str = "none"
@dataclasses.dataclass
class Team:
    lead: User
    members: typing.List[User]
    by_name: typing.Dict[str, User]
    pair: typing.Tuple[User, int]
class PlainLegacy:
    kind: typing.ClassVar[str] = "legacy"
    id: int
    name: str
    def __init__(self, id, name):
        self.id, self.name = id, name
"""


def _pseudo_child(_job):
    import sys
    import types
    import typing
    import datetime
    warnings.simplefilter("ignore")
    import typelib
    mod = types.ModuleType("vm_c05_pseudo")
    sys.modules["vm_c05_pseudo"] = mod
    ns = mod.__dict__
    exec(PSEUDO_SRC, ns)
    LU, U, T, PL = ns["LegacyUser"], ns["User"], ns["Team"], ns["PlainLegacy"]
    inst = LU(1, "ada", datetime.date(2020, 2, 3))
    mapping = {"id": 1, "name": "ada", "joined": datetime.date(2020, 2, 3)}
    pinst, pmap = PL(2, "bob"), {"id": 2, "name": "bob"}
    bad = []

    def same(label, f_inst, f_map):
        def run(f):
            try:
                return ("ok", repr(f()))
            except Exception as e:  # noqa: BLE001
                return ("err", type(e).__name__)
        a, b = run(f_inst), run(f_map)
        if "NameError" in (a[1], b[1]):
            raise RuntimeError(f"harness: {label}: NameError in the probe itself")
        if a != b:
            bad.append([label, f"from the instance: {a[1][:160]}", f"from the equal mapping: {b[1][:160]}"])
    same("unmarshal(User, <LegacyUser instance>)", lambda: typelib.unmarshal(U, inst), lambda: typelib.unmarshal(U, mapping))
    same("unmarshal(dict[str, str], <instance>)", lambda: typelib.unmarshal(typing.Dict[str, str], inst), lambda: typelib.unmarshal(typing.Dict[str, str], mapping))
    same("unmarshal(list[str], <instance>)", lambda: typelib.unmarshal(typing.List[str], inst), lambda: typelib.unmarshal(typing.List[str], list(mapping.values())))
    same("marshal(<instance>, t=dict[str, str])", lambda: typelib.marshal(inst, t=typing.Dict[str, str]), lambda: typelib.marshal(mapping, t=typing.Dict[str, str]))
    same("unmarshal(Team, members given as instances)",
         lambda: typelib.unmarshal(T, {"lead": inst, "members": [inst], "by_name": {"a": inst}, "pair": [inst, "3"]}),
         lambda: typelib.unmarshal(T, {"lead": mapping, "members": [mapping], "by_name": {"a": mapping}, "pair": [mapping, "3"]}))
    same("unmarshal(User-like dict[str, str], <plain annotated instance with a ClassVar>)",
         lambda: typelib.unmarshal(typing.Dict[str, str], pinst), lambda: typelib.unmarshal(typing.Dict[str, str], pmap))
    return bad


# ---- fields inherited from a base class of ANOTHER module: their (postponed) annotations mean what they mean in the base's module
XMOD_V1 = """
from __future__ import annotations
import dataclasses, decimal, typing
@dataclasses.dataclass
class Money:
    amount: decimal.Decimal
    currency: str = "EUR"
@dataclasses.dataclass
class Invoice:
    total: Money
    lines: typing.List[Money]
class Shipment:
    fee: Money
    def __init__(self, fee):
        self.fee = fee
    def __eq__(self, o):
        return type(o) is type(self) and vars(o) == vars(self)
"""
XMOD_V2 = """
from __future__ import annotations
import dataclasses, typing
import vm_c05_ledger_v1
@dataclasses.dataclass
class Money:
    amount: int
    currency: str = "USD"
@dataclasses.dataclass
class Invoice(vm_c05_ledger_v1.Invoice):
    tip: Money = None
    note: str = ""
class Shipment(vm_c05_ledger_v1.Shipment):
    tag: str
    def __init__(self, fee, tag="t"):
        super().__init__(fee)
        self.tag = tag
"""


def _xmod_child(_job):
    import sys
    import types
    import typing
    warnings.simplefilter("ignore")
    import typelib
    mods = {}
    for name, src in (("vm_c05_ledger_v1", XMOD_V1), ("vm_c05_ledger_v2", XMOD_V2)):
        m = types.ModuleType(name)
        sys.modules[name] = m
        exec(compile(src, name + ".py", "exec"), m.__dict__)
        mods[name] = m
    v1, v2 = mods["vm_c05_ledger_v1"], mods["vm_c05_ledger_v2"]
    bad = []
    hints = typing.get_type_hints(v2.Invoice)          # Python's own reading: total / lines name v1.Money, tip names v2.Money
    if hints["total"] is not v1.Money or hints["tip"] is not v2.Money:
        return ["harness: unexpected hints " + repr(hints)]
    wire = {"total": {"amount": "12.50"}, "lines": [{"amount": "0.25"}], "tip": {"amount": "3"}, "note": "n"}
    try:
        got = typelib.unmarshal(v2.Invoice, wire)
        want = v2.Invoice(total=typelib.unmarshal(v1.Money, wire["total"]), lines=[typelib.unmarshal(v1.Money, x) for x in wire["lines"]],
                          tip=typelib.unmarshal(v2.Money, wire["tip"]), note="n")
        if got != want or type(got.total) is not v1.Money or type(got.tip) is not v2.Money:
            bad.append(f"unmarshal(v2.Invoice, wire) = {got!r}; rebuilt from the member routines: {want!r}"[:400])
    except Exception as e:  # noqa: BLE001
        bad.append(f"unmarshal(v2.Invoice, wire) raised {type(e).__name__}: {e}"[:200])
    try:
        import decimal
        inst = v2.Invoice(total=v1.Money(decimal.Decimal("12.50")), lines=[v1.Money(decimal.Decimal("0.25"))], tip=v2.Money(3), note="n")
        got = typelib.marshal(inst)
        want = {"total": typelib.marshal(inst.total), "lines": [typelib.marshal(x) for x in inst.lines], "tip": typelib.marshal(inst.tip), "note": "n"}
        if got != want:
            bad.append(f"marshal(v2.Invoice(...)) = {got!r}; rebuilt from the member routines: {want!r}"[:400])
    except Exception as e:  # noqa: BLE001
        bad.append(f"marshal(v2.Invoice(...)) raised {type(e).__name__}: {e}"[:200])
    try:
        got = typelib.unmarshal(v2.Shipment, {"fee": {"amount": "4.5"}, "tag": 7})
        if type(got.fee) is not v1.Money or got.fee != typelib.unmarshal(v1.Money, {"amount": "4.5"}) or got.tag != "7":
            bad.append(f"unmarshal(v2.Shipment, ...) = fee {got.fee!r}, tag {got.tag!r}: the inherited field is a v1.Money"[:300])
    except Exception as e:  # noqa: BLE001
        bad.append(f"unmarshal(v2.Shipment, ...) raised {type(e).__name__}: {e}"[:200])
    return bad


def cross_module_inheritance(res):
    bad = iso.map_isolated(_xmod_child, [None], timeout=60.0)[0]
    if not isinstance(bad, list):
        raise RuntimeError(f"harness: cross-module inheritance probe failed: {bad}")
    res.case({"family": "fields-inherited-from-another-module"}, True)
    for b in bad:
        if b.startswith("harness:"):
            raise RuntimeError(b)
        res.failures.append({"what": b, "input": {"xmod": True}})
    if not bad:
        res.count("oracle:inherited-fields-converted-by-the-base-module's-types", 3)


def pseudo_field_sources(res):
    bad = iso.map_isolated(_pseudo_child, [None], timeout=60.0)[0]
    if not isinstance(bad, list):
        raise RuntimeError(f"harness: pseudo-field source probe failed: {bad}")
    res.case({"family": "source-with-classvar-and-initvar"}, True)
    for label, a, b in bad:
        res.failures.append({"what": f"{label} converts differently from the equal mapping: {a}; {b}", "input": {"pseudo_source": label}})
    if not bad:
        res.count("oracle:source-class-variables-are-not-members", 6)


# ---- structured classes that also have protocol methods (callable, sized, by-name subscription, ** unpacking): the members are still
# converted by the routines of their own annotated types, in both directions
PROTO_SRC = """
import dataclasses, datetime, decimal, typing
class Scale:
    def __init__(self, factor: decimal.Decimal, offset: int = 0, since: datetime.date = datetime.date(2020, 1, 1)):
        self.factor, self.offset, self.since = factor, offset, since
    def __call__(self, x):
        return x
@dataclasses.dataclass
class Gauge:
    factor: decimal.Decimal
    offset: int = 0
    since: datetime.date = datetime.date(2020, 1, 1)
    def __len__(self):
        return self.offset
    def __getitem__(self, k):
        return getattr(self, k)
    def keys(self):
        return ["factor", "offset", "since"]
@dataclasses.dataclass
class Holder:
    label: str
    items: typing.Dict[str, Scale] = dataclasses.field(default_factory=dict)
    gauges: typing.List[Gauge] = dataclasses.field(default_factory=list)
import typing_extensions
class ExtStamp(typing_extensions.TypedDict):
    # declared through the backport (ReadOnly, NotRequired on older interpreters): a TypedDict like any other
    when: datetime.date
    count: int
@dataclasses.dataclass
class StampHolder:
    stamp: ExtStamp
    stamps: typing.List[ExtStamp] = dataclasses.field(default_factory=list)
"""


def _proto_child(_job):
    import sys
    import types
    import warnings
    warnings.simplefilter("ignore")
    import dataclasses
    import datetime
    import decimal
    import typing
    import typelib
    mod = types.ModuleType("vm_c05_proto")
    sys.modules["vm_c05_proto"] = mod
    exec(compile(PROTO_SRC, "vm_c05_proto.py", "exec", dont_inherit=True), mod.__dict__)
    bad = []
    wire = {"factor": "2.50", "offset": "3", "since": "2024-02-29"}
    exp = {"factor": typelib.unmarshal(decimal.Decimal, "2.50"), "offset": typelib.unmarshal(int, "3"),
           "since": typelib.unmarshal(datetime.date, "2024-02-29")}
    mexp = {"factor": typelib.marshal(exp["factor"]), "offset": 3, "since": typelib.marshal(exp["since"])}

    def fields(o):
        return {k: getattr(o, k) for k in ("factor", "offset", "since")}
    for cls in (mod.Scale, mod.Gauge):
        for label, src in (("mapping", wire), ("pairs", list(wire.items())), ("JSON text", '{"factor": "2.50", "offset": "3", "since": "2024-02-29"}')):
            try:
                got = fields(typelib.unmarshal(cls, src))
            except Exception as e:  # noqa: BLE001
                got = f"raised {type(e).__name__}"
            if got != exp or (isinstance(got, dict) and any(type(got[k]) is not type(exp[k]) for k in exp)):
                bad.append(f"unmarshal({cls.__name__}, <{label}>) has members {got!r}; by their own routines: {exp!r}")
        try:
            m = typelib.marshal(cls(**exp))
        except Exception as e:  # noqa: BLE001
            m = f"raised {type(e).__name__}"
        if m != mexp:
            bad.append(f"marshal({cls.__name__}(...)) = {m!r}; members by their own routines: {mexp!r}")
    sw, sv = {"when": "2021-03-04", "count": "7"}, {"when": typelib.unmarshal(datetime.date, "2021-03-04"), "count": typelib.unmarshal(int, "7")}
    sm = {"when": typelib.marshal(sv["when"]), "count": 7}
    for label, f, want in (("unmarshal(ExtStamp, <mapping>)", lambda: typelib.unmarshal(mod.ExtStamp, dict(sw)), sv),
                           ("unmarshal(ExtStamp, <pairs>)", lambda: typelib.unmarshal(mod.ExtStamp, list(sw.items())), sv),
                           ("marshal(<ExtStamp value>, t=ExtStamp)", lambda: typelib.marshal(dict(sv), t=mod.ExtStamp), sm),
                           ("unmarshal(List[ExtStamp], ...)", lambda: typelib.unmarshal(typing.List[mod.ExtStamp], [dict(sw)]), [sv]),
                           ("unmarshal(StampHolder, ...)", lambda: dataclasses.asdict(typelib.unmarshal(mod.StampHolder, {"stamp": dict(sw), "stamps": [dict(sw)]})),
                            {"stamp": sv, "stamps": [sv]}),
                           ("marshal(StampHolder(...))", lambda: typelib.marshal(mod.StampHolder(dict(sv), [dict(sv)])), {"stamp": sm, "stamps": [sm]})):
        try:
            got = f()
        except Exception as e:  # noqa: BLE001
            got = f"raised {type(e).__name__}"
        if got != want:
            bad.append(f"{label} = {got!r}; members by their own routines: {want!r}")
    try:
        h = typelib.unmarshal(mod.Holder, {"label": 7, "items": {"k": wire}, "gauges": [wire]})
        got = (h.label, fields(h.items["k"]), fields(h.gauges[0]))
    except Exception as e:  # noqa: BLE001
        got = f"raised {type(e).__name__}: {e}"[:200]
    if got != ("7", exp, exp):
        bad.append(f"unmarshal(Holder, ...) has members {got!r}; by their own routines: {('7', exp, exp)!r}")
    try:
        hm = typelib.marshal(mod.Holder("h", {"k": mod.Scale(**exp)}, [mod.Gauge(**exp)]))
    except Exception as e:  # noqa: BLE001
        hm = f"raised {type(e).__name__}: {e}"[:200]
    if hm != {"label": "h", "items": {"k": mexp}, "gauges": [mexp]}:
        bad.append(f"marshal(Holder(...)) = {hm!r}")
    return bad


def protocol_method_classes(res):
    bad = iso.map_isolated(_proto_child, [None], timeout=60.0)[0]
    if not isinstance(bad, list):
        raise RuntimeError(f"harness: protocol-method class probe failed: {bad}")
    res.case({"family": "structured-class-with-protocol-methods"}, True)
    for b in bad:
        res.failures.append({"what": b, "input": {"proto": True}})
    if not bad:
        res.count("oracle:members-of-callable/sized/record-like-classes-converted-by-their-own-types", 10)


# ---- members annotated by a DOTTED name (`shapes.Point`) on the constructor of a class of a package module, where the head of the
# name is the module's own import (`from pkg import shapes`) and an unrelated top-level module of the same name is loaded as well
DOTTED_FILES = {
    "shapes.py": "import dataclasses\n@dataclasses.dataclass\nclass Point:\n    x: str = ''\n    y: str = ''\n",
    "c05_acme/__init__.py": "",
    "c05_acme/shapes.py": "import dataclasses\n@dataclasses.dataclass\nclass Point:\n    x: float\n    y: float\n    label: str = ''\n",
    "c05_acme/models.py": (
        "from __future__ import annotations\nimport dataclasses, typing\nfrom c05_acme import shapes\nimport c05_acme.shapes as geo\n"
        "class Marker:\n    def __init__(self, at: shapes.Point, name: str = ''):\n        self.at, self.name = at, name\n"
        "class Route:\n    def __init__(self, start: geo.Point, stops: typing.List[shapes.Point] = ()):\n        self.start, self.stops = start, stops\n"
        "@dataclasses.dataclass\nclass Pin:\n    at: shapes.Point\n    tag: str = ''\n"),
}


@iso.tmp_cleaned
def _dotted_child(_job):
    import importlib
    import os
    import sys
    import tempfile
    import warnings
    warnings.simplefilter("ignore")
    d = tempfile.mkdtemp(prefix="c05dot")
    os.makedirs(os.path.join(d, "c05_acme"))
    for name, src in DOTTED_FILES.items():
        with open(os.path.join(d, name), "w") as f:
            f.write(src)
    sys.path.insert(0, d)
    top = importlib.import_module("shapes")
    models, inner = importlib.import_module("c05_acme.models"), importlib.import_module("c05_acme.shapes")
    import typelib
    bad = []
    pt = {"x": "1.5", "y": "2", "label": 7}
    want = typelib.unmarshal(inner.Point, pt)
    for label, t, src, pick in (
            ("Marker(at: shapes.Point)", models.Marker, {"at": pt, "name": "m"}, lambda r: [r.at]),
            ("Marker from JSON text", models.Marker, '{"at": {"x": "1.5", "y": "2", "label": 7}, "name": "m"}', lambda r: [r.at]),
            ("Marker from pairs", models.Marker, [("at", pt), ("name", "m")], lambda r: [r.at]),
            ("Route(start: geo.Point, stops: List[shapes.Point])", models.Route, {"start": pt, "stops": [pt, pt]}, lambda r: [r.start, *r.stops]),
            ("Pin(at: shapes.Point) dataclass", models.Pin, {"at": pt}, lambda r: [r.at]),
            ("List[Marker]", __import__("typing").List[models.Marker], [{"at": pt}], lambda r: [r[0].at])):
        try:
            got = pick(typelib.unmarshal(t, src))
            if any(type(g) is not inner.Point or g != want for g in got):
                bad.append(f"unmarshal({label}): members {got!r}; by their own routine (c05_acme.shapes.Point): {want!r}"[:300])
        except Exception as e:  # noqa: BLE001
            bad.append(f"unmarshal({label}) raised {type(e).__name__}: {e}; the member's own routine gives {want!r}"[:300])
    try:
        m = typelib.marshal(models.Marker(want, "m"))
        if m != {"at": typelib.marshal(want), "name": "m"}:
            bad.append(f"marshal(Marker(...)) = {m!r}; the member's own routine gives {typelib.marshal(want)!r}"[:300])
    except Exception as e:  # noqa: BLE001
        bad.append(f"marshal(Marker(...)) raised {type(e).__name__}: {e}"[:300])
    del top
    return bad


# ---- several classes of ONE module and ONE qualified name in a process (a class factory, a module executed again): each is converted
# by the members IT declares
def _samename_child(_job):
    import dataclasses
    import datetime
    import decimal
    import typing
    import warnings
    warnings.simplefilter("ignore")
    import typelib

    # (this file has postponed annotations: the member types are given as objects, not through annotation syntax)
    def envelope_of(T):
        C = dataclasses.make_dataclass("Envelope", [("payload", T), ("note", str, "")])
        C.__module__ = __name__
        return C

    def init_of(T):
        class Packet:
            def __init__(self, payload, size=0):
                self.payload, self.size = payload, size
        Packet.__qualname__ = "Packet"
        Packet.__init__.__annotations__ = {"payload": T, "size": int}
        return Packet

    def td_of(T):
        return typing.TypedDict("Span", {"start": T, "stop": T})
    bad = []
    cases = [(decimal.Decimal, "1.50"), (datetime.date, "2020-02-29"), (typing.List[int], ["1", "2"]), (typing.Tuple[int, datetime.date], ["7", "2020-02-29"]),
             (int, "5"), (str, 5), (typing.Optional[datetime.date], "2021-03-04")]
    for make, build, read in ((envelope_of, lambda C, w: {"payload": w, "note": 3}, lambda r: r.payload),
                              (init_of, lambda C, w: {"payload": w, "size": "2"}, lambda r: r.payload),
                              (td_of, lambda C, w: {"start": w, "stop": w}, lambda r: r["stop"])):
        for T, wire in cases:
            C = make(T)
            want = typelib.unmarshal(T, wire)
            try:
                got = read(typelib.unmarshal(C, build(C, wire)))
                if got != want or type(got) is not type(want):
                    bad.append(f"unmarshal({C.__qualname__} with a member of type {T}): member {got!r}; by its own routine: {want!r}"[:300])
                if make is not td_of:
                    inst = C(want)
                    m = typelib.marshal(inst)["payload"]
                    if m != typelib.marshal(want, t=T):
                        bad.append(f"marshal({C.__qualname__} with a member of type {T}): member {m!r}; by its own routine: {typelib.marshal(want, t=T)!r}"[:300])
            except Exception as e:  # noqa: BLE001
                bad.append(f"{C.__qualname__} with a member of type {T} raised {type(e).__name__}: {e}"[:300])
    return bad


def same_name_probe(res):
    bad = iso.map_isolated(_samename_child, [None], timeout=60.0)[0]
    if not isinstance(bad, list):
        raise RuntimeError(f"harness: same-name class probe failed: {bad}")
    res.case({"family": "classes-sharing-module-and-qualified-name"}, True)
    for b in bad:
        res.failures.append({"what": b, "input": {"same_name": True}})
    if not bad:
        res.count("oracle:same-named-classes-converted-by-their-own-members", 21)


def dotted_member_probe(res):
    bad = iso.map_isolated(_dotted_child, [None], timeout=60.0)[0]
    if not isinstance(bad, list):
        raise RuntimeError(f"harness: dotted-member probe failed: {bad}")
    res.case({"family": "member-annotated-by-dotted-name"}, True)
    for b in bad:
        res.failures.append({"what": b, "input": {"dotted": True}})
    if not bad:
        res.count("oracle:dotted-member-annotations-converted-by-the-class-they-name", 7)


def explore(ctx):
    res = Result()
    res.rule = RULE
    depth = 3 if ctx.tier == "quick" else 4
    n = ctx.n(90, 1200)
    core.import_typelib()
    done = 0
    while done < n:
        # in chunks: the parent stays small (cheap forks) and every chunk is one driver batch
        k = min(100, n - done)
        jobs = make_jobs(ctx, k, depth, first=done)
        real = iso.map_isolated(child, jobs, timeout=120.0)
        judge(res, jobs, real)
        done += k
    res.extra["trees_validated"] = res.programs
    res.extra["module_sets"] = n
    pseudo_field_sources(res)
    cross_module_inheritance(res)
    protocol_method_classes(res)
    dotted_member_probe(res)
    same_name_probe(res)
    return res


def witness(fid):
    """Does the recorded witness of the known finding still fail on the real library?  (fresh fork: the
    routine caches are process-wide)"""
    if fid != FINDING:
        return None
    core.import_typelib()

    def w(_):
        import dataclasses
        import typing
        import typelib

        C = dataclasses.make_dataclass("C", [("a", typing.Union[int, str]), ("b", typing.Union[str, int])])
        got = typelib.unmarshal(C, {"a": "5", "b": "5"})
        alone = "5"     # what unmarshal(Union[str, int], "5") gives in a cold process: str accepts first
        return got.b != alone
    out = iso.map_isolated(w, [0])[0]
    return bool(out) if isinstance(out, bool) else None


def replay(failure):
    inp = failure["input"]
    if "xmod" in inp:
        bad = iso.map_isolated(_xmod_child, [None], timeout=60.0)[0]
        print(json.dumps({"differences": bad}, indent=1))
        return bool(bad)
    if "same_name" in inp:
        bad = iso.map_isolated(_samename_child, [None], timeout=60.0)[0]
        print(json.dumps(bad, indent=1, default=str)[:3000])
        return bool(bad)
    if "dotted" in inp:
        bad = iso.map_isolated(_dotted_child, [None], timeout=60.0)[0]
        print(json.dumps(bad, indent=1, default=str)[:3000])
        return bool(bad)
    if "proto" in inp:
        bad = iso.map_isolated(_proto_child, [None], timeout=60.0)[0]
        print(json.dumps({"differences": bad}, indent=1))
        return bool(bad)
    if "pseudo_source" in inp:
        bad = iso.map_isolated(_pseudo_child, [None], timeout=60.0)[0]
        print(json.dumps({"sources converting differently from the equal mapping": bad}, indent=1))
        return bool(bad)
    cases = [inp["case"]] if "case" in inp else []
    job = {"prog": inp["prog"], "root": inp["root"], "cases": cases,
           "conflict": union_order_conflict(inp["prog"], [inp["root"]])}
    core.import_typelib()
    real = iso.map_isolated(child, [job], timeout=120.0)
    res = Result()
    judge(res, [job], real)
    ro = real[0]
    show = {"annotation": inp.get("ann"), "case": inp.get("case"),
            "validator": [d["what"] for d in res.disagreements if d["what"].startswith("the validator")],
            "disagreements": [{"what": d["what"], "real": d["real"], "model": d["model"]} for d in res.disagreements
                              if not d["what"].startswith("the validator")][:4],
            "oracle": [f.get("detail", f["what"]) for f in res.failures][:4],
            "real": ro["cases"][0] if ro.get("cases") else None}
    for k, v in show.items():
        print(f"{k}: " + json.dumps(v, default=str)[:1500])
    return bool(res.failures or res.disagreements)
