"""C14 — Text-like inputs are interchangeable."""
from __future__ import annotations

import json

from .. import core, enc, lean, universe
from ..runner import Result

ID = "C14"
LEVEL = "proof"
LEVEL_TEXT = ("Theorems over the executable model (Props/C14.lean): `decode` and `load` do not depend on the text carrier "
              "(str / bytes / bytearray / memoryview r/o / memoryview writable), hence `um T (text c s) = um T (str s)` for every "
              "annotation without bytes-like members, every carrier and every string (induction over the annotation: every "
              "routine starts with decode or load); `load` returns non-text inputs untouched. The modelled strload agrees with "
              "the real one on the JSON / plain-word fragment (correspondence); outside that fragment the direct oracle still "
              "runs: all five carriers plus a read-only view of a mutable buffer (oracle-only sixth carrier) equal-or-all-reject on the real library, JSON / literal text of a wire value equivalent "
              "to the decoded value, load/strload equal to json.loads on JSON text and identity on non-JSON non-literal text. "
              "JSON round trip proved (Lemmas/JsonRT.lean): for every plain wire value w (plainWire: None/bool/64-bit int/str without "
              "control characters other than \\n\\r\\t\\b\\f/list/dict with distinct str keys) the modelled strload reads back the model's "
              "printer, strload?(renderJson w) = w, also with Python's default separators; hence load(text of w) = w for every carrier and "
              "um T (text of w) = um T w for every collection / tuple / mapping / structured T and non-str w (um_json_text), and for "
              "unions of them when w is a list or dict (um_json_text_union). The printer and its domain predicate are tied to "
              "json.dumps(separators=(',',':'), ensure_ascii=False) / json.dumps(ensure_ascii=False) and to a Python re-implementation of "
              "the predicate by a differential pass; the texts of the plain values go through the real strload/load.")
LEVEL_NOTE = ("Trusted: Lean kernel, standard axioms; model tied by correspondence; orjson / ast.literal_eval are modelled on a "
              "fragment only (strings outside it are reported as unsupported by the model and judged by the oracle alone).")
TECHNIQUE = "Lean 4 theorems (carrier independence by induction on the annotation) + correspondence of the strload fragment + five-carrier / text-equivalence oracle"
DESIGN_REF = "DESIGN.md §5 C14"
MODULES = ["TypelibModel.Props.C14", "TypelibModel.Props.Dispatch", "TypelibModel.Lemmas.JsonRT"]
TABLES = True
RULE = ("strings: wire forms of valid values rendered by json.dumps and repr, numeric/boolean/null look-alikes, malformed JSON, "
        "control characters, non-ASCII; each given in the five carriers to unmarshal(T, .) for T in U; non-trivial = string "
        "of length > 1 or composite annotation; JSON printer pass: random wire values of depth <= 3 over an alphabet of quotes, "
        "backslashes, control characters, DEL, non-ASCII, JSON punctuation, 64-bit boundary integers, repeated / non-str keys")
ASSUMPTIONS = ["bytes carriers hold the UTF-8 encoding of the string",
               "integers in JSON text stay within 64 bits (the default decoder, orjson, reads larger ones as floats; C02 states the same range)"]
TRUSTED = ["harness encoders/generators", "hand-written model tied by correspondence"]

EXTRA_STRS = ["[1, 2", '{"a": }', "{'a': 1}", "nul", "tru", "NaN", "Infinity", "-", "1e5", "0x10", "1_0", "\x00", "a\tb", "\x7f",
              "éè", "日本語", "\U0001f600", '"\\u00e9"', "[1,]", "01", "1.", ".5", "- 1", "(1)", "[1] ", " [1]", "b'x'", "1j",
              "{1, 2}", "None", "True", "1,2", "''", '""', "[[]]", '{"a": {"b": [1, null, true]}}', "hello", "hello world", "a-b", "2020-01-02"]


def make_ops(depth):
    def f(g, prog):
        ops = []
        for _ in range(2):
            ts = g.ty(depth)
            for _ in range(3):
                s = g.r.choice(universe.STRS + EXTRA_STRS)
                ops.append({"op": "um", "ty": ts, "val": s, "obs": ["carriers"]})
                ops.append({"op": "um", "ty": ts, "val": ["b", g.r.choice(["bytes", "bytearray", "mview", "mviewW"]), s]})
            v = g.value(ts, budget=depth)
            ops.append({"op": "rt", "ty": ts, "val": v})
        for _ in range(3):
            ops.append({"op": "strload", "s": g.r.choice(universe.STRS + EXTRA_STRS)})
        return ops
    return f


def lookalike_jobs():
    """Types whose members or alternatives contain a text AND what that text reads as (Literal['1', 1], str | int, an enum with values
    '1' and 1, ...): every carrier of the text must pick the same one."""
    lits = [["1", 1], [1, "1"], ["true", 1], ["True", True], ["None", None], ["null", None], ["1.0", 1], ["1", True], ["[1]", "x"],
            ["0", False], ["null", "x"]]
    ops = []
    for vals in lits:
        for s in [v for v in vals if isinstance(v, str)] + ["1", "null", "true"]:
            lit = ["lit", vals]
            for ts in (lit, ["union", [lit, ["none"]], {"sp": "optional"}], ["coll", "list", lit, {"sp": "builtin"}]):
                v = s if ts[0] != "coll" else json.dumps([s])
                ops.append({"op": "um", "ty": ts, "val": v, "obs": ["carriers"]})
    jobs = [{"prog": {"classes": [], "aliases": {}}, "ops": ops}]
    # one job (= one process) per union: two orders of one member set share the routine caches (finding unionOrderKey)
    for ts in (["union", [["str"], ["int"]], {"sp": "typing"}], ["union", [["int"], ["str"]], {"sp": "pipe"}],
               ["union", [["str"], ["none"]], {"sp": "optional"}], ["union", [["float"], ["str"], ["none"]], {"sp": "typing"}]):
        jobs.append({"prog": {"classes": [], "aliases": {}},
                     "ops": [{"op": "um", "ty": ts, "val": s, "obs": ["carriers"]} for s in ("1", "null", "true", "1.5", "None", " 7 ", "abc")]})
    # strings of "special" byte lengths for types whose constructor takes alternative raw forms (a 16-byte packed UUID, ...)
    sized = ["1234567890123456", "abcdefghijklmnop", "\u00e9" * 8, "123456789012345", "12345678901234567", "0" * 32, "a" * 32,
             "00000000-0000-0000-0000-000000000001", "{00000000-0000-0000-0000-000000000001}", "1" * 16, "12345678", "1234"]
    tys = [["uuid"], ["union", [["uuid"], ["none"]], {"sp": "optional"}], ["decimal"], ["int"], ["float"], ["path"], ["date"], ["timedelta"],
           ["union", [["int"], ["uuid"]], {"sp": "typing"}]]
    jobs.append({"prog": {"classes": [], "aliases": {}},
                 "ops": [{"op": "um", "ty": ts, "val": s_, "obs": ["carriers"]} for ts in tys for s_ in sized]})
    # enum members whose str value reads as JSON / a literal of another type: found from the text itself, in every carrier
    def en(cid, name, members):
        return {"id": cid, "name": name, "qualname": name, "module": "vm_c14_enum", "kind": "enum", "mixin": "none",
                "members": [[f"m{i}", v] for i, v in enumerate(members)], "fields": [], "required": [], "defaults": []}
    eprog = {"classes": [en(0, "Version", ["1", "3.14", "true", "null", "1,2", "stable", "v1.2", "[1]"]), en(1, "Level", [1, 2, 10])], "aliases": {}}
    eops = [{"op": "um", "ty": ts, "val": s_, "obs": ["carriers"]}
            for ts in (["enum", 0], ["union", [["enum", 0], ["none"]], {"sp": "optional"}], ["coll", "list", ["enum", 0], {"sp": "builtin"}])
            for s_ in ("1", "3.14", "true", "null", "1,2", "stable", "v1.2", "[1]", "nope")]
    eops = [dict(o, val=(o["val"] if o["ty"][0] != "coll" else json.dumps([o["val"]]))) for o in eops]
    eops += [{"op": "um", "ty": ["enum", 1], "val": s_, "obs": ["carriers"]} for s_ in ("1", "2", "10", "3", "1.0")]
    jobs.append({"prog": eprog, "ops": eops})
    return jobs


# ---- JSON printer of the model (Model/JsonText.lean) vs json.dumps; its domain predicate vs a re-implementation ----

JSON_ALPHABET = ["a", "b", "z", '"', "\\", "/", "\n", "\r", "\t", "\b", "\f", "\x00", "\x01", "\x0b", "\x1f", "\x7f", " ", "\u00e9",
                 "\u65e5", "\U0001f600", "\u2028", "{", "}", "[", "]", ":", ",", "0", "7", "-", ".", "e", "E", "u", "n", "t", "f", "'"]
JSON_INTS = [0, 1, -1, 7, 10, -10, 42, 100, 12345678901234567890 % 2**63, 2**63 - 1, 2**63, -2**63, -2**63 - 1, 2**64 - 1, 2**64,
             10**30, -10**30]


def _ok_char(ch):
    return ord(ch) >= 32 or ch in "\n\r\t\b\f"


def py_plain_wire(w):
    """Python re-implementation of `plainWire` (Model/JsonText.lean) on the harness encoding of values."""
    if w is None or isinstance(w, bool):
        return True
    if isinstance(w, int):
        return -2**63 <= w <= 2**64 - 1
    if isinstance(w, str):
        return all(_ok_char(c) for c in w)
    if isinstance(w, list) and len(w) == 2 and w[0] == "l":
        return all(py_plain_wire(x) for x in w[1])
    if isinstance(w, list) and len(w) == 2 and w[0] == "d":
        keys = [k for k, _ in w[1]]
        return (all(isinstance(k, str) and all(_ok_char(c) for c in k) for k in keys) and len(set(keys)) == len(keys)
                and all(py_plain_wire(v) for _, v in w[1]))
    return False


def wire_py(w):
    """The Python object of a wire value in the printer's shape (None/bool/int/str/list/dict with distinct str keys), else
    raises ValueError (floats, non-str keys and repeated keys have no counterpart / no agreed text)."""
    if w is None or isinstance(w, (bool, int, str)):
        return w
    if isinstance(w, list) and len(w) == 2 and w[0] == "l":
        return [wire_py(x) for x in w[1]]
    if isinstance(w, list) and len(w) == 2 and w[0] == "d":
        keys = [k for k, _ in w[1]]
        if not all(isinstance(k, str) for k in keys) or len(set(keys)) != len(keys):
            raise ValueError("keys")
        return {k: wire_py(v) for k, v in w[1]}
    raise ValueError("shape")


def gen_wire(r, depth):
    k = r.random()
    if depth <= 0 or k < 0.4:
        j = r.random()
        if j < 0.12:
            return None
        if j < 0.24:
            return r.random() < 0.5
        if j < 0.5:
            return r.choice(JSON_INTS) if r.random() < 0.6 else r.randrange(-10**6, 10**6)
        if j < 0.97:
            return "".join(r.choice(JSON_ALPHABET) for _ in range(r.choice([0, 1, 1, 2, 3, 5])))
        return ["f", r.choice(["1.5", "0.0", "-2.25"])]
    if k < 0.7:
        return ["l", [gen_wire(r, depth - 1) for _ in range(r.choice([0, 1, 2, 3, 4]))]]
    items = []
    for _ in range(r.choice([0, 1, 2, 3])):
        j = r.random()
        if j < 0.04 and items:
            key = items[0][0]                       # a repeated key: only the encoding can carry it
        elif j < 0.07:
            key = r.choice([1, None, True])         # a non-str key
        else:
            key = "".join(r.choice(JSON_ALPHABET) for _ in range(r.choice([0, 1, 1, 2, 3])))
        items.append([key, gen_wire(r, depth - 1)])
    return ["d", items]


def json_render_pass(ctx, res, extra_wires):
    """Model printer / domain predicate against json.dumps / the Python predicate; returns the JSON texts of the plain values
    (for the strload pass on the real library)."""
    n = ctx.n(400, 4000)
    wires = [gen_wire(ctx.rng, 3) for _ in range(n)] + list(extra_wires)
    outs = lean.drive([{"op": "json.render", "val": w} for w in wires])
    texts = []
    for w, m_ in zip(wires, outs):
        if "bad" in m_:
            raise RuntimeError(f"harness: json.render: {m_}")
        case = {"json.render": w}
        res.case(case, isinstance(w, list))
        pp = py_plain_wire(w)
        if m_["plain"] != pp:
            res.count("json.render:DISAGREE")
            res.disagreements.append({"what": "plainWire vs Python predicate", "input": {"val": w}, "real": pp, "model": m_["plain"]})
            continue
        try:
            o = wire_py(w)
        except ValueError:
            res.count("json.render:predicate-only")
            continue
        t1 = json.dumps(o, separators=(",", ":"), ensure_ascii=False)
        t2 = json.dumps(o, ensure_ascii=False)
        if m_["text"] != t1 or m_["text_sp"] != t2:
            res.count("json.render:DISAGREE")
            res.disagreements.append({"what": "renderJson vs json.dumps", "input": {"val": w}, "real": [t1, t2],
                                      "model": [m_["text"], m_["text_sp"]]})
            continue
        res.count("json.render:agree:" + ("plain" if pp else "outside-fragment"))
        if pp:
            # the theorem's instance, executed by the compiled model: strload(render w) = w
            for k in ("strload", "strload_sp"):
                if not ("ok" in m_[k] and enc.canon(m_[k]["ok"]) == enc.canon(w)):
                    res.disagreements.append({"what": f"model {k}(renderJson w) != w", "input": {"val": w}, "real": {"ok": w}, "model": m_[k]})
            texts.append(t1 if len(texts) % 2 == 0 else t2)
    return texts


# ---- JSON texts that spell characters with ESCAPES (what json.dumps(ensure_ascii=True), PHP's json_encode, ... emit): JSON text is read
#      by the JSON grammar -- a surrogate pair is one character, \/ is a slash -- in every carrier; no true / false / null in the documents
ESC_SRC = """
import dataclasses, typing
@dataclasses.dataclass
class Post:
    title: str
    tags: typing.List[str]
    note: str = "n"
"""
ESC_CASES = [("typing.List[str]", ["\U0001f600"]), ("typing.Dict[str, int]", {"\U0001d11e": 1}), ("typing.Tuple[int, str]", [1, "\U0001f680"]),
             ("Post", {"title": "hi \U0001f600", "tags": ["x"], "note": "n"}), ("typing.List[str]", ["http://example.com/a"]),
             ("typing.Dict[str, typing.List[str]]", {"k/\U0001f600": ["\u00e9", "a/b"]}), ("typing.List[Post]", [{"title": "\U0001f600/", "tags": []}])]


def _esc_child(case):
    import json as _json
    import sys
    import types
    import warnings
    warnings.simplefilter("ignore")
    import typelib
    from typelib import serdes
    mod = types.ModuleType("vm_c14_esc")
    sys.modules["vm_c14_esc"] = mod
    ns = mod.__dict__
    exec(ESC_SRC, ns)
    t, m = eval(case[0], ns), case[1]
    texts = [_json.dumps(m), _json.dumps(m).replace("/", "\\/"), _json.dumps(m, ensure_ascii=False).replace("/", "\\/")]
    bad = []
    want = repr(typelib.unmarshal(t, m))
    for txt in texts:
        assert _json.loads(txt) == m
        for name, mk in (("str", lambda s_: s_), ("bytes", lambda s_: s_.encode()), ("bytearray", lambda s_: bytearray(s_.encode())),
                         ("memoryview(bytes)", lambda s_: memoryview(s_.encode())), ("memoryview(bytearray)", lambda s_: memoryview(bytearray(s_.encode())))):
            try:
                got = repr(typelib.unmarshal(t, mk(txt)))
            except Exception as e:  # noqa: BLE001
                got = f"raised {type(e).__name__}"
            if got != want:
                bad.append(f"unmarshal({case[0]}, {name} {txt!r}) = {got[:120]}, from the decoded value: {want[:120]}")
            for fname, f in (("load", serdes.load), ("strload", serdes.strload)):
                try:
                    lv = f(mk(txt))
                except Exception as e:  # noqa: BLE001
                    lv = f"raised {type(e).__name__}"
                if lv != m:
                    bad.append(f"serdes.{fname}({name} {txt!r}) = {lv!r:.120}, json.loads gives {m!r:.120}")
    return bad


# ---- numbers spelled with non-ASCII digits / padded with Unicode whitespace: int(str) and float(str) read them, so every carrier does
UNI_NUMS = ["\u0661\u0662\u0663", "\uff14\uff12", "\xa07", "7\u2003", "\u0967.\u096b", " 42 ", "1_000", "\u0665e2", "-\u0663",
            # a leading U+FEFF is an ordinary character of the text (a str never loses it), whatever the carrier
            "\ufeff12", "\ufeffa", "\ufeff[1, 2]", "\ufeff{\"a\": 1}", "a\ufeffb", "\ufeffh\u00e9llo",
            # ordinary texts (for the str-subclass targets below: the text, not the carrier object, becomes the value)
            "abc", "", "null", "true", "1.5", "h\u00e9llo"]
UNI_TYPES = ["int", "float", "typing.Optional[int]", "typing.Union[int, str]", "typing.Union[float, str]", "decimal.Decimal", "fractions.Fraction",
             "typing.List[int]", "bool", "str", "typing.Literal['a', 'b']", "pathlib.PurePosixPath", "typing.Dict[str, int]", "LOAD", "STRLOAD",
             # user-defined subclasses of str (and of int): targets like any other scalar
             "Tag", "NTag", "typing.Optional[Tag]", "typing.Union[int, Tag]", "typing.List[Tag]", "typing.Dict[Tag, int]", "Count",
             # temporal and other text-parsed targets: a numeric text is a number (of seconds, ...) in every carrier or in none
             "datetime.timedelta", "datetime.datetime", "datetime.date", "datetime.time", "typing.Optional[datetime.timedelta]",
             "typing.List[datetime.timedelta]", "typing.Union[datetime.timedelta, str]", "uuid.UUID", "complex"]


def _uni_child(_job):
    import decimal
    import fractions
    import typing
    import warnings
    warnings.simplefilter("ignore")
    import typelib
    import pathlib
    from typelib import serdes
    import datetime
    import uuid
    ns = {"typing": typing, "decimal": decimal, "fractions": fractions, "pathlib": pathlib, "datetime": datetime, "uuid": uuid}
    exec("class Tag(str):\n    pass\nclass Count(int):\n    pass\nNTag = typing.NewType('NTag', Tag)\n", ns)
    bad = []
    n = 0
    for tx in UNI_TYPES:
        t = {"LOAD": "LOAD", "STRLOAD": "STRLOAD"}.get(tx) or eval(tx, ns)
        for s_ in UNI_NUMS:
            outs = {}
            for name, mk in (("str", lambda x: x), ("bytes", lambda x: x.encode()), ("bytearray", lambda x: bytearray(x.encode())),
                             ("memoryview(bytes)", lambda x: memoryview(x.encode())), ("memoryview(bytearray)", lambda x: memoryview(bytearray(x.encode())))):
                try:
                    r = serdes.load(mk(s_)) if t == "LOAD" else (serdes.strload(mk(s_)) if t == "STRLOAD" else typelib.unmarshal(t, mk(s_)))
                    outs[name] = ("ok", type(r).__name__, repr(r))
                except Exception as e:  # noqa: BLE001
                    outs[name] = ("rejected",)
            n += 1
            if len(set(outs.values())) > 1:
                bad.append([tx, s_, {k: list(v) for k, v in outs.items()}])
    return {"bad": bad, "n": n}


def unicode_number_probe(res):
    from .. import iso
    o = iso.map_isolated(_uni_child, [None], timeout=60.0)[0]
    if not isinstance(o, dict) or "bad" not in o:
        raise RuntimeError(f"harness: unicode number probe failed: {o}")
    res.case({"family": "non-ascii-numeric-text"}, True)
    for tx, s_, outs in o["bad"]:
        res.failures.append({"what": f"unmarshal({tx}, {s_!r}) depends on the carrier of the text: {outs}"[:500], "input": {"uni_number": [tx, s_]}})
    if not o["bad"]:
        res.count("oracle:non-ascii-numeric-text-carrier-independent", o["n"])


def escaped_json_probe(res):
    from .. import iso
    outs = iso.map_isolated(_esc_child, ESC_CASES, timeout=60.0)
    for case, bad in zip(ESC_CASES, outs):
        if not isinstance(bad, list):
            raise RuntimeError(f"harness: escaped-JSON probe failed: {case}: {bad}")
        res.case({"ann": case[0], "wire": case[1], "family": "escaped-json-text"}, True)
        if bad:
            res.failures.append({"what": bad[0] + (f" (+{len(bad) - 1} more)" if len(bad) > 1 else ""), "input": {"esc_case": [case[0], case[1]]}})
        else:
            res.count("oracle:escaped-json-text-equivalent")


# ---- the same text again, after the caller edited what it got: every call returns what a decoder returns for THAT text, and the
# text stays equivalent to the decoded value in every carrier (nested documents, open targets that hand members on as decoded)
AGAIN_TEXTS = ['{"name": "a", "tags": ["x"]}', '[{"id": 1}, {"id": 2}]', '{"a": {"b": {"c": [1, [2, [3]]]}}}', '[[1, 2], [3, [4]]]',
               "[{'id': 1}, {'id': 2}]", "{'k': [1, 2], 'm': {'n': []}}", "({'a': [1]}, [2])", "{'s': {1, 2}}", '{"a": [], "b": {}}', '[[], [[]]]']
AGAIN_TARGETS = ["LOAD", "STRLOAD", "typing.Dict[str, typing.Any]", "typing.List[dict]", "dict", "list", "typing.List[typing.Any]",
                 "typing.Dict[str, object]", "Bag", "typing.Tuple[typing.Any, ...]"]
AGAIN_SRC = """
import dataclasses, typing
@dataclasses.dataclass
class Bag:
    name: typing.Any = None
    tags: typing.Any = None
    a: typing.Any = None
    k: typing.Any = None
"""


def _again_child(tx):
    import ast
    import copy
    import json as _json
    import sys
    import types
    import warnings
    warnings.simplefilter("ignore")
    import typelib
    from typelib import serdes
    mod = types.ModuleType("vm_c14_again")
    sys.modules["vm_c14_again"] = mod
    ns = mod.__dict__
    exec(AGAIN_SRC, ns)
    t = tx if tx in ("LOAD", "STRLOAD") else eval(tx, ns)

    def edit(x, seen=None):
        """change every mutable container reachable from x in place"""
        if isinstance(x, dict):
            for v in list(x.values()):
                edit(v)
            x["zz_edited"] = [0]
        elif isinstance(x, list):
            for v in x:
                edit(v)
            x.append("zz_edited")
        elif isinstance(x, set):
            x.add("zz_edited")
        elif isinstance(x, tuple):
            for v in x:
                edit(v)
        elif hasattr(x, "__dataclass_fields__"):
            for f in x.__dataclass_fields__:
                edit(getattr(x, f))

    def call(v):
        if t == "LOAD":
            return serdes.load(v)
        if t == "STRLOAD":
            return serdes.strload(v)
        return typelib.unmarshal(t, v)
    carriers = (("str", lambda s_: s_), ("bytes", lambda s_: s_.encode()), ("bytearray", lambda s_: bytearray(s_.encode())),
                ("memoryview(bytes)", lambda s_: memoryview(s_.encode())), ("memoryview(bytearray)", lambda s_: memoryview(bytearray(s_.encode()))))
    bad, n = [], 0
    for txt in AGAIN_TEXTS:
        try:
            decoded = _json.loads(txt)
        except ValueError:
            decoded = ast.literal_eval(txt)
        if t in ("LOAD", "STRLOAD"):
            want = repr(decoded)
        else:
            try:
                want = repr(call(copy.deepcopy(decoded)))
            except Exception:  # noqa: BLE001
                want = "rejected"
        for rnd in (1, 2, 3):
            for name, mk in carriers:
                try:
                    r = call(mk(txt))
                    got = repr(r)
                except Exception:  # noqa: BLE001
                    r, got = None, "rejected"
                n += 1
                if got != want:
                    bad.append(f"call {rnd}: {name} {txt!r} -> {got[:160]}; the decoded value gives {want[:160]}")
                edit(r)           # the caller edits its own result
    return {"bad": bad, "n": n}


def text_again_probe(res):
    from .. import iso
    outs = iso.map_isolated(_again_child, AGAIN_TARGETS, timeout=60.0)
    for tx, o in zip(AGAIN_TARGETS, outs):
        if not isinstance(o, dict) or "bad" not in o:
            raise RuntimeError(f"harness: text-again probe failed: {tx}: {o}")
        res.case({"family": "same-text-after-the-caller-edited-its-result", "target": tx}, True)
        if o["bad"]:
            res.failures.append({"what": f"{tx}: {o['bad'][0]} (+{len(o['bad']) - 1} more)", "input": {"again_target": tx}})
        else:
            res.count("oracle:text-equivalent-on-every-call", o["n"])


def explore(ctx):
    res = Result()
    res.rule = RULE
    depth = 2 if ctx.tier == "quick" else 3
    n = ctx.n(150, 2500)
    jobs = core.gen_jobs(ctx, n, "c14", dict(max_depth=depth, unions="any"), make_ops(depth))
    jobs += lookalike_jobs()
    # JSON printer pass; the texts of the plain values go through the real strload / load (and the modelled one) below
    fixed = [["d", [["a", ["l", [1, None, True, -5]]], ["k\"\\\n\x7f\u00e9", "v"]]], ["l", []], ["d", []], "", ["l", [["l", [["l", []]]]]],
             ["d", [["a", 1], ["a", 2]]], ["d", [[1, 1]]], 2**64, -2**63, "\x00", "\u2028\U0001f600"]
    texts = json_render_pass(ctx, res, fixed)
    cap = ctx.n(200, 2000)
    jobs.append({"prog": {"classes": [], "aliases": {}}, "ops": [{"op": "strload", "s": t} for t in texts[:cap]]})
    real, model = core.run_jobs(jobs)
    # second pass: text of real wire forms
    jobs2 = []
    for job, ro in zip(jobs, real):
        if isinstance(ro, dict) and "crash" in ro:
            raise RuntimeError(f"harness: {ro}")
        ops2 = []
        for op, r_ in zip(job["ops"], ro):
            if op["op"] == "rt" and "ok" in r_.get("mar", {}) and universe.is_plain_wire(r_["mar"]["ok"]) \
                    and container_like(op["ty"]) and not _has_big_int(r_["mar"]["ok"]):
                ops2.append({"op": "textequiv", "ty": op["ty"], "val": r_["mar"]["ok"]})
                if py_plain_wire(r_["mar"]["ok"]):
                    # correspondence on the JSON text itself (Props/C14.lean um_json_text: the model gives the text and the
                    # decoded value the same outcome; here the real routine and the model are compared on the text)
                    o = wire_py(r_["mar"]["ok"])
                    txt = json.dumps(o, separators=(",", ":"), ensure_ascii=False) if len(ops2) % 2 else json.dumps(o, ensure_ascii=False)
                    ops2.append({"op": "um", "ty": op["ty"], "val": txt})
        jobs2.append({"prog": job["prog"], "ops": ops2})
    real2, model2 = core.run_jobs(jobs2)
    res.programs = len(jobs)
    for job, op, r_, m_ in core.iter_results(jobs, real, model):
        if op["op"] == "um":
            case = {"ann": enc.pyexpr(op["ty"], job["prog"]), "input": op["val"]}
            res.case(case, True)
            inp = {"prog": job["prog"], "ty": op["ty"], "val": op["val"], **case}
            core.compare(res, "um", inp, r_, m_)
            if "carriers" in r_:
                outs = [r_] + list(r_["carriers"].values())
                oks = [o for o in outs if "ok" in o]
                if oks and len(oks) != len(outs):
                    res.failures.append({"what": "some text carriers are accepted and others rejected", "input": inp,
                                         "real": {k: _brief(v) for k, v in r_["carriers"].items()} | {"str": _brief(r_)}})
                elif oks and any(enc.canon(o["ok"]) != enc.canon(oks[0]["ok"]) for o in oks):
                    res.failures.append({"what": "text carriers give different results", "input": inp,
                                         "real": {k: _brief(v) for k, v in r_["carriers"].items()} | {"str": _brief(r_)}})
                else:
                    res.count("oracle:carriers-" + ("equal" if oks else "all-reject"))
        elif op["op"] == "strload":
            case = {"strload": op["s"]}
            res.case(case, len(op["s"]) > 1)
            inp = {"prog": job["prog"], "s": op["s"], **case}
            core.compare(res, "strload", inp, r_["strload"], m_)
            bad = []
            if r_["json"] is not None:
                for k in ("strload", "load", "load_bytes"):
                    if not ("ok" in r_[k] and enc.canon(r_[k]["ok"]) == enc.canon(r_["json"]["ok"])):
                        # orjson parses integers beyond 64 bit as floats; json.loads keeps them exact
                        if _has_big_int(r_["json"]["ok"]):
                            continue
                        bad.append(f"{k} != json.loads on JSON text")
            elif not r_["literal"]:
                for k in ("strload", "load", "load_bytes"):
                    if not ("ok" in r_[k] and r_[k]["ok"] == op["s"]):
                        bad.append(f"{k} did not return non-JSON, non-literal text unchanged")
            if "nontext_changed" in r_:
                bad.append("load changed a non-text input " + r_["nontext_changed"])
            if bad:
                res.failures.append({"what": "; ".join(bad), "input": inp, "real": {k: _brief(r_[k]) for k in ("strload", "load", "load_bytes")}})
            else:
                res.count("oracle:load-ok")
    for job, op, r_, m_ in core.iter_results(jobs2, real2, model2):
        if op["op"] == "um":
            case = {"ann": enc.pyexpr(op["ty"], job["prog"]), "input": op["val"]}
            res.case(case, True)
            core.compare(res, "um-json-text", {"prog": job["prog"], "ty": op["ty"], "val": op["val"], **case}, r_, m_)
            continue
        case = {"ann": enc.pyexpr(op["ty"], job["prog"]), "wire": op["val"]}
        res.case(case, True)
        inp = {"prog": job["prog"], "ty": op["ty"], "val": op["val"], **case}
        d = r_["decoded"]
        for k in ("json", "json_bytes", "repr"):
            if k not in r_:
                continue
            o = r_[k]
            same = ("ok" in d and "ok" in o and enc.canon(d["ok"]) == enc.canon(o["ok"])) or ("err" in d and "err" in o)
            if not same:
                res.failures.append({"what": f"{k} text of a wire value is not equivalent to the decoded value", "input": inp,
                                     "real": {"decoded": _brief(d), k: _brief(o), "text": r_.get(k.split('_')[0] + "_text")}})
            else:
                res.count("oracle:text-equivalent")
    escaped_json_probe(res)
    unicode_number_probe(res)
    text_again_probe(res)
    return res


def container_like(ts):
    body = [x for x in ts if not isinstance(x, dict)]
    if body[0] == "wrap":
        return container_like(body[2])
    return body[0] in ("coll", "tuple", "dict", "cls")


def _has_big_int(v):
    if isinstance(v, bool):
        return False
    if isinstance(v, int):
        return not (-2**63 <= v < 2**64)
    if isinstance(v, list):
        return any(_has_big_int(x) for x in v)
    if isinstance(v, dict):
        return any(_has_big_int(x) for x in v.values())
    return False


def _brief(o):
    return {k: o[k] for k in o if k in ("ok", "err", "msg")}


def witness(fid):
    return None


def replay(failure):
    inp = failure["input"]
    if "uni_number" in inp:
        from .. import iso
        o = iso.map_isolated(_uni_child, [None], timeout=60.0)[0]
        print(json.dumps(o, indent=1, ensure_ascii=True)[:3000])
        return bool(o.get("bad")) if isinstance(o, dict) else True
    if "again_target" in inp:
        from .. import iso
        o = iso.map_isolated(_again_child, [inp["again_target"]], timeout=60.0)[0]
        print(json.dumps(o, indent=1, ensure_ascii=True)[:3000])
        return bool(o.get("bad")) if isinstance(o, dict) else True
    if "esc_case" in inp:
        from .. import iso
        bad = iso.map_isolated(_esc_child, [tuple(inp["esc_case"])], timeout=60.0)[0]
        print(json.dumps({"case": inp["esc_case"], "differences": bad}, indent=1, ensure_ascii=True))
        return bool(bad)
    if "s" in inp:
        job = {"prog": inp["prog"], "ops": [{"op": "strload", "s": inp["s"]}]}
    elif "wire" in inp:
        job = {"prog": inp["prog"], "ops": [{"op": "textequiv", "ty": inp["ty"], "val": inp["val"]}]}
    else:
        job = {"prog": inp["prog"], "ops": [{"op": "um", "ty": inp["ty"], "val": inp["val"], "obs": ["carriers"]}]}
    real, model = core.run_jobs([job])
    print(json.dumps({"input": {k: inp[k] for k in inp if k != "prog"}, "real": real[0][0], "model": model[0][0]}, indent=1)[:3000])
    return True
