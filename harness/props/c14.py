"""C14 — Text-like inputs are interchangeable."""
from __future__ import annotations

import json

from .. import core, enc, universe
from ..runner import Result

ID = "C14"
LEVEL = "proof"
LEVEL_TEXT = ("Theorems over the executable model (Props/C14.lean): `decode` and `load` do not depend on the text carrier "
              "(str / bytes / bytearray / memoryview r/o / memoryview writable), hence `um T (text c s) = um T (str s)` for every "
              "annotation without bytes-like members, every carrier and every string (induction over the annotation: every "
              "routine starts with decode or load); `load` returns non-text inputs untouched. The modelled strload agrees with "
              "the real one on the JSON / plain-word fragment (correspondence); outside that fragment the direct oracle still "
              "runs: all five carriers plus a read-only view of a mutable buffer (oracle-only sixth carrier) equal-or-all-reject on the real library, JSON / literal text of a wire value equivalent "
              "to the decoded value, load/strload equal to json.loads on JSON text and identity on non-JSON non-literal text.")
LEVEL_NOTE = ("Trusted: Lean kernel, standard axioms; model tied by correspondence; orjson / ast.literal_eval are modelled on a "
              "fragment only (strings outside it are reported as unsupported by the model and judged by the oracle alone).")
TECHNIQUE = "Lean 4 theorems (carrier independence by induction on the annotation) + correspondence of the strload fragment + five-carrier / text-equivalence oracle"
DESIGN_REF = "DESIGN.md §5 C14"
MODULES = ["TypelibModel.Props.C14", "TypelibModel.Props.Dispatch"]
TABLES = True
RULE = ("strings: wire forms of valid values rendered by json.dumps and repr, numeric/boolean/null look-alikes, malformed JSON, "
        "control characters, non-ASCII; each given in the five carriers to unmarshal(T, .) for T in U; non-trivial = string "
        "of length > 1 or composite annotation")
ASSUMPTIONS = ["bytes carriers hold the UTF-8 encoding of the string",
               "integers in JSON text stay within 64 bits (the default decoder, orjson, reads larger ones as floats; C02 states the same range)"]
TRUSTED = ["harness encoders/generators", "hand-written model tied by correspondence"]

EXTRA_STRS = ["[1, 2", '{"a": }', "{'a': 1}", "nul", "tru", "NaN", "Infinity", "-", "1e5", "0x10", "1_0", "\x00", "a\tb", "\x7f",
              "éè", "日本語", "\U0001f600", '"\\u00e9"', "[1,]", "01", "1.", ".5", "- 1", "(1)", "[1] ", " [1]", "b'x'", "1j",
              "{1, 2}", "None", "True", "1,2", "''", '""', "[[]]", '{"a": {"b": [1, null, true]}}', "hello", "hello world", "a-b", "2020-01-02"]


def make_ops(depth):
    def f(g, prog):
        ops = []
        for _ in range(2):
            ts = g.ty(depth)
            for _ in range(3):
                s = g.r.choice(universe.STRS + EXTRA_STRS)
                ops.append({"op": "um", "ty": ts, "val": s, "obs": ["carriers"]})
                ops.append({"op": "um", "ty": ts, "val": ["b", g.r.choice(["bytes", "bytearray", "mview", "mviewW"]), s]})
            v = g.value(ts, budget=depth)
            ops.append({"op": "rt", "ty": ts, "val": v})
        for _ in range(3):
            ops.append({"op": "strload", "s": g.r.choice(universe.STRS + EXTRA_STRS)})
        return ops
    return f


def lookalike_jobs():
    """Types whose members or alternatives contain a text AND what that text reads as (Literal['1', 1], str | int, an enum with values
    '1' and 1, ...): every carrier of the text must pick the same one."""
    lits = [["1", 1], [1, "1"], ["true", 1], ["True", True], ["None", None], ["null", None], ["1.0", 1], ["1", True], ["[1]", "x"],
            ["0", False], ["null", "x"]]
    ops = []
    for vals in lits:
        for s in [v for v in vals if isinstance(v, str)] + ["1", "null", "true"]:
            lit = ["lit", vals]
            for ts in (lit, ["union", [lit, ["none"]], {"sp": "optional"}], ["coll", "list", lit, {"sp": "builtin"}]):
                v = s if ts[0] != "coll" else json.dumps([s])
                ops.append({"op": "um", "ty": ts, "val": v, "obs": ["carriers"]})
    jobs = [{"prog": {"classes": [], "aliases": {}}, "ops": ops}]
    # one job (= one process) per union: two orders of one member set share the routine caches (finding unionOrderKey)
    for ts in (["union", [["str"], ["int"]], {"sp": "typing"}], ["union", [["int"], ["str"]], {"sp": "pipe"}],
               ["union", [["str"], ["none"]], {"sp": "optional"}], ["union", [["float"], ["str"], ["none"]], {"sp": "typing"}]):
        jobs.append({"prog": {"classes": [], "aliases": {}},
                     "ops": [{"op": "um", "ty": ts, "val": s, "obs": ["carriers"]} for s in ("1", "null", "true", "1.5", "None", " 7 ", "abc")]})
    return jobs


def explore(ctx):
    res = Result()
    res.rule = RULE
    depth = 2 if ctx.tier == "quick" else 3
    n = ctx.n(150, 2500)
    jobs = core.gen_jobs(ctx, n, "c14", dict(max_depth=depth, unions="any"), make_ops(depth))
    jobs += lookalike_jobs()
    real, model = core.run_jobs(jobs)
    # second pass: text of real wire forms
    jobs2 = []
    for job, ro in zip(jobs, real):
        if isinstance(ro, dict) and "crash" in ro:
            raise RuntimeError(f"harness: {ro}")
        ops2 = []
        for op, r_ in zip(job["ops"], ro):
            if op["op"] == "rt" and "ok" in r_.get("mar", {}) and universe.is_plain_wire(r_["mar"]["ok"]) \
                    and container_like(op["ty"]) and not _has_big_int(r_["mar"]["ok"]):
                ops2.append({"op": "textequiv", "ty": op["ty"], "val": r_["mar"]["ok"]})
        jobs2.append({"prog": job["prog"], "ops": ops2})
    real2, model2 = core.run_jobs(jobs2)
    res.programs = len(jobs)
    for job, op, r_, m_ in core.iter_results(jobs, real, model):
        if op["op"] == "um":
            case = {"ann": enc.pyexpr(op["ty"], job["prog"]), "input": op["val"]}
            res.case(case, True)
            inp = {"prog": job["prog"], "ty": op["ty"], "val": op["val"], **case}
            core.compare(res, "um", inp, r_, m_)
            if "carriers" in r_:
                outs = [r_] + list(r_["carriers"].values())
                oks = [o for o in outs if "ok" in o]
                if oks and len(oks) != len(outs):
                    res.failures.append({"what": "some text carriers are accepted and others rejected", "input": inp,
                                         "real": {k: _brief(v) for k, v in r_["carriers"].items()} | {"str": _brief(r_)}})
                elif oks and any(enc.canon(o["ok"]) != enc.canon(oks[0]["ok"]) for o in oks):
                    res.failures.append({"what": "text carriers give different results", "input": inp,
                                         "real": {k: _brief(v) for k, v in r_["carriers"].items()} | {"str": _brief(r_)}})
                else:
                    res.count("oracle:carriers-" + ("equal" if oks else "all-reject"))
        elif op["op"] == "strload":
            case = {"strload": op["s"]}
            res.case(case, len(op["s"]) > 1)
            inp = {"prog": job["prog"], "s": op["s"], **case}
            core.compare(res, "strload", inp, r_["strload"], m_)
            bad = []
            if r_["json"] is not None:
                for k in ("strload", "load", "load_bytes"):
                    if not ("ok" in r_[k] and enc.canon(r_[k]["ok"]) == enc.canon(r_["json"]["ok"])):
                        # orjson parses integers beyond 64 bit as floats; json.loads keeps them exact
                        if _has_big_int(r_["json"]["ok"]):
                            continue
                        bad.append(f"{k} != json.loads on JSON text")
            elif not r_["literal"]:
                for k in ("strload", "load", "load_bytes"):
                    if not ("ok" in r_[k] and r_[k]["ok"] == op["s"]):
                        bad.append(f"{k} did not return non-JSON, non-literal text unchanged")
            if "nontext_changed" in r_:
                bad.append("load changed a non-text input " + r_["nontext_changed"])
            if bad:
                res.failures.append({"what": "; ".join(bad), "input": inp, "real": {k: _brief(r_[k]) for k in ("strload", "load", "load_bytes")}})
            else:
                res.count("oracle:load-ok")
    for job, op, r_, m_ in core.iter_results(jobs2, real2, model2):
        case = {"ann": enc.pyexpr(op["ty"], job["prog"]), "wire": op["val"]}
        res.case(case, True)
        inp = {"prog": job["prog"], "ty": op["ty"], "val": op["val"], **case}
        d = r_["decoded"]
        for k in ("json", "json_bytes", "repr"):
            if k not in r_:
                continue
            o = r_[k]
            same = ("ok" in d and "ok" in o and enc.canon(d["ok"]) == enc.canon(o["ok"])) or ("err" in d and "err" in o)
            if not same:
                res.failures.append({"what": f"{k} text of a wire value is not equivalent to the decoded value", "input": inp,
                                     "real": {"decoded": _brief(d), k: _brief(o), "text": r_.get(k.split('_')[0] + "_text")}})
            else:
                res.count("oracle:text-equivalent")
    return res


def container_like(ts):
    body = [x for x in ts if not isinstance(x, dict)]
    if body[0] == "wrap":
        return container_like(body[2])
    return body[0] in ("coll", "tuple", "dict", "cls")


def _has_big_int(v):
    if isinstance(v, bool):
        return False
    if isinstance(v, int):
        return not (-2**63 <= v < 2**64)
    if isinstance(v, list):
        return any(_has_big_int(x) for x in v)
    if isinstance(v, dict):
        return any(_has_big_int(x) for x in v.values())
    return False


def _brief(o):
    return {k: o[k] for k in o if k in ("ok", "err", "msg")}


def witness(fid):
    return None


def replay(failure):
    inp = failure["input"]
    if "s" in inp:
        job = {"prog": inp["prog"], "ops": [{"op": "strload", "s": inp["s"]}]}
    elif "wire" in inp:
        job = {"prog": inp["prog"], "ops": [{"op": "textequiv", "ty": inp["ty"], "val": inp["val"]}]}
    else:
        job = {"prog": inp["prog"], "ops": [{"op": "um", "ty": inp["ty"], "val": inp["val"], "obs": ["carriers"]}]}
    real, model = core.run_jobs([job])
    print(json.dumps({"input": {k: inp[k] for k in inp if k != "prog"}, "real": real[0][0], "model": model[0][0]}, indent=1)[:3000])
    return True
